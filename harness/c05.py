"""C05 - honestly signed messages are accepted by every station sharing the trust root; signing profiles."""
from __future__ import annotations

import contextlib
import io
import json
from fractions import Fraction

from . import common
from . import sec_common as sc
from .stack import VCLOCK, CaptureLL, make_router
from .c03 import requests

PROP = "C05"
COQ_TARGETS = ["Properties/C05", "Extract/ExC05"]
MODEL_ML = "c05_model.ml"
MODEL_NAME = "c05"
TRUSTED_BASE = [
    "Coq 8.16.1 kernel (coqc); vm_compute only in the Examples; no native_compute",
    "extraction (ExtrOcamlBasic only) + ocaml/driver_body.ml + OCaml 4.13.1",
    "hand-written model coq/theories/Model/Sec.v (sign_cam / sign_denm / sign_other, verify_msg, net_step) and Model/SecListen.v "
    "(verify_msg_lo, net_step_cfg: receivers configured without a sign service), tied to N real "
    "stations (Router + SignService + VerifyService + CertificateLibrary, real P-256 backend) by differential execution",
    "completeness of ECDSA (a signature made with a key verifies under it) is the hypothesis of the acceptance theorems; "
    "the extracted model is run with the oracle 'every signature verifies' and compared with the real ECDSA on honest traffic",
    "asn1tools OER codec, ecdsa, hashlib (third party, not modelled); Python harness harness/c05.py, sec_common.py, stack.py",
]
ASSUMPTIONS = [
    "the model is tied to the code by execution on the same multi-station schedules, not by proof",
    "'within two further message exchanges' is read as: after the receiver's next CAM (carrying the request) has reached the "
    "sender, the sender's next CAM carries the certificate and is accepted",
    "TimeService.time() values are doubles that are integer multiples of 2^-22 s on the virtual clock; the subtraction "
    "current - last of two such values within a factor of two is exact, so the model's integer tick arithmetic is exact",
    "besides the two reasons named in the property (more than 1 s since the last inclusion, a peer asked), the code and TS 103 "
    "097 clause 7.1.1 include the certificate in the next CAM after a message of a previously unknown ticket was seen; the "
    "oracle allows (does not require) that third reason",
]
EXPLANATION = ("theorems under the completeness hypothesis of the signature oracle: sign-then-verify for the CAM/VAM, DENM and "
               "generic profiles at every receiver that knows the ticket or can chain the carried certificate, the clause "
               "7.1.1 signer rule, the header fields of each profile, and the two-station late-joiner protocol for every "
               "state of the sender's inclusion timer; correspondence on seeded schedules of N real stations")

U = [36, 37, 638, 139]
KIND_PSID = {"cam": 36, "vam": 638, "generic": 139, "denm": 37}


def kind_psid(kind: str) -> int:
    """ "generic:<psid>" = generic profile with that ITS-AID"""
    return int(kind.split(":")[1]) if ":" in kind else KIND_PSID[kind]


def base_kind(kind: str) -> str:
    return kind.split(":")[0]


class Sta:
    pass


class Scenario:
    """N real stations on one PKI; the oracle's own bookkeeping of who knows whom"""

    def __init__(self, ctx, n, preload, ticket_specs=None, opts=None):
        """opts (audit round): pos = position of all stations and centre of the DENM area; apps = {station: ITS-AID list of
        its ticket}; ssp = tickets carry service specific permissions; aa_of = {station: 1 | 2} issuing authority of the
        station's ticket (two authorities under the common root); knows_aa = {station: [1, 2]} authorities configured at the
        station (default: both when aa_of is given); listen_only = stations configured WITHOUT a sign service
        (VerifyService(backend, library) and Router(mib, verify_service=...): road-side monitor / listen-only station; no own
        ticket, never transmits) - 'every station trusting the same root' does not ask the receiver to be a sender"""
        from .c03 import Net, its_now_s
        self.ctx = ctx
        self.net = Net(ctx.rng)
        self.reg = sc.Reg()
        self.sta = []
        self.model_ops = []        # (station, flat op, receivers)
        self.impl = []             # per op: (sender result, receiver results, dumps)
        opts = opts or {}
        self.pos = opts.get("pos", (413800000, 21100000))
        aa_of = opts.get("aa_of", {})
        aas = {1: self.net.aa}
        if aa_of:
            aas[2] = self.net.cert(self.net.root, [36], [(U + list(opts.get("more_psids", [])), 1)], "aa2", its_now_s())
        tickets = []
        for i in range(n):
            app = opts.get("apps", {}).get(i, U)
            tk = self.net.cert(aas[aa_of.get(i, 1)], app, None, None, its_now_s())
            tickets.append(tk)
        for i, spec in (ticket_specs or {}).items():
            if spec[0] == "start_at":
                # the validity of the ticket starts exactly at schedule time spec[1] (ms, a whole second)
                start_s = (VCLOCK.ms + 10_000 + spec[1] - sc.ITS_EPOCH_S * 1000 + 5000) // 1000
                tbs = sc.make_tbs(None, U, None, start_s, ("hours", 1), self.net.pki.pub(tickets[i][1]))
                tickets[i] = (sc.make_cert(self.net.pki, tbs, ("sha256AndDigest", sc.hashed_id8(self.net.aa[0])),
                                           self.net.aa[1]), tickets[i][1])
                continue
            # spec = (duration unit, amount, seconds of validity left at the start of the schedule)
            unit, amount, left_s = spec
            end_s = its_now_s() + left_s
            start_s = end_s - (amount * sc.UNIT_US[unit]) // 1_000_000
            tickets[i] = self.net.cert(self.net.aa, U, None, None, start_s + 1000, (unit, amount))
        if opts.get("ssp"):
            # real tickets carry service specific permissions next to each ITS-AID
            for i in range(n):
                tbs = tickets[i][0]["toBeSigned"]
                for k, e in enumerate(tbs["appPermissions"]):
                    e["ssp"] = ("bitmapSsp", bytes([1, 0xFF, k])) if k % 2 == 0 else ("opaque", bytes([k, 2, 3]))
                iss = aas[aa_of.get(i, 1)]
                tickets[i] = (sc.make_cert(self.net.pki, tbs, tickets[i][0]["issuer"], iss[1]), tickets[i][1])
        self.aa_of = [aa_of.get(i, 1) for i in range(n)]
        self.aas = aas
        self.listen_only = sorted(set(opts.get("listen_only", ())))
        for i in range(n):
            lo = i in self.listen_only
            known = [tickets[k] + (aas[self.aa_of[k]],) for k in preload.get(i, [])]
            ka = opts.get("knows_aa", {}).get(i, sorted(aas))
            r = self.net.station(0x0A0B0C0D2000 + i, own=None if lo else tickets[i], known=known, reg=self.reg,
                                 aas=[(aas[a], self.net.root) for a in ka], own_issuer=aas[self.aa_of[i]],
                                 ego=opts.get("pos_of", {}).get(i, self.pos), with_sign_service=not lo)
            if lo:
                r["router"].sign_service = None      # Router(mib, verify_service=...)
            s = Sta()
            s.i, s.r, s.own, s.joined, s.lo = i, r, tickets[i], False, lo
            s.knows_aa = list(ka)
            s.h8 = b"" if lo else sc.hashed_id8(tickets[i][0])
            s.confirms = []
            s.verify_exc = None
            orig = r["st"].verify.verify

            def wrapped(req, orig=orig, s=s):
                try:
                    c = orig(req)
                except Exception as e:  # noqa: BLE001  (the router discards the packet; the oracle reports why)
                    s.verify_exc = f"{type(e).__name__}: {e}"
                    raise
                s.confirms.append(c)
                return c
            r["st"].verify.verify = wrapped
            self.sta.append(s)
            for op in r["setup"]:
                self.model_ops.append((i, op, []))
                self.impl.append(None)
        # oracle state
        self.known = [[(k in preload.get(j, [])) or k == j for k in range(n)] for j in range(n)]
        self.last_cert = [None] * n          # float time of the last certificate inclusion
        self.asked = [False] * n
        self.saw_unknown = [False] * n
        self.wanted = [[] for _ in range(n)]  # HashedId3 of tickets seen but not known, in order of first sighting
        self.pending = [[None] * n for _ in range(n)]   # [receiver][sender]: None | "rejected" | "requested"
        # audit round: which receiver can chain which sender's ticket (it holds the issuing authority), the CA certificates
        # each station holds (HashedId3 -> certificate) and the CA certificates peers asked it for (pending answers)
        self.chain_ok = [[self.aa_of[i] in self.sta[j].knows_aa for i in range(n)] for j in range(n)]
        self.held = []
        for j in range(n):
            h = {sc.hashed_id8(self.net.root[0])[-3:]: self.net.root[0]}
            for a in self.sta[j].knows_aa:
                h[sc.hashed_id8(aas[a][0])[-3:]] = aas[a][0]
            self.held.append(h)
        self.ca_asked = [[] for _ in range(n)]

    def dumps(self):
        return [s.r["st"].dump() for s in self.sta]


def feed(s: Sta, frame: bytes):
    n_c, n_g = len(s.confirms), len(s.r["got"])
    exc = None
    s.verify_exc = None
    with contextlib.redirect_stdout(io.StringIO()):
        try:
            s.r["router"].gn_data_indicate(frame)
        except Exception as e:  # noqa: BLE001
            exc = type(e).__name__
    confirms = s.confirms[n_c:]
    return confirms[0] if confirms else None, s.r["got"][n_g:], exc or s.verify_exc


def send(ctx, sc_: Scenario, i: int, kind: str, data: bytes, t_ms: int, tag: str):
    """station i emits one message at virtual time t_ms; every joined station receives it"""
    reg = sc_.reg
    s = sc_.sta[i]
    VCLOCK.set_ms(t_ms)
    now_f = VCLOCK.time()
    inp = {"scenario": tag, "t_ms": t_ms, "sender": i, "kind": kind, "data": data.hex()}
    s.r["ll"].sent.clear()
    full_kind, kind = kind, base_kind(kind)
    with contextlib.redirect_stdout(io.StringIO()):
        try:
            rq = requests(sc_.pos)
            s.r["router"].gn_data_request(rq["generic_psid"](data, kind_psid(full_kind)) if ":" in full_kind else rq[kind](data))
            err = None
        except Exception as e:  # noqa: BLE001
            err = type(e).__name__
    rcv = [j for j, x in enumerate(sc_.sta) if x.joined and j != i]
    ctx.count(1, f"send:{kind}")
    if err is not None or len(s.r["ll"].sent) != 1:
        ctx.property_failure("honest_sign_failed", inp, f"signing an honest {kind} failed: {err}, {len(s.r['ll'].sent)} packets")
        return
    frame = s.r["ll"].sent[0]
    try:
        assert (frame[0] & 0x0F) == 2, "next header is not SECURED_PACKET"
        d = sc.dec_data(frame[4:])
        assert d["content"][0] == "signedData", "content is not signedData"
        sd = d["content"][1]
        hi = sd["tbsData"]["headerInfo"]
    except Exception as e:  # noqa: BLE001
        ctx.property_failure("honest_not_secured", inp, f"the packet emitted for an honest {kind} with security enabled is not a "
                             f"signed secured packet: {e}", "EtsiTs103097Data-Signed after a basic header with NH = 2", frame[:12].hex())
        return
    plain = sd["tbsData"]["payload"]["data"]["content"][1]
    signer = sd["signer"][0]
    # ---- profile oracle (TS 103 097 clause 7.1), independent of the model --------------------------
    psid = kind_psid(full_kind)
    fields = set(hi.keys())
    if hi.get("psid") != psid:
        ctx.property_failure("profile_psid", inp, "headerInfo.psid differs from the ITS-AID of the request", psid, hi.get("psid"))
    if "generationTime" not in hi or abs(hi["generationTime"] - sc.gen_time_us(t_ms)) > 1000:
        ctx.property_failure("profile_generation_time", inp, "generationTime absent or off the clock", sc.gen_time_us(t_ms),
                             hi.get("generationTime"))
    if not plain.endswith(data):
        ctx.property_failure("profile_payload", inp, "signed payload does not end with the upper-layer data")
    if kind in ("cam", "vam"):
        allowed = {"psid", "generationTime", "inlineP2pcdRequest", "requestedCertificate"}
        if fields - allowed:
            ctx.property_failure("profile_forbidden_field", inp, "CAM/VAM carries a forbidden header field", sorted(allowed),
                                 sorted(fields))
        lc = sc_.last_cert[i]
        due = lc is None or (Fraction(now_f) - Fraction(lc) > 1)
        must = due or sc_.asked[i]
        may = must or sc_.saw_unknown[i]
        why = {"ms_since_last_inclusion": None if lc is None else float((Fraction(now_f) - Fraction(lc)) * 1000),
               "asked": sc_.asked[i], "saw_unknown": sc_.saw_unknown[i]}
        if must and signer != "certificate":
            ctx.property_failure("cam_cert_missing", inp, "CAM/VAM signed with the digest although the certificate is due", why, signer)
        if signer == "certificate" and not may:
            ctx.property_failure("cam_cert_unjustified", inp, "CAM/VAM carries the certificate although it was included less than "
                                 "1 s ago and nobody asked for it (digest expected)", why, signer)
        want = list(sc_.wanted[i])
        got_req = [bytes(h) for h in hi.get("inlineP2pcdRequest", [])]
        if got_req != want:
            cls = "p2pcd_request_for_known_ticket" if set(got_req) - set(want) else "p2pcd_request_missing"
            ctx.property_failure(cls, inp, "inlineP2pcdRequest differs from the tickets seen and not yet known",
                                 [h.hex() for h in want], [h.hex() for h in got_req])
        # clause 7.1.1: a CA certificate this station holds and a peer asked for (inlineP2pcdRequest of an accepted CAM) is
        # sent as requestedCertificate in the next CAM, one per CAM, and only then
        exp_h3 = sc_.ca_asked[i][0] if sc_.ca_asked[i] else None
        got_rc = hi.get("requestedCertificate")
        if exp_h3 is None and got_rc is not None:
            ctx.property_failure("p2pcd_ca_answer_unjustified", inp, "CAM/VAM carries requestedCertificate although no peer "
                                 "asked for a CA certificate this station holds (or the request was answered already)")
        elif exp_h3 is not None and got_rc is None:
            ctx.property_failure("p2pcd_ca_answer_missing", inp, "a peer asked for a CA certificate this station holds; the "
                                 "next CAM/VAM does not carry it as requestedCertificate", exp_h3.hex(), None)
        elif exp_h3 is not None and sc.enc_cert(got_rc) != sc.enc_cert(sc_.held[i][exp_h3]):
            ctx.property_failure("p2pcd_ca_answer_wrong", inp, "requestedCertificate is not the CA certificate that was asked for",
                                 exp_h3.hex(), sc.hashed_id8(got_rc).hex())
        if exp_h3 is not None:
            sc_.ca_asked[i].pop(0)
            ctx.dist["ca_answer_expected"] = ctx.dist.get("ca_answer_expected", 0) + 1
    elif kind == "denm":
        if signer != "certificate":
            ctx.property_failure("denm_signer", inp, "DENM not signed with the certificate", "certificate", signer)
        if fields != {"psid", "generationTime", "generationLocation"}:
            ctx.property_failure("profile_denm_fields", inp, "DENM header fields differ from psid, generationTime, "
                                 "generationLocation", None, sorted(fields))
    else:
        if not {"psid", "generationTime"} <= fields or fields & {"p2pcdLearningRequest", "missingCrlIdentifier"}:
            ctx.property_failure("profile_generic_fields", inp, "generic profile header fields", None, sorted(fields))
    if signer == "certificate":
        if sc.enc_cert(sd["signer"][1][0]) != sc.enc_cert(s.own[0]) or len(sd["signer"][1]) != 1:
            ctx.property_failure("signer_not_own_ticket", inp, "signer certificate is not the station's ticket")
        if kind in ("cam", "vam"):
            sc_.last_cert[i] = now_f
            sc_.asked[i] = False
            sc_.saw_unknown[i] = False
    elif bytes(sd["signer"][1]) != s.h8:
        ctx.property_failure("signer_not_own_ticket", inp, "signer digest is not the HashedId8 of the station's ticket")
    # ---- model operation ------------------------------------------------------------------------------
    pid = reg.payload_id(plain)
    gen = hi.get("generationTime", 0)
    if kind in ("cam", "vam"):
        op = [8, sc.ticks_of(now_f), psid, gen, pid]
    elif kind == "denm":
        op = [9, psid, gen, pid]
    else:
        op = [10, psid, gen, pid]
    m = reg.msg(frame[4:])
    impl_msg = ["msg", list(m["signer"]) if m["signer"][0] != "certs" else ["certs", list(m["signer"][1])], m["psid"], m["gen"],
                int(m["genloc"]), int(m["learn"]), int(m["crl"]), int(m["expiry"]), int(m["enckey"]), m["inline"],
                -1 if not m["reqcert"] else m["reqcert"], m["payload"]]
    # ---- delivery to every joined station; acceptance oracle ----------------------------------------
    results = []
    for j in rcv:
        r = sc_.sta[j]
        confirm, inds, exc = feed(r, frame)
        jinp = dict(inp, receiver=j)
        carries = signer == "certificate"
        chain = sc_.chain_ok[j][i]       # the receiver holds the authority that issued the sender's ticket
        expect_accept = (carries and chain) or sc_.known[j][i]
        ok = confirm is not None and confirm.report.value == 0
        ctx.count(1, f"recv:{kind}:{'cert' if carries else 'digest'}:{'known' if sc_.known[j][i] else 'unknown'}"
                     f"{'' if chain else ':issuer_unknown'}{':listen_only' if r.lo else ''}"
                     f"{':p2pcd_fields' if r.lo and fields & {'inlineP2pcdRequest', 'requestedCertificate'} else ''}")
        if confirm is None:
            results.append(["crash"])
        else:
            results.append(["verify", confirm.report.value, int.from_bytes(confirm.certificate_id, "big") if confirm.certificate_id else 0,
                            reg.payload_id(confirm.plain_message) if ok else 0])
        if expect_accept:
            if not ok:
                ctx.property_failure("honest_rejected", jinp, "honestly signed message rejected by a station sharing the trust "
                                     "root although it carries the certificate or the ticket is known", "SUCCESS",
                                     exc or (confirm.report.name if confirm else None))
            else:
                if bytes(confirm.plain_message) != bytes(plain):
                    ctx.property_failure("payload_changed", jinp, "plain message differs from what was signed")
                if not any(bytes(ind.data) == data for ind in inds):
                    ctx.property_failure("payload_not_delivered", jinp, "accepted message was not indicated with the sender's "
                                         "data unchanged", data.hex(), [bytes(x.data).hex() for x in inds])
                ctx.nontriv(("accept", kind, signer, plain.hex()[:40], j))
        if sc_.pending[j][i] == "requested" and kind in ("cam", "vam") and chain:
            if not (ok and carries):
                ctx.property_failure("p2pcd_too_slow", jinp, "after the receiver's request reached the sender, the sender's next "
                                     "CAM is not accepted (two further exchanges)", "certificate + SUCCESS",
                                     [signer, confirm.report.name if confirm else exc])
            sc_.pending[j][i] = None
        # oracle bookkeeping at receiver j
        if ok:
            if carries:
                sc_.known[j][i] = True
                sc_.pending[j][i] = None
                if s.h8[-3:] in sc_.wanted[j]:
                    sc_.wanted[j].remove(s.h8[-3:])
            if "inlineP2pcdRequest" in hi and r.h8[-3:] in [bytes(h) for h in hi["inlineP2pcdRequest"]]:
                sc_.asked[j] = True
            for h in [bytes(h) for h in hi.get("inlineP2pcdRequest", [])]:
                if h in sc_.held[j] and h not in sc_.ca_asked[j]:
                    sc_.ca_asked[j].append(h)
            if "requestedCertificate" in hi:
                # somebody answered: the receiver neither asks for nor offers this CA certificate any longer
                h = sc.hashed_id8(hi["requestedCertificate"])[-3:]
                if h in sc_.ca_asked[j]:
                    sc_.ca_asked[j].remove(h)
                if h in sc_.wanted[j]:
                    sc_.wanted[j].remove(h)
                ctx.dist["ca_certificate_received"] = ctx.dist.get("ca_certificate_received", 0) + 1
            if kind in ("cam", "vam") and sc_.pending[i][j] == "rejected":
                # j's message reached i earlier and was rejected; i's CAM (with the request) has now reached j
                sc_.pending[i][j] = "requested"
        elif not carries and not sc_.known[j][i]:
            sc_.saw_unknown[j] = True
            if s.h8[-3:] not in sc_.wanted[j]:
                sc_.wanted[j].append(s.h8[-3:])
            if sc_.pending[j][i] is None:
                sc_.pending[j][i] = "rejected"
            ctx.nontriv(("unknown", kind, j, i, t_ms))
        elif carries and not chain and not sc_.known[j][i]:
            # the certificate cannot be chained: the receiver asks for the issuing authority's certificate
            sc_.saw_unknown[j] = True
            h = sc.hashed_id8(sc_.aas[sc_.aa_of[i]][0])[-3:]
            if h not in sc_.wanted[j]:
                sc_.wanted[j].append(h)
            ctx.nontriv(("issuer_unknown", kind, j, i, t_ms))
    sc_.model_ops.append((i, op, rcv))
    sc_.impl.append((impl_msg, results, sc_.dumps(), inp))
    if len(ctx.samples) < 6:
        ctx.sample({"scenario": tag, "t_ms": t_ms, "sender": i, "kind": kind, "signer": signer, "header": sorted(fields),
                    "receivers": {j: (x[1] if x[0] == "verify" else "crash") for j, x in zip(rcv, results)}})


def compare_model(ctx, sc_: Scenario, tag):
    if ctx.model is None or not ctx.model.available:
        return
    reg = sc_.reg
    if sc_.listen_only:
        # SecListen.net_step_cfg: the listed stations verify with verify_msg_lo (no sign service, no notification)
        args = reg.header([], mode=1) + [len(sc_.sta)] + [int(x.lo) for x in sc_.sta] + [len(sc_.model_ops)]
    else:
        args = reg.header([], mode=1) + [len(sc_.sta), len(sc_.model_ops)]
    for i, op, rcv in sc_.model_ops:
        args += [i] + list(op) + [len(rcv)] + list(rcv)
    mod = sc.parse_net(ctx.model.call(3 if sc_.listen_only else 2, args), len(sc_.sta))
    if len(mod) != len(sc_.impl):
        ctx.mismatch("schedule length", {"scenario": tag}, len(mod), len(sc_.impl))
        return
    for (mres, mrs, msts), rec in zip(mod, sc_.impl):
        if rec is None:
            continue
        impl_msg, results, dumps, inp = rec
        if mres[0] != "msg":
            ctx.mismatch("sign operation = Sec.step", inp, mres, impl_msg)
            return
        # the model's message: signer, header fields (certificate identities through cid)
        mm = list(mres)
        im = list(impl_msg)
        if mm != json.loads(json.dumps(im)):
            ctx.mismatch("emitted secured message (signer choice, header fields) = Sec.sign_*", inp, mm, im)
            return
        if mrs != results:
            ctx.mismatch("SN-VERIFY.confirm at the receivers = Sec.verify_msg", inp, mrs, results)
            return
        if msts != dumps:
            bad = [k for k, (a, b) in enumerate(zip(msts, dumps)) if a != b]
            ctx.mismatch("stores and P2PCD state of all stations after the message = Sec.net_step", dict(inp, stations=bad),
                         [msts[k] for k in bad], [dumps[k] for k in bad])
            return


# ---------------------------------------------------------------------------
# schedules

def run_schedule(ctx, n, preload, joins, events, tag, ticket_specs=None, opts=None):
    """joins: {station: t_ms}; events: list of (t_ms, sender, kind, data) sorted by time"""
    VCLOCK.set_ms(1_700_000_000_000)
    sc_ = Scenario(ctx, n, preload, ticket_specs, opts)
    t0 = VCLOCK.ms + 10_000
    for (t, i, kind, data) in sorted(events, key=lambda e: e[0]):
        for j, tj in joins.items():
            if tj <= t:
                sc_.sta[j].joined = True
        if not sc_.sta[i].joined or sc_.sta[i].lo:
            continue            # a listen-only station never transmits
        send(ctx, sc_, i, kind, data, t0 + t, tag)
    compare_model(ctx, sc_, tag)
    return sc_


def periodic(rng, i, start, end, kinds=("cam",), intervals=(100, 200, 300, 500, 999, 1000, 1001, 1100)):
    t = start
    ev = []
    k = 0
    while t < end:
        kind = rng.choice(kinds)
        ev.append((t, i, kind, bytes([i, k % 256]) + bytes(rng.randrange(256) for _ in range(rng.randrange(1, 20)))))
        t += rng.choice(intervals)
        k += 1
    return ev


def late_joiner_sweep(ctx, phases, preload_variants):
    """two stations; S sends CAMs every 250 ms from t=0; J joins `phase` ms after one of S's certificate inclusions and
    sends its own CAMs every 400 ms"""
    for phase in phases:
        for pre in preload_variants:
            ev = [(t, 0, "cam", bytes([0, t // 250 % 256, 1, 2])) for t in range(0, 6000, 250)]
            join = 2000 + phase
            ev += [(t, 1, "cam", bytes([1, (t - join) // 400 % 256, 3])) for t in range(join + 37, 6000, 400)]
            ev += [(join + 1500, 0, "denm", b"\x0d\x0e"), (join + 1700, 0, "generic", b"\x0a\x0b"),
                   (join + 1900, 1, "generic", b"\x0c")]
            run_schedule(ctx, 2, pre, {0: 0, 1: join}, ev, f"late_joiner/phase{phase}/preload{sorted(pre.items())}")


# Duration amounts are Uint16; a ticket of 65535 microseconds cannot cover a schedule, so that unit is left to C09
VALIDITY_SPECS = [("years", 1), ("years", 3), ("years", 19), ("sixtyHours", 2), ("sixtyHours", 700), ("hours", 5),
                  ("hours", 40000), ("minutes", 90), ("minutes", 60000), ("seconds", 5000), ("seconds", 65535),
                  ("milliseconds", 60000)]


def validity_sweep(ctx, specs, lefts):
    """honest messages generated in the last hour / minute / seconds of a ticket's validity period, for every Duration
    unit of IEEE 1609.2 (a year is 31556952 s): they must be accepted at once by a receiver that knows the ticket and by one
    that learns it from the message"""
    for (unit, amount) in specs:
        for left_s in lefts:
            if (left_s + 10) * 1_000_000 >= amount * sc.UNIT_US[unit]:
                continue        # the ticket would not be valid yet at the start of the schedule
            ev = [(t, 0, "cam", bytes([0, t // 300 % 256, 7])) for t in range(0, 3000, 300)]
            ev += [(1000, 0, "denm", b"\x01\x02"), (1400, 0, "generic", b"\x03"), (1700, 0, "vam", b"\x04\x05")]
            ev += [(t, 1, "cam", bytes([1, t // 500 % 256])) for t in range(150, 3000, 500)]
            run_schedule(ctx, 3, {2: [0]}, {0: 0, 1: 0, 2: 0}, ev, f"validity/{unit}{amount}/left{left_s}s",
                         ticket_specs={0: (unit, amount, left_s)})


def two_senders_joiner(ctx, phases):
    """stations 0 and 1 exchange CAMs from t=0; station 2 joins knowing only root and AA, hears digest-signed CAMs of BOTH
    before its own first CAM, so that its request lists two tickets: each of the two must answer with its certificate"""
    for phase in phases:
        ev = [(t, 0, "cam", bytes([0, t // 200 % 256, 9])) for t in range(0, 5000, 200)]
        ev += [(t, 1, "cam", bytes([1, t // 200 % 256, 8])) for t in range(70, 5000, 200)]
        join = 1500 + phase
        ev += [(t, 2, "cam", bytes([2, (t - join) // 450 % 256])) for t in range(join + 310, 5000, 450)]
        ev += [(join + 2000, 1, "denm", b"\x0d"), (join + 2100, 2, "generic", b"\x0e")]
        run_schedule(ctx, 3, {0: [1], 1: [0]}, {0: 0, 1: 0, 2: join}, ev, f"two_senders_joiner/phase{phase}")


def random_schedule(ctx, k):
    rng = ctx.rng
    n = rng.choice([2, 3, 3, 4, 5])
    preload = {}
    for j in range(n):
        if rng.random() < 0.35:
            preload[j] = sorted(rng.sample([x for x in range(n) if x != j], rng.randrange(1, n)))
    joins = {0: 0}
    for j in range(1, n):
        joins[j] = rng.choice([0, rng.randrange(0, 4000), rng.randrange(0, 4000)])
    end = rng.choice([5000, 7000])
    ev = []
    # 0-2 further stations that only listen (no sign service), cold or pre-loaded, present from the start or joining later
    senders = n
    monitors = list(range(n, n + rng.choice([0, 1, 1, 2])))
    for j in monitors:
        joins[j] = rng.choice([0, rng.randrange(0, 4000)])
        if rng.random() < 0.4:
            preload[j] = sorted(rng.sample(range(senders), rng.randrange(1, senders + 1)))
    n += len(monitors)
    for j in range(senders):
        kinds = rng.choice([("cam",), ("cam", "cam", "cam", "vam"), ("cam", "cam", "generic", "denm"), ("vam",)])
        ev += periodic(rng, j, joins[j] + rng.randrange(0, 300), end, kinds)
        for _ in range(rng.randrange(0, 3)):
            ev.append((rng.randrange(joins[j], end), j, rng.choice(["denm", "generic"]), bytes(rng.randrange(256) for _ in range(5))))
    run_schedule(ctx, n, preload, joins, ev, f"random/{k}", opts={"listen_only": monitors} if monitors else None)


# ---------------------------------------------------------------------------
# audit round

def multi_requester(ctx, phases, orders):
    """stations 0 (S) and 1 (T) exchange CAMs from t=0. Station 2 (J) joins knowing only root and AA, station 3 (K) joins
    pre-loaded with ONE of the two tickets, so that between two CAMs of S (and of T) several requests with different lists
    arrive: J asks for S and T, K only for the one it lacks. Every station that was asked must answer with its certificate in
    its next CAM whatever other requests it received in between (clause 7.1.1). orders: which of J / K transmits first;
    a fifth station (L, pre-loaded with both) that asks for nobody is added in half of the schedules."""
    for phase in phases:
        for order in orders:
            for k_knows in (0, 1):
                n = 5 if (phase // 10 + k_knows) % 2 else 4
                ev = [(t, 0, "cam", bytes([0, t // 200 % 256, 9])) for t in range(0, 3800, 200)]
                ev += [(t, 1, "cam", bytes([1, t // 200 % 256, 8])) for t in range(70, 3800, 200)]
                join = 1500 + phase
                first, second = (2, 3) if order == "JK" else (3, 2)
                ev += [(t, first, "cam", bytes([first, (t - join) // 450 % 256])) for t in range(join + 310, 3800, 450)]
                ev += [(t, second, "cam", bytes([second, (t - join) // 450 % 256])) for t in range(join + 330, 3800, 450)]
                joins = {0: 0, 1: 0, 2: join, 3: join}
                preload = {0: [1], 1: [0], 3: [k_knows]}
                if n == 5:
                    ev += [(t, 4, "cam", bytes([4, (t - join) // 450 % 256])) for t in range(join + 345, 3800, 450)]
                    joins[4] = join
                    preload[4] = [0, 1]
                run_schedule(ctx, n, preload, joins, ev, f"multi_requester/phase{phase}/{order}/k_knows{k_knows}")


def two_authorities(ctx, phases):
    """two authorization authorities under the common root. Stations 0 (A, ticket from AA1) and 1 (C, ticket from AA2) hold
    both authority certificates; station 2 (B, ticket from AA2) holds the root and AA2 only. B cannot chain A's certificate
    and asks for the authority's certificate (HashedId3 of AA1 in inlineP2pcdRequest); A and C hold it and must answer with
    requestedCertificate in their next CAM - once each. Acceptance is demanded wherever the receiver holds the issuing
    authority (the property's receivers know root and AA); B's requests and everybody's answers are checked by the profile
    oracle and against the model."""
    for phase in phases:
        ev = [(t, 0, "cam", bytes([0, t // 300 % 256, 5])) for t in range(0, 5200, 300)]
        ev += [(t, 1, "cam", bytes([1, t // 300 % 256, 6])) for t in range(100, 5200, 300)]
        join = 1000 + phase
        ev += [(t, 2, "cam", bytes([2, (t - join) // 400 % 256])) for t in range(join + 50, 5200, 400)]
        ev += [(join + 2000, 0, "denm", b"\x0d"), (join + 2200, 2, "generic", b"\x0e"), (join + 2300, 1, "vam", b"\x0f")]
        # station 3: a monitor without sign service that holds both authorities - it hears (and must accept) the CAMs that carry
        # requestedCertificate and the requests for the authority's certificate
        run_schedule(ctx, 4, {}, {0: 0, 1: 0, 2: join, 3: phase}, ev, f"two_authorities/phase{phase}",
                     opts={"aa_of": {0: 1, 1: 2, 2: 2}, "knows_aa": {0: [1, 2], 1: [1, 2], 2: [2], 3: [1, 2]}, "listen_only": [3]})


def listen_only_receivers(ctx, phases):
    """configurations: the receiver need not be a sender. Stations 3, 4, 5 are configured without a sign service
    (VerifyService(backend, library), Router(mib, verify_service=...)): 3 knows root and AA only and listens from t=0, 4 is
    pre-loaded with every ticket, 5 joins cold at an arbitrary time. The senders 0 (S), 1 (T) and the joiner 2 (J, whose
    first transmission is a digest-signed generic message, so that S and T in turn have an unknown ticket pending) go through
    all their P2PCD states - certificate / digest, with and without inlineP2pcdRequest - while the monitors listen: every
    message that carries the certificate, or whose ticket the monitor knows, must be accepted and delivered there exactly as at
    a full station, whatever optional header fields it carries. J sends VAMs in every other schedule."""
    for q, phase in enumerate(phases):
        jk = "vam" if q % 2 else "cam"
        ev = [(t, 0, "cam", bytes([0, t // 250 % 256, 9])) for t in range(0, 3600, 250)]
        ev += [(t, 1, "cam", bytes([1, t // 250 % 256, 8])) for t in range(90, 3600, 250)]
        join = 1000 + phase
        ev += [(join + 20, 2, "generic", b"\x21\x22")]
        ev += [(t, 2, jk, bytes([2, (t - join) // 400 % 256])) for t in range(join + 310, 3600, 400)]
        ev += [(join + 1300, 0, "denm", b"\x0d\x0e"), (join + 1400, 2, "generic", b"\x0a"), (join + 1500, 1, "vam", b"\x0b\x0c")]
        late = join + 700 + (phase * 7) % 400
        run_schedule(ctx, 6, {0: [1], 1: [0], 4: [0, 1, 2]}, {0: 0, 1: 0, 2: join, 3: 0, 4: 0, 5: late}, ev,
                     f"listen_only_receivers/phase{phase}/{jk}", opts={"listen_only": [3, 4, 5]})


POSITIONS = [(0, 0), (-337000000, -705000000), (-1, -1), (600000000, 1790000000), (-800000000, 1799999999),
             (1, -1800000000), (899999990, 1799999990)]
BIG_PSIDS = [0, 127, 128, 16383, 16384, 2097151, 2097152, 2 ** 31 - 1]


def positions_psids_ssp(ctx, positions, psid_sets):
    """'all ITS-AIDs covered by the ticket, all generation positions': stations on the southern / western hemisphere, on the
    equator / prime meridian and near the limits of the coordinate range (generationLocation of DENMs); tickets that carry
    service specific permissions; tickets covering other ITS-AID sets, including ITS-AIDs whose encoding takes 1, 2, 3 and 4
    octets (generic profile)"""
    for k, pos in enumerate(positions):
        extra = psid_sets[k % len(psid_sets)]
        apps = {0: U + extra, 1: [36, 37] + extra[:1], 2: U}
        ev = [(t, 0, "cam", bytes([0, t // 400 % 256, 3])) for t in range(0, 2600, 400)]
        ev += [(t, 1, "cam", bytes([1, t // 500 % 256])) for t in range(130, 2600, 500)]
        ev += [(t, 2, "vam", bytes([2, t // 700 % 256])) for t in range(260, 2600, 700)]
        ev += [(900, 0, "denm", b"\x01\x02"), (1500, 1, "denm", b"\x03"), (1900, 2, "denm", b"\x04")]
        for q, p in enumerate(extra):
            ev.append((1000 + 110 * q, 0, f"generic:{p}", bytes([q, 7])))
        ev.append((2100, 1, f"generic:{extra[0]}", b"\x09"))
        run_schedule(ctx, 3, {2: [0]}, {0: 0, 1: 0, 2: 0}, ev, f"positions_psids/{pos}/{extra}",
                     opts={"pos": pos, "apps": apps, "ssp": k % 2 == 0, "aa_of": {0: 2, 1: 2, 2: 2}, "more_psids": BIG_PSIDS})


def denm_from_outside(ctx, offsets):
    """the DENM originator stands outside the destination area (non-area forwarding branch of the GeoBroadcast source
    operations: the secured payload is handed to the next hop), the receivers inside it"""
    for k, (dlat, dlon) in enumerate(offsets):
        pos = POSITIONS[k % 3]
        ev = [(t, 1, "cam", bytes([1, t // 300 % 256])) for t in range(0, 3000, 300)]
        ev += [(t, 2, "cam", bytes([2, t // 400 % 256])) for t in range(110, 3000, 400)]
        ev += [(t, 0, "cam", bytes([0, t // 500 % 256])) for t in range(220, 3000, 500)]
        ev += [(900, 0, "denm", b"\x11\x12"), (1700, 0, "denm", b"\x13"), (2500, 0, "denm", b"\x14\x15\x16")]
        run_schedule(ctx, 3, {}, {0: 0, 1: 0, 2: 0}, ev, f"denm_from_outside/{pos}/{(dlat, dlon)}",
                     opts={"pos": pos, "pos_of": {0: (pos[0] + dlat, pos[1] + dlon)}})


def validity_start(ctx):
    """a ticket whose validity period starts exactly at the generation time of the station's first message (and one
    millisecond before it): honest from its first microsecond"""
    for off in (0, 1):
        ev = [(2000 + off + t, 0, "cam", bytes([0, t // 250 % 256])) for t in range(0, 2500, 250)]
        ev += [(2000 + off, 0, "generic", b"\x01"), (2000 + off, 0, "denm", b"\x02"), (2000 + off, 0, "vam", b"\x03")]
        ev += [(t, 1, "cam", bytes([1, t // 500 % 256])) for t in range(150, 4500, 500)]
        run_schedule(ctx, 3, {2: [0]}, {0: 2000, 1: 0, 2: 0}, ev, f"validity_start/+{off}ms", ticket_specs={0: ("start_at", 2000)})


def run(ctx):
    ctx.rule = ("N real stations (Router with security enabled + SignService + VerifyService, common root and AA, own tickets "
                "covering ITS-AIDs 36, 37, 638, 139) on a virtual clock; schedules of CAM / VAM / DENM / generic messages with "
                "seeded inter-message times (100 ms .. 1100 ms, including 999 / 1000 / 1001 ms), stations joining at seeded "
                "times, receivers knowing only root and AA or pre-loaded with peer tickets, receivers that are full stations or "
                "configured without a sign service (listen-only monitors: cold, pre-loaded, joining late). Every emitted packet is decoded "
                "with the harness' own OER coder: the clause 7.1 profile oracle (signer choice against the 1 s rule / pending "
                "request, header fields, inlineP2pcdRequest contents, generationTime, payload) and the acceptance oracle "
                "(accepted at once when it carries the certificate or the ticket is known, else after the request exchange) "
                "are applied; the same schedule is run on the extracted model (every signature verifies) and the emitted "
                "message, every receiver's SN-VERIFY.confirm and all stations' stores and P2PCD state are compared after each "
                "message. Non-trivial = a message accepted by a receiver, or a digest-signed message of an unknown ticket; "
                "distinct by (kind, signer, payload, receiver)")
    sc.coder()
    quick = ctx.tier == "quick"
    for f in sorted(_corpus()):
        rec = json.load(open(f))
        run_schedule(ctx, rec["n"], {int(k): v for k, v in rec["preload"].items()}, {int(k): v for k, v in rec["joins"].items()},
                     [(t, i, kind, bytes.fromhex(d)) for t, i, kind, d in rec["events"]], "corpus/" + rec.get("name", ""))
    phases = [0, 1, 249, 250, 251, 600, 749, 750, 751, 999, 1000, 1001, 1249] if quick else list(range(0, 1300, 25)) + [999, 1001]
    late_joiner_sweep(ctx, phases, [{}, {1: [0]}] if quick else [{}, {1: [0]}, {0: [1]}, {0: [1], 1: [0]}])
    two_senders_joiner(ctx, [0, 130, 260] if quick else list(range(0, 1000, 50)))
    validity_sweep(ctx, VALIDITY_SPECS if not quick else [VALIDITY_SPECS[i] for i in (0, 2, 3, 5, 7, 9)],
                   [3600 + 20, 20] if quick else [5 * 3600, 3600 + 20, 61, 20])
    # audit round
    multi_requester(ctx, [ctx.rng.choice([0, 60, 130])] if quick else list(range(0, 1000, 70)), ["JK", "KJ"])
    two_authorities(ctx, [0, 170] if quick else list(range(0, 1200, 100)))
    lo_phases = [0, 250, 600, 999, 1001, 1249]
    listen_only_receivers(ctx, [ctx.rng.choice(lo_phases), ctx.rng.choice(lo_phases) + 13] if quick
                          else lo_phases + list(range(40, 1300, 180)))
    pp = [BIG_PSIDS[:3], BIG_PSIDS[3:6], BIG_PSIDS[6:]]
    positions_psids_ssp(ctx, POSITIONS[:3] if quick else POSITIONS, pp)
    validity_start(ctx)
    denm_from_outside(ctx, [(100000, 0)] if quick else [(100000, 0), (0, -150000), (-20000, 20000), (3000, 0)])
    for k in range(5 if quick else 60):
        random_schedule(ctx, k)
    ctx.exhaustive = False


def _corpus():
    import glob
    import os
    return glob.glob(os.path.join(common.VERIF, "corpus", "C05", "*.json"))


def replay(ctx, data):
    """the schedule is regenerated from the recorded seed and tier (keys, certificates and times are seed-derived)"""
    common.use_repo_sources()
    f = data.get("failure") or (data.get("broken") or [{}])[-1].get("first")
    print(json.dumps(f, default=str)[:1500])
    ctx.rng.seed(data.get("seed", ctx.seed))
    ctx.tier = data.get("tier", "quick")
    ctx.model = common.Model(MODEL_NAME)
    run(ctx)
    want = f.get("class") or f.get("relation")
    hits = [r for r in ctx.failures + list(ctx.known_hits.values()) if r.get("class") == want] + \
           [r for r in ctx.mismatches if r.get("relation") == want]
    print("REPRODUCED" if hits else "NOT REPRODUCED")
    for r in hits[:2]:
        print(json.dumps(r, default=str)[:1500])
    return 1 if hits else 0
