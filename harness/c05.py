"""C05 - honestly signed messages are accepted by every station sharing the trust root; signing profiles."""
from __future__ import annotations

import contextlib
import io
import json
from fractions import Fraction

from . import common
from . import sec_common as sc
from .stack import VCLOCK, CaptureLL, make_router
from .c03 import requests

PROP = "C05"
COQ_TARGETS = ["Properties/C05", "Extract/ExC05"]
MODEL_ML = "c05_model.ml"
MODEL_NAME = "c05"
TRUSTED_BASE = [
    "Coq 8.16.1 kernel (coqc); vm_compute only in the Examples; no native_compute",
    "extraction (ExtrOcamlBasic only) + ocaml/driver_body.ml + OCaml 4.13.1",
    "hand-written model coq/theories/Model/Sec.v (sign_cam / sign_denm / sign_other, verify_msg, net_step), tied to N real "
    "stations (Router + SignService + VerifyService + CertificateLibrary, real P-256 backend) by differential execution",
    "completeness of ECDSA (a signature made with a key verifies under it) is the hypothesis of the acceptance theorems; "
    "the extracted model is run with the oracle 'every signature verifies' and compared with the real ECDSA on honest traffic",
    "asn1tools OER codec, ecdsa, hashlib (third party, not modelled); Python harness harness/c05.py, sec_common.py, stack.py",
]
ASSUMPTIONS = [
    "the model is tied to the code by execution on the same multi-station schedules, not by proof",
    "'within two further message exchanges' is read as: after the receiver's next CAM (carrying the request) has reached the "
    "sender, the sender's next CAM carries the certificate and is accepted",
    "TimeService.time() values are doubles that are integer multiples of 2^-22 s on the virtual clock; the subtraction "
    "current - last of two such values within a factor of two is exact, so the model's integer tick arithmetic is exact",
    "besides the two reasons named in the property (more than 1 s since the last inclusion, a peer asked), the code and TS 103 "
    "097 clause 7.1.1 include the certificate in the next CAM after a message of a previously unknown ticket was seen; the "
    "oracle allows (does not require) that third reason",
]
EXPLANATION = ("theorems under the completeness hypothesis of the signature oracle: sign-then-verify for the CAM/VAM, DENM and "
               "generic profiles at every receiver that knows the ticket or can chain the carried certificate, the clause "
               "7.1.1 signer rule, the header fields of each profile, and the two-station late-joiner protocol for every "
               "state of the sender's inclusion timer; correspondence on seeded schedules of N real stations")

U = [36, 37, 638, 139]
KIND_PSID = {"cam": 36, "vam": 638, "generic": 139, "denm": 37}


class Sta:
    pass


class Scenario:
    """N real stations on one PKI; the oracle's own bookkeeping of who knows whom"""

    def __init__(self, ctx, n, preload, ticket_specs=None):
        from .c03 import Net
        self.ctx = ctx
        self.net = Net(ctx.rng)
        self.reg = sc.Reg()
        self.sta = []
        self.model_ops = []        # (station, flat op, receivers)
        self.impl = []             # per op: (sender result, receiver results, dumps)
        tickets = [self.net.ticket() for _ in range(n)]
        for i, spec in (ticket_specs or {}).items():
            # spec = (duration unit, amount, seconds of validity left at the start of the schedule)
            unit, amount, left_s = spec
            from .c03 import its_now_s
            end_s = its_now_s() + left_s
            start_s = end_s - (amount * sc.UNIT_US[unit]) // 1_000_000
            tickets[i] = self.net.cert(self.net.aa, U, None, None, start_s + 1000, (unit, amount))
        for i in range(n):
            known = [tickets[k] for k in preload.get(i, [])]
            r = self.net.station(0x0A0B0C0D2000 + i, own=tickets[i], known=known, reg=self.reg)
            s = Sta()
            s.i, s.r, s.own, s.joined = i, r, tickets[i], False
            s.h8 = sc.hashed_id8(tickets[i][0])
            s.confirms = []
            orig = r["st"].verify.verify

            def wrapped(req, orig=orig, s=s):
                c = orig(req)
                s.confirms.append(c)
                return c
            r["st"].verify.verify = wrapped
            self.sta.append(s)
            for op in r["setup"]:
                self.model_ops.append((i, op, []))
                self.impl.append(None)
        # oracle state
        self.known = [[(k in preload.get(j, [])) or k == j for k in range(n)] for j in range(n)]
        self.last_cert = [None] * n          # float time of the last certificate inclusion
        self.asked = [False] * n
        self.saw_unknown = [False] * n
        self.wanted = [[] for _ in range(n)]  # HashedId3 of tickets seen but not known, in order of first sighting
        self.pending = [[None] * n for _ in range(n)]   # [receiver][sender]: None | "rejected" | "requested"

    def dumps(self):
        return [s.r["st"].dump() for s in self.sta]


def feed(s: Sta, frame: bytes):
    n_c, n_g = len(s.confirms), len(s.r["got"])
    exc = None
    with contextlib.redirect_stdout(io.StringIO()):
        try:
            s.r["router"].gn_data_indicate(frame)
        except Exception as e:  # noqa: BLE001
            exc = type(e).__name__
    confirms = s.confirms[n_c:]
    return confirms[0] if confirms else None, s.r["got"][n_g:], exc


def send(ctx, sc_: Scenario, i: int, kind: str, data: bytes, t_ms: int, tag: str):
    """station i emits one message at virtual time t_ms; every joined station receives it"""
    reg = sc_.reg
    s = sc_.sta[i]
    VCLOCK.set_ms(t_ms)
    now_f = VCLOCK.time()
    inp = {"scenario": tag, "t_ms": t_ms, "sender": i, "kind": kind, "data": data.hex()}
    s.r["ll"].sent.clear()
    with contextlib.redirect_stdout(io.StringIO()):
        try:
            s.r["router"].gn_data_request(requests()[kind](data))
            err = None
        except Exception as e:  # noqa: BLE001
            err = type(e).__name__
    rcv = [j for j, x in enumerate(sc_.sta) if x.joined and j != i]
    ctx.count(1, f"send:{kind}")
    if err is not None or len(s.r["ll"].sent) != 1:
        ctx.property_failure("honest_sign_failed", inp, f"signing an honest {kind} failed: {err}, {len(s.r['ll'].sent)} packets")
        return
    frame = s.r["ll"].sent[0]
    d = sc.dec_data(frame[4:])
    sd = d["content"][1]
    hi = sd["tbsData"]["headerInfo"]
    plain = sd["tbsData"]["payload"]["data"]["content"][1]
    signer = sd["signer"][0]
    # ---- profile oracle (TS 103 097 clause 7.1), independent of the model --------------------------
    psid = KIND_PSID[kind]
    fields = set(hi.keys())
    if hi.get("psid") != psid:
        ctx.property_failure("profile_psid", inp, "headerInfo.psid differs from the ITS-AID of the request", psid, hi.get("psid"))
    if "generationTime" not in hi or abs(hi["generationTime"] - sc.gen_time_us(t_ms)) > 1000:
        ctx.property_failure("profile_generation_time", inp, "generationTime absent or off the clock", sc.gen_time_us(t_ms),
                             hi.get("generationTime"))
    if not plain.endswith(data):
        ctx.property_failure("profile_payload", inp, "signed payload does not end with the upper-layer data")
    if kind in ("cam", "vam"):
        allowed = {"psid", "generationTime", "inlineP2pcdRequest", "requestedCertificate"}
        if fields - allowed:
            ctx.property_failure("profile_forbidden_field", inp, "CAM/VAM carries a forbidden header field", sorted(allowed),
                                 sorted(fields))
        lc = sc_.last_cert[i]
        due = lc is None or (Fraction(now_f) - Fraction(lc) > 1)
        must = due or sc_.asked[i]
        may = must or sc_.saw_unknown[i]
        why = {"ms_since_last_inclusion": None if lc is None else float((Fraction(now_f) - Fraction(lc)) * 1000),
               "asked": sc_.asked[i], "saw_unknown": sc_.saw_unknown[i]}
        if must and signer != "certificate":
            ctx.property_failure("cam_cert_missing", inp, "CAM/VAM signed with the digest although the certificate is due", why, signer)
        if signer == "certificate" and not may:
            ctx.property_failure("cam_cert_unjustified", inp, "CAM/VAM carries the certificate although it was included less than "
                                 "1 s ago and nobody asked for it (digest expected)", why, signer)
        want = list(sc_.wanted[i])
        got_req = [bytes(h) for h in hi.get("inlineP2pcdRequest", [])]
        if got_req != want:
            cls = "p2pcd_request_for_known_ticket" if set(got_req) - set(want) else "p2pcd_request_missing"
            ctx.property_failure(cls, inp, "inlineP2pcdRequest differs from the tickets seen and not yet known",
                                 [h.hex() for h in want], [h.hex() for h in got_req])
    elif kind == "denm":
        if signer != "certificate":
            ctx.property_failure("denm_signer", inp, "DENM not signed with the certificate", "certificate", signer)
        if fields != {"psid", "generationTime", "generationLocation"}:
            ctx.property_failure("profile_denm_fields", inp, "DENM header fields differ from psid, generationTime, "
                                 "generationLocation", None, sorted(fields))
    else:
        if not {"psid", "generationTime"} <= fields or fields & {"p2pcdLearningRequest", "missingCrlIdentifier"}:
            ctx.property_failure("profile_generic_fields", inp, "generic profile header fields", None, sorted(fields))
    if signer == "certificate":
        if sc.enc_cert(sd["signer"][1][0]) != sc.enc_cert(s.own[0]) or len(sd["signer"][1]) != 1:
            ctx.property_failure("signer_not_own_ticket", inp, "signer certificate is not the station's ticket")
        if kind in ("cam", "vam"):
            sc_.last_cert[i] = now_f
            sc_.asked[i] = False
            sc_.saw_unknown[i] = False
    elif bytes(sd["signer"][1]) != s.h8:
        ctx.property_failure("signer_not_own_ticket", inp, "signer digest is not the HashedId8 of the station's ticket")
    # ---- model operation ------------------------------------------------------------------------------
    pid = reg.payload_id(plain)
    gen = hi.get("generationTime", 0)
    if kind in ("cam", "vam"):
        op = [8, sc.ticks_of(now_f), psid, gen, pid]
    elif kind == "denm":
        op = [9, psid, gen, pid]
    else:
        op = [10, psid, gen, pid]
    m = reg.msg(frame[4:])
    impl_msg = ["msg", list(m["signer"]) if m["signer"][0] != "certs" else ["certs", list(m["signer"][1])], m["psid"], m["gen"],
                int(m["genloc"]), int(m["learn"]), int(m["crl"]), int(m["expiry"]), int(m["enckey"]), m["inline"],
                -1 if not m["reqcert"] else m["reqcert"], m["payload"]]
    # ---- delivery to every joined station; acceptance oracle ----------------------------------------
    results = []
    for j in rcv:
        r = sc_.sta[j]
        confirm, inds, exc = feed(r, frame)
        jinp = dict(inp, receiver=j)
        carries = signer == "certificate"
        expect_accept = carries or sc_.known[j][i]
        ok = confirm is not None and confirm.report.value == 0
        ctx.count(1, f"recv:{kind}:{'cert' if carries else 'digest'}:{'known' if sc_.known[j][i] else 'unknown'}")
        if confirm is None:
            results.append(["crash"])
        else:
            results.append(["verify", confirm.report.value, int.from_bytes(confirm.certificate_id, "big") if confirm.certificate_id else 0,
                            reg.payload_id(confirm.plain_message) if ok else 0])
        if expect_accept:
            if not ok:
                ctx.property_failure("honest_rejected", jinp, "honestly signed message rejected by a station sharing the trust "
                                     "root although it carries the certificate or the ticket is known", "SUCCESS",
                                     exc or (confirm.report.name if confirm else None))
            else:
                if bytes(confirm.plain_message) != bytes(plain):
                    ctx.property_failure("payload_changed", jinp, "plain message differs from what was signed")
                if not any(bytes(ind.data) == data for ind in inds):
                    ctx.property_failure("payload_not_delivered", jinp, "accepted message was not indicated with the sender's "
                                         "data unchanged", data.hex(), [bytes(x.data).hex() for x in inds])
                ctx.nontriv(("accept", kind, signer, plain.hex()[:40], j))
        if sc_.pending[j][i] == "requested" and kind in ("cam", "vam"):
            if not (ok and carries):
                ctx.property_failure("p2pcd_too_slow", jinp, "after the receiver's request reached the sender, the sender's next "
                                     "CAM is not accepted (two further exchanges)", "certificate + SUCCESS",
                                     [signer, confirm.report.name if confirm else exc])
            sc_.pending[j][i] = None
        # oracle bookkeeping at receiver j
        if ok:
            if carries:
                sc_.known[j][i] = True
                sc_.pending[j][i] = None
                if s.h8[-3:] in sc_.wanted[j]:
                    sc_.wanted[j].remove(s.h8[-3:])
            if "inlineP2pcdRequest" in hi and r.h8[-3:] in [bytes(h) for h in hi["inlineP2pcdRequest"]]:
                sc_.asked[j] = True
            if kind in ("cam", "vam") and sc_.pending[i][j] == "rejected":
                # j's message reached i earlier and was rejected; i's CAM (with the request) has now reached j
                sc_.pending[i][j] = "requested"
        elif not carries and not sc_.known[j][i]:
            sc_.saw_unknown[j] = True
            if s.h8[-3:] not in sc_.wanted[j]:
                sc_.wanted[j].append(s.h8[-3:])
            if sc_.pending[j][i] is None:
                sc_.pending[j][i] = "rejected"
            ctx.nontriv(("unknown", kind, j, i, t_ms))
    sc_.model_ops.append((i, op, rcv))
    sc_.impl.append((impl_msg, results, sc_.dumps(), inp))
    if len(ctx.samples) < 6:
        ctx.sample({"scenario": tag, "t_ms": t_ms, "sender": i, "kind": kind, "signer": signer, "header": sorted(fields),
                    "receivers": {j: (x[1] if x[0] == "verify" else "crash") for j, x in zip(rcv, results)}})


def compare_model(ctx, sc_: Scenario, tag):
    if ctx.model is None or not ctx.model.available:
        return
    reg = sc_.reg
    args = reg.header([], mode=1) + [len(sc_.sta), len(sc_.model_ops)]
    for i, op, rcv in sc_.model_ops:
        args += [i] + list(op) + [len(rcv)] + list(rcv)
    mod = sc.parse_net(ctx.model.call(2, args), len(sc_.sta))
    if len(mod) != len(sc_.impl):
        ctx.mismatch("schedule length", {"scenario": tag}, len(mod), len(sc_.impl))
        return
    for (mres, mrs, msts), rec in zip(mod, sc_.impl):
        if rec is None:
            continue
        impl_msg, results, dumps, inp = rec
        if mres[0] != "msg":
            ctx.mismatch("sign operation = Sec.step", inp, mres, impl_msg)
            return
        # the model's message: signer, header fields (certificate identities through cid)
        mm = list(mres)
        im = list(impl_msg)
        if mm != json.loads(json.dumps(im)):
            ctx.mismatch("emitted secured message (signer choice, header fields) = Sec.sign_*", inp, mm, im)
            return
        if mrs != results:
            ctx.mismatch("SN-VERIFY.confirm at the receivers = Sec.verify_msg", inp, mrs, results)
            return
        if msts != dumps:
            bad = [k for k, (a, b) in enumerate(zip(msts, dumps)) if a != b]
            ctx.mismatch("stores and P2PCD state of all stations after the message = Sec.net_step", dict(inp, stations=bad),
                         [msts[k] for k in bad], [dumps[k] for k in bad])
            return


# ---------------------------------------------------------------------------
# schedules

def run_schedule(ctx, n, preload, joins, events, tag, ticket_specs=None):
    """joins: {station: t_ms}; events: list of (t_ms, sender, kind, data) sorted by time"""
    VCLOCK.set_ms(1_700_000_000_000)
    sc_ = Scenario(ctx, n, preload, ticket_specs)
    t0 = VCLOCK.ms + 10_000
    for (t, i, kind, data) in sorted(events, key=lambda e: e[0]):
        for j, tj in joins.items():
            if tj <= t:
                sc_.sta[j].joined = True
        if not sc_.sta[i].joined:
            continue
        send(ctx, sc_, i, kind, data, t0 + t, tag)
    compare_model(ctx, sc_, tag)
    return sc_


def periodic(rng, i, start, end, kinds=("cam",), intervals=(100, 200, 300, 500, 999, 1000, 1001, 1100)):
    t = start
    ev = []
    k = 0
    while t < end:
        kind = rng.choice(kinds)
        ev.append((t, i, kind, bytes([i, k % 256]) + bytes(rng.randrange(256) for _ in range(rng.randrange(1, 20)))))
        t += rng.choice(intervals)
        k += 1
    return ev


def late_joiner_sweep(ctx, phases, preload_variants):
    """two stations; S sends CAMs every 250 ms from t=0; J joins `phase` ms after one of S's certificate inclusions and
    sends its own CAMs every 400 ms"""
    for phase in phases:
        for pre in preload_variants:
            ev = [(t, 0, "cam", bytes([0, t // 250 % 256, 1, 2])) for t in range(0, 6000, 250)]
            join = 2000 + phase
            ev += [(t, 1, "cam", bytes([1, (t - join) // 400 % 256, 3])) for t in range(join + 37, 6000, 400)]
            ev += [(join + 1500, 0, "denm", b"\x0d\x0e"), (join + 1700, 0, "generic", b"\x0a\x0b"),
                   (join + 1900, 1, "generic", b"\x0c")]
            run_schedule(ctx, 2, pre, {0: 0, 1: join}, ev, f"late_joiner/phase{phase}/preload{sorted(pre.items())}")


# Duration amounts are Uint16; a ticket of 65535 microseconds cannot cover a schedule, so that unit is left to C09
VALIDITY_SPECS = [("years", 1), ("years", 3), ("years", 19), ("sixtyHours", 2), ("sixtyHours", 700), ("hours", 5),
                  ("hours", 40000), ("minutes", 90), ("minutes", 60000), ("seconds", 5000), ("seconds", 65535),
                  ("milliseconds", 60000)]


def validity_sweep(ctx, specs, lefts):
    """honest messages generated in the last hour / minute / seconds of a ticket's validity period, for every Duration
    unit of IEEE 1609.2 (a year is 31556952 s): they must be accepted at once by a receiver that knows the ticket and by one
    that learns it from the message"""
    for (unit, amount) in specs:
        for left_s in lefts:
            if (left_s + 10) * 1_000_000 >= amount * sc.UNIT_US[unit]:
                continue        # the ticket would not be valid yet at the start of the schedule
            ev = [(t, 0, "cam", bytes([0, t // 300 % 256, 7])) for t in range(0, 3000, 300)]
            ev += [(1000, 0, "denm", b"\x01\x02"), (1400, 0, "generic", b"\x03"), (1700, 0, "vam", b"\x04\x05")]
            ev += [(t, 1, "cam", bytes([1, t // 500 % 256])) for t in range(150, 3000, 500)]
            run_schedule(ctx, 3, {2: [0]}, {0: 0, 1: 0, 2: 0}, ev, f"validity/{unit}{amount}/left{left_s}s",
                         ticket_specs={0: (unit, amount, left_s)})


def two_senders_joiner(ctx, phases):
    """stations 0 and 1 exchange CAMs from t=0; station 2 joins knowing only root and AA, hears digest-signed CAMs of BOTH
    before its own first CAM, so that its request lists two tickets: each of the two must answer with its certificate"""
    for phase in phases:
        ev = [(t, 0, "cam", bytes([0, t // 200 % 256, 9])) for t in range(0, 5000, 200)]
        ev += [(t, 1, "cam", bytes([1, t // 200 % 256, 8])) for t in range(70, 5000, 200)]
        join = 1500 + phase
        ev += [(t, 2, "cam", bytes([2, (t - join) // 450 % 256])) for t in range(join + 310, 5000, 450)]
        ev += [(join + 2000, 1, "denm", b"\x0d"), (join + 2100, 2, "generic", b"\x0e")]
        run_schedule(ctx, 3, {0: [1], 1: [0]}, {0: 0, 1: 0, 2: join}, ev, f"two_senders_joiner/phase{phase}")


def random_schedule(ctx, k):
    rng = ctx.rng
    n = rng.choice([2, 3, 3, 4, 5])
    preload = {}
    for j in range(n):
        if rng.random() < 0.35:
            preload[j] = sorted(rng.sample([x for x in range(n) if x != j], rng.randrange(1, n)))
    joins = {0: 0}
    for j in range(1, n):
        joins[j] = rng.choice([0, rng.randrange(0, 4000), rng.randrange(0, 4000)])
    end = rng.choice([5000, 7000])
    ev = []
    for j in range(n):
        kinds = rng.choice([("cam",), ("cam", "cam", "cam", "vam"), ("cam", "cam", "generic", "denm"), ("vam",)])
        ev += periodic(rng, j, joins[j] + rng.randrange(0, 300), end, kinds)
        for _ in range(rng.randrange(0, 3)):
            ev.append((rng.randrange(joins[j], end), j, rng.choice(["denm", "generic"]), bytes(rng.randrange(256) for _ in range(5))))
    run_schedule(ctx, n, preload, joins, ev, f"random/{k}")


def run(ctx):
    ctx.rule = ("N real stations (Router with security enabled + SignService + VerifyService, common root and AA, own tickets "
                "covering ITS-AIDs 36, 37, 638, 139) on a virtual clock; schedules of CAM / VAM / DENM / generic messages with "
                "seeded inter-message times (100 ms .. 1100 ms, including 999 / 1000 / 1001 ms), stations joining at seeded "
                "times, receivers knowing only root and AA or pre-loaded with peer tickets. Every emitted packet is decoded "
                "with the harness' own OER coder: the clause 7.1 profile oracle (signer choice against the 1 s rule / pending "
                "request, header fields, inlineP2pcdRequest contents, generationTime, payload) and the acceptance oracle "
                "(accepted at once when it carries the certificate or the ticket is known, else after the request exchange) "
                "are applied; the same schedule is run on the extracted model (every signature verifies) and the emitted "
                "message, every receiver's SN-VERIFY.confirm and all stations' stores and P2PCD state are compared after each "
                "message. Non-trivial = a message accepted by a receiver, or a digest-signed message of an unknown ticket; "
                "distinct by (kind, signer, payload, receiver)")
    sc.coder()
    quick = ctx.tier == "quick"
    for f in sorted(_corpus()):
        rec = json.load(open(f))
        run_schedule(ctx, rec["n"], {int(k): v for k, v in rec["preload"].items()}, {int(k): v for k, v in rec["joins"].items()},
                     [(t, i, kind, bytes.fromhex(d)) for t, i, kind, d in rec["events"]], "corpus/" + rec.get("name", ""))
    phases = [0, 1, 249, 250, 251, 600, 749, 750, 751, 999, 1000, 1001, 1249] if quick else list(range(0, 1300, 25)) + [999, 1001]
    late_joiner_sweep(ctx, phases, [{}, {1: [0]}] if quick else [{}, {1: [0]}, {0: [1]}, {0: [1], 1: [0]}])
    two_senders_joiner(ctx, [0, 130, 260] if quick else list(range(0, 1000, 50)))
    validity_sweep(ctx, VALIDITY_SPECS if not quick else [VALIDITY_SPECS[i] for i in (0, 2, 3, 5, 7, 9)],
                   [3600 + 20, 20] if quick else [5 * 3600, 3600 + 20, 61, 20])
    for k in range(5 if quick else 60):
        random_schedule(ctx, k)
    ctx.exhaustive = False


def _corpus():
    import glob
    import os
    return glob.glob(os.path.join(common.VERIF, "corpus", "C05", "*.json"))


def replay(ctx, data):
    """the schedule is regenerated from the recorded seed and tier (keys, certificates and times are seed-derived)"""
    common.use_repo_sources()
    f = data.get("failure") or (data.get("broken") or [{}])[-1].get("first")
    print(json.dumps(f, default=str)[:1500])
    ctx.rng.seed(data.get("seed", ctx.seed))
    ctx.tier = data.get("tier", "quick")
    ctx.model = common.Model(MODEL_NAME)
    run(ctx)
    want = f.get("class") or f.get("relation")
    hits = [r for r in ctx.failures + list(ctx.known_hits.values()) if r.get("class") == want] + \
           [r for r in ctx.mismatches if r.get("relation") == want]
    print("REPRODUCED" if hits else "NOT REPRODUCED")
    for r in hits[:2]:
        print(json.dumps(r, default=str)[:1500])
    return 1 if hits else 0
