"""C19 - DCC algorithms respect TS 102 687 state, rate and duty-cycle limits.

Implementation side: flexstack.management.dcc_reactive.DccReactive and
flexstack.management.dcc_adaptive.{DccAdaptive, DccAdaptiveParameters, GateKeeper}.
None of them reads a clock: time is an explicit argument, so "virtual time" is simply the
sequence of time stamps generated here (no patching needed, nothing sleeps).

Three layers per case (see AGENT_BRIEF.md):
  * property oracle, written here from the property text / the standard, on the
    implementation's own observations, in exact rational arithmetic (fractions.Fraction);
  * correspondence with the extracted Coq model (Model/Dcc.v), which receives the exact rational
    (numerator, denominator) of every double handed to the implementation;
  * for the float-computing parts (adaptive, gate) the comparison uses a tolerance and leaves out
    decisions that fall inside a narrow band around a comparison threshold (float rounding is not
    modelled).
"""
from __future__ import annotations

import glob
import json
import math
import os
from fractions import Fraction as F

from . import common

PROP = "C19"
COQ_TARGETS = ["Properties/C19", "Extract/ExC19"]
MODEL_ML = "c19_model.ml"
MODEL_NAME = "c19"
GENS = ["gen_c19"]
TRUSTED_BASE = [
    "Coq 8.16.1 kernel (coqc); vm_compute for table / constant equalities and the refutation witnesses; lra (Lqa) "
    "and lia proofs are checked by the kernel; no native_compute",
    "extraction (ExtrOcamlBasic only; Z/positive/Q stay Coq datatypes) + ocaml/driver_body.ml + OCaml 4.13.1",
    "tools/gen_c19.py (reads the Annex A tables, Table 3 defaults and gate constants of the working tree as exact "
    "rationals; fails closed)",
    "hand-written model coq/theories/Model/Dcc.v, tied to the code by differential execution (this harness); "
    "hand-written specification coq/theories/Model/DccSpec.v (Annex A, clause 5.4, Annex B as documented in the "
    "repository; the text of TS 102 687 itself was not available offline)",
    "Python harness harness/c19.py (generators, exact-rational oracle, tolerance bands)",
]
ASSUMPTIONS = [
    "the model is tied to DccReactive / DccAdaptive / GateKeeper by execution on the same inputs, not by proof",
    "reactive machine: doubles are only compared, the model over Q is exact and is compared exactly",
    "adaptive algorithm and gate keeper compute with doubles; the model computes the same expressions over Q "
    "without rounding: float rounding is NOT modelled. Implementation and model are compared with a relative "
    "tolerance of 1e-9 on the operand magnitudes (adaptive) and an absolute tolerance of 1e-12 s on gate times "
    "below 64 s (64 ulp for epoch-sized time stamps); decisions within that band of a comparison threshold are "
    "excluded from the verdict",
    "NaN / infinite inputs are outside the Q model; the harness only checks on the implementation that such CBR "
    "values are rejected",
    "GateKeeper is constructed with delta > 0 (the constructor does not validate; delta = 0 raises "
    "ZeroDivisionError in admit_packet); update_delta only stores positive values",
    "only cbr_local / cbr_local_previous are range checked by DccAdaptive.update (the property asks for the local "
    "values); the optional global values are generated within [0,1]",
]
EXPLANATION = ("theorems for all inputs / sequences: reactive adjacency, convergence within four evaluations to the "
               "Annex A band, outputs of the state, tables = Annex A; adaptive formula = clause 5.4 equations, delta "
               "within [delta_min, delta_max], rejection of out-of-range local CBR; gate keeper B.1/B.2 opening "
               "times up to the 1 ns early opening of the code (full statement refuted: known finding), one packet "
               "per opening, closed at most 1 s, spacing >= 25 ms - epsilon. Correspondence: exhaustive over "
               "boundary representatives x both tables x all start states for the reactive machine, seeded "
               "sequences for all three classes")

# ----------------------------------------------------------------------------------------------
# constants of the standard as the oracle reads them (hand-written, independent of code and model)
# ----------------------------------------------------------------------------------------------
ANNEX = {
    1: {"lows": [0.0, 0.30, 0.40, 0.50, 0.60], "rate": [10.0, 5.0, 2.5, 2.0, 1.0],
        "toff": [100.0, 200.0, 400.0, 500.0, 1000.0]},
    2: {"lows": [0.0, 0.30, 0.40, 0.50, 0.65], "rate": [20.0, 10.0, 5.0, 4.0, 1.0],
        "toff": [50.0, 100.0, 200.0, 250.0, 1000.0]},
}
MS25 = F(1, 40)
ONE_S = F(1)
NS1 = F(1, 10 ** 9)          # the early opening recorded as a finding is at most 1 ns
KF_CLASS = "gate_opens_le_1ns_early"
INF = float("inf")


def table_id(t_on):
    return 2 if (t_on is not None and t_on <= 500) else 1


def band(tid, cbr):
    """index of the Annex A band containing cbr (lower bounds inclusive, as doubles)"""
    return max(i for i, lo in enumerate(ANNEX[tid]["lows"]) if lo <= cbr)


def q(x):
    """exact rational of a finite double as [num, den]"""
    n, d = float(x).as_integer_ratio()
    return [n, d]


def finite(x):
    return isinstance(x, (int, float)) and math.isfinite(x)


def in01(x):
    return finite(x) and 0.0 <= x <= 1.0


def model_num(x):
    """the model cannot take NaN / inf: they are replaced by out-of-range rationals on the same side"""
    if finite(x):
        return float(x)
    return 2.0 if x == INF else -1.0


def tau(t):
    """absolute tolerance on a gate time / width of the excluded band around a threshold"""
    return F(1, 10 ** 12) if abs(t) < 64 else F(64 * math.ulp(t))


class Batch:
    """collects model requests with the comparison to run on each answer"""

    def __init__(self, ctx):
        self.ctx = ctx
        self.reqs = []
        self.fns = []

    def add(self, cmd, args, fn):
        if self.ctx.model is None or not self.ctx.model.available:
            return
        self.reqs.append((cmd, args))
        self.fns.append(fn)
        if len(self.reqs) >= 20000:
            self.flush()

    def flush(self):
        if not self.reqs:
            return
        res = self.ctx.model.batch(self.reqs)
        for fn, r in zip(self.fns, res):
            fn(r)
        self.reqs, self.fns = [], []


# ----------------------------------------------------------------------------------------------
# reactive machine
# ----------------------------------------------------------------------------------------------
def check_reactive(ctx, batch, inp):
    """inp = {"op": "reactive", "t_on": int|None, "start": 0..4, "cbrs": [floats]}"""
    from flexstack.management.dcc_reactive import DccReactive, DccState
    t_on, start, cbrs = inp["t_on"], inp["start"], inp["cbrs"]
    tid = table_id(t_on)
    try:
        dcc = DccReactive() if t_on is None else DccReactive(t_on_max_us=t_on)
    except Exception as e:  # noqa: BLE001 - not a clause of the property: a broken tie (the model constructs for every number)
        ctx.mismatch("DccReactive(t_on_max_us) constructs", inp, "constructed", f"{type(e).__name__}: {e}")
        return []
    if start != 0:
        dcc.state = DccState(start)
    elif dcc.state.value != 0:
        # not demanded by the property text: a broken tie to the model (whose runs start in RELAXED), not a violation
        ctx.mismatch("DccReactive() initial state = RELAXED", inp, 0, dcc.state.value)
    obs = []
    cur = start
    streak_band, streak = None, 0
    for k, c in enumerate(cbrs):
        try:
            o = dcc.update(c)
            rec = (0, o.state.value, o.packet_rate_hz, o.t_off_ms)
            if dcc.state is not o.state:
                ctx.property_failure("reactive_outputs", inp, f"step {k}: reported state differs from the stored state",
                                     dcc.state.value, o.state.value)
        except ValueError:
            rec = (1, dcc.state.value, None, None)
        obs.append(rec)
        st, new = rec[0], rec[1]
        ok = in01(c)
        # --- oracle
        if ok and st != 0:
            ctx.property_failure("reactive_rejects_valid_cbr", inp, f"step {k}: CBR {c!r} within [0,1] rejected",
                                 "accepted", "ValueError")
        # values outside [0,1] are outside the property's quantifier for the reactive machine: their rejection is
        # checked against the model only (correspondence), see cmp below
        if abs(new - cur) > 1:
            ctx.property_failure("reactive_adjacency", inp, f"step {k}: state moved from {cur} to {new}", "<= 1 step",
                                 new - cur)
        if st == 0:
            want = (ANNEX[tid]["rate"][new], ANNEX[tid]["toff"][new]) if 0 <= new <= 4 else None
            if want is None or (rec[2], rec[3]) != want:
                ctx.property_failure("reactive_outputs", inp, f"step {k}: outputs are not the Annex A row of state {new}",
                                     want, [rec[2], rec[3]])
            if ok:
                b = band(tid, c)
                streak = streak + 1 if b == streak_band else 1
                streak_band = b
                if streak >= 4 and new != b:
                    ctx.property_failure("reactive_convergence", inp,
                                         f"step {k}: {streak} evaluations within band {b} but state is {new}", b, new)
                # monotone approach: never moves away from the band
                if abs(new - b) > max(abs(cur - b) - 1, 0):
                    ctx.property_failure("reactive_convergence", inp,
                                         f"step {k}: state {cur} -> {new} does not approach band {b}", b, new)
                ctx.nontriv(("r", tid, cur, c))
        cur = new
    ctx.count(len(cbrs), inp.get("kind") or "reactive_step_A%d" % tid)

    def cmp(res, obs=obs, inp=inp):
        want = []
        for st, new, rate, toff in obs:
            if st == 0:
                want += [0, new] + q(rate) + q(toff)
            else:
                want += [1, new, 0, 1, 0, 1]
        if res != want:
            ctx.mismatch("DccReactive.update = Dcc.reactive_run", inp, res, want)

    # the model takes an integer: x <= 500 <=> ceil(x) <= 500 for every real x (infinities -> far on the same side)
    if t_on is None:
        m_ton = 1000
    elif isinstance(t_on, float):
        m_ton = (10 ** 9 if t_on > 0 else -10 ** 9) if math.isinf(t_on) else math.ceil(t_on)
    else:
        m_ton = int(t_on)
    args = [m_ton, start]
    for c in cbrs:
        args += q(model_num(c))
    batch.add(1, args, cmp)
    return obs


def reactive_reps():
    """boundary representatives: the doubles just below / at / just above every threshold of either
    table and of the range [0,1], plus interior points of every band; then values outside [0,1]"""
    inside, outside = set(), set()
    for thr in (0.0, 0.30, 0.40, 0.50, 0.60, 0.65, 1.0):
        for v in (math.nextafter(thr, -INF), thr, math.nextafter(thr, INF),
                  math.nextafter(math.nextafter(thr, -INF), -INF), math.nextafter(math.nextafter(thr, INF), INF)):
            (inside if 0.0 <= v <= 1.0 else outside).add(v)
    for v in (5e-324, 1e-300, 0.1, 0.15, 0.29, 0.31, 0.35, 0.39, 0.41, 0.45, 0.49, 0.51, 0.55, 0.59, 0.61, 0.62,
              0.625, 0.64, 0.66, 0.7, 0.8, 0.99, 0.3 + 1e-9, 0.3 - 1e-9, 0.6 - 1e-12, 0.65 + 1e-12):
        inside.add(v)
    inside.add(-0.0)
    for v in (-1.0, -1e-300, 1.01, 1.0000001, 2.0, 1e300, -1e300):
        outside.add(v)
    return sorted(inside), sorted(outside)


NONFINITE = [float("nan"), INF, -INF]
TON_CHOICES = [None, 1000, 501, 500, 499, 0, 10 ** 6, -1]


def reactive_sweeps(ctx, batch):
    inside, outside = reactive_reps()
    reps = inside + outside
    # (R1) every representative x every table choice x every start state: single evaluation
    for t_on in TON_CHOICES:
        for start in range(5):
            for c in reps + NONFINITE:
                check_reactive(ctx, batch, {"op": "reactive", "t_on": t_on, "start": start, "cbrs": [c]})
    # (R2) constant input, six evaluations, from every start state
    for t_on in (1000, 500):
        for start in range(5):
            for c in inside:
                check_reactive(ctx, batch, {"op": "reactive", "t_on": t_on, "start": start, "cbrs": [c] * 6})
    # (R3) two-phase inputs: four evaluations at a, then four at b (all ordered pairs)
    pairs = inside if ctx.tier == "thorough" else inside[::2] + [0.3, 0.6, 0.65]
    for t_on in (1000, 500):
        for a in pairs:
            for b in pairs:
                check_reactive(ctx, batch, {"op": "reactive", "t_on": t_on, "start": ctx.rng.randrange(5),
                                            "cbrs": [a] * 4 + [b] * 4})
    if ctx.tier == "thorough":
        # (R4) all triples of representatives, from all start states
        small = inside[::2]
        for t_on in (1000, 500):
            for start in range(5):
                for a in small:
                    for b in small:
                        for c in small:
                            check_reactive(ctx, batch, {"op": "reactive", "t_on": t_on, "start": start,
                                                        "cbrs": [a, b, c]})
    batch.flush()


def random_cbr(rng):
    r = rng.random()
    if r < 0.35:
        return rng.random()
    if r < 0.70:   # a few ulps around a threshold
        thr = rng.choice((0.0, 0.30, 0.40, 0.50, 0.60, 0.65, 1.0))
        v = thr
        for _ in range(rng.randrange(0, 4)):
            v = math.nextafter(v, rng.choice((-INF, INF)))
        return v
    if r < 0.90:   # slowly varying load
        return min(1.0, max(0.0, rng.gauss(0.5, 0.2)))
    if r < 0.97:
        return rng.choice((-1e-9, 1.0 + 1e-9, -0.5, 1.5, math.nextafter(1.0, 2.0), math.nextafter(0.0, -1.0)))
    return rng.choice(NONFINITE)


def reactive_random(ctx, batch, n):
    rng = ctx.rng
    for _ in range(n):
        length = rng.choice((1, 2, 5, 8, 20, 60))
        mode = rng.random()
        if mode < 0.5:
            cbrs = [random_cbr(rng) for _ in range(length)]
        else:   # random walk
            x = rng.random()
            cbrs = []
            for _ in range(length):
                x = min(1.0, max(0.0, x + rng.gauss(0, 0.08)))
                cbrs.append(x)
        check_reactive(ctx, batch, {"op": "reactive", "t_on": rng.choice(TON_CHOICES), "start": rng.randrange(5),
                                    "cbrs": cbrs})
    batch.flush()


# ----------------------------------------------------------------------------------------------
# adaptive algorithm
# ----------------------------------------------------------------------------------------------
PNAMES = ["alpha", "beta", "cbr_target", "delta_max", "delta_min", "delta_up_max", "delta_down_max"]


def spec_adaptive(p, c_prev, d_prev, cl, clp, g, gp):
    """clause 5.4 steps 1-5 in exact arithmetic; p = dict of Fractions. Returns (c, diff, offset, delta)."""
    if g is not None and gp is not None:
        a, b = F(g), F(gp)
    else:
        a, b = F(cl), F(clp)
    c = F(1, 2) * c_prev + F(1, 2) * ((a + b) / 2)                                   # (1)
    diff = p["cbr_target"] - c
    if diff > 0:
        off = min(p["beta"] * diff, p["delta_up_max"])                               # (2)
    else:
        off = max(p["beta"] * diff, p["delta_down_max"])                             # (3)
    d = (1 - p["alpha"]) * d_prev + off                                              # (4)
    if d > p["delta_max"]:
        d = p["delta_max"]                                                           # (5)
    if d < p["delta_min"]:
        d = p["delta_min"]                                                           # (6)
    return c, diff, off, d


def check_adaptive(ctx, batch, inp):
    """inp = {"op": "adaptive", "params": {name: float} | None, "steps": [[cl, clp, g|None, gp|None], ...],
              "stored": [cbr_its_s, delta] (optional: the two public attributes are set to a stored state first)}"""
    from flexstack.management.dcc_adaptive import DccAdaptive, DccAdaptiveParameters
    pf = inp["params"]
    if pf is None:
        alg = DccAdaptive()
        params = alg.parameters
    else:
        params = DccAdaptiveParameters(**pf)
        alg = DccAdaptive(parameters=params)
    pv = {n: getattr(params, n) for n in PNAMES}
    if pf is None:
        want = {"alpha": 0.016, "beta": 0.0012, "cbr_target": 0.68, "delta_max": 0.03, "delta_min": 0.0006,
                "delta_up_max": 0.0005, "delta_down_max": -0.00025}
        if pv != want:
            ctx.mismatch("DccAdaptiveParameters() defaults = Table 3", inp, want, pv)
    p = {n: F(v) for n, v in pv.items()}
    ordered = p["delta_min"] <= p["delta_max"]
    if ordered and not (pv["delta_min"] <= alg.delta <= pv["delta_max"]):
        ctx.property_failure("adaptive_delta_out_of_range", inp, "initial delta outside [delta_min, delta_max]",
                             [pv["delta_min"], pv["delta_max"]], alg.delta)
    if alg.delta != pv["delta_min"] or alg.cbr_its_s != 0.0:
        ctx.mismatch("DccAdaptive initial state = Dcc.adaptive_init", inp, [0.0, pv["delta_min"]],
                     [alg.cbr_its_s, alg.delta])
    if inp.get("stored") is not None:
        # the two attributes are public (documented under "Attributes"): a station that restores a saved state
        alg.cbr_its_s, alg.delta = float(inp["stored"][0]), float(inp["stored"][1])
    init = (alg.cbr_its_s, alg.delta)
    seq_args = []
    seq_obs = []
    exact_c, exact_d = F(alg.cbr_its_s), F(alg.delta)     # whole-sequence exact run (oracle side)
    seq_valid = True
    for k, (cl, clp, g, gp) in enumerate(inp["steps"]):
        c0, d0 = alg.cbr_its_s, alg.delta
        try:
            ret = alg.update(cl, clp, g, gp)
            acc = True
        except ValueError:
            ret = None
            acc = False
        c1, d1 = alg.cbr_its_s, alg.delta
        ok = in01(cl) and in01(clp)
        tag = f"step {k}"
        if ok != acc:
            ctx.property_failure("adaptive_range_check", inp,
                                 f"{tag}: local CBR ({cl!r}, {clp!r}) " + ("rejected" if ok else "accepted"),
                                 "accepted" if ok else "ValueError", "accepted" if acc else "ValueError")
        if not acc and (c1, d1) != (c0, d0):
            ctx.property_failure("adaptive_range_check", inp, f"{tag}: rejected call changed the state", [c0, d0],
                                 [c1, d1])
        step_args = q(model_num(cl)) + q(model_num(clp)) + ([1] + q(g) if g is not None else [0, 0, 1]) + \
            ([1] + q(gp) if gp is not None else [0, 0, 1])
        seq_args += step_args
        if acc and ok:
            if ret != d1:
                ctx.property_failure("adaptive_formula", inp, f"{tag}: returned value is not the stored delta", d1, ret)
            if ordered and not (pv["delta_min"] <= d1 <= pv["delta_max"]):
                ctx.property_failure("adaptive_delta_out_of_range", inp,
                                     f"{tag}: delta {d1!r} outside [{pv['delta_min']!r}, {pv['delta_max']!r}]",
                                     [pv["delta_min"], pv["delta_max"]], d1)
            # formula, from the implementation's own previous state
            ec, ediff, eoff, ed = spec_adaptive(p, F(c0), F(d0), cl, clp, g, gp)
            tol_c = F(1, 10 ** 9) * (abs(F(c0)) + abs(ec) + F(1, 10 ** 300))
            scale = abs(1 - p["alpha"]) * abs(F(d0)) + abs(eoff) + abs(p["beta"]) * (abs(p["cbr_target"]) + abs(ec)) \
                + abs(ed)
            tol_d = F(1, 10 ** 9) * scale + F(1, 10 ** 300)
            near = abs(ediff) < F(1, 10 ** 12)     # sign decision of step 2 too close to call
            if abs(F(c1) - ec) > tol_c:
                ctx.property_failure("adaptive_formula", inp, f"{tag}: CBR_ITS-S differs from equation (1)", float(ec), c1)
            elif not near and abs(F(d1) - ed) > tol_d:
                ctx.property_failure("adaptive_formula", inp,
                                     f"{tag}: delta differs from equations (2)-(6) applied to the previous state",
                                     float(ed), d1)
            ctx.nontriv(("a", c0, d0, cl, clp, g, gp, tuple(sorted(pv.items()))))

            # per-step correspondence: the model starts from the implementation's previous state
            def cmp1(res, ec=ec, ed=ed, c1=c1, d1=d1, tol_c=tol_c, tol_d=tol_d, near=near, k=k):
                if len(res) != 5 or res[0] != 1:
                    ctx.mismatch("DccAdaptive.update = Dcc.adaptive_update (one step)", {"case": inp, "step": k}, res,
                                 [1, c1, d1])
                    return
                mc, md = F(res[1], res[2]), F(res[3], res[4])
                if mc != ec or md != ed:    # both exact: must agree exactly
                    ctx.mismatch("Dcc.adaptive_update = clause 5.4 equations (exact)", {"case": inp, "step": k},
                                 [str(mc), str(md)], [str(ec), str(ed)])
                if abs(F(c1) - mc) > tol_c or (not near and abs(F(d1) - md) > tol_d):
                    ctx.mismatch("DccAdaptive.update = Dcc.adaptive_update (one step)", {"case": inp, "step": k},
                                 [float(mc), float(md)], [c1, d1])
            pargs = []
            for n in PNAMES:
                pargs += q(pv[n])
            batch.add(2, pargs + q(c0) + q(d0) + step_args, cmp1)
            # whole-sequence bookkeeping
            if seq_valid:
                xc, xdiff, _, xd = spec_adaptive(p, exact_c, exact_d, cl, clp, g, gp)
                if abs(xdiff) < F(1, 10 ** 12):
                    seq_valid = False
                exact_c, exact_d = xc, xd
        seq_obs.append((acc, c1, d1, seq_valid))
    ctx.count(len(inp["steps"]), inp.get("kind") or ("adaptive_step_default" if pf is None else "adaptive_step_custom"))

    # whole sequence through the model, from the constructor's state
    def cmpseq(res, seq_obs=seq_obs):
        if len(res) != 5 * len(seq_obs):
            ctx.mismatch("DccAdaptive run = Dcc.adaptive_run", inp, res, "length")
            return
        for k, (acc, c1, d1, valid) in enumerate(seq_obs):
            r = res[5 * k: 5 * k + 5]
            if (r[0] == 1) != acc:
                ctx.mismatch("DccAdaptive run = Dcc.adaptive_run (accept/reject)", {"case": inp, "step": k}, r[0], acc)
                return
            if not valid:
                return
            mc, md = F(r[1], r[2]), F(r[3], r[4])
            big = max(abs(v) for v in p.values())
            tc = F(1, 10 ** 9) * (abs(mc) + 1)
            td = F(1, 10 ** 9) * (abs(md) + big)
            if abs(F(c1) - mc) > tc or abs(F(d1) - md) > td:
                ctx.mismatch("DccAdaptive run = Dcc.adaptive_run", {"case": inp, "step": k}, [float(mc), float(md)],
                             [c1, d1])
                return

    if len(inp["steps"]) <= 12:   # exact rationals grow by ~53 bits per step; longer runs are tied step by step
        pargs = []
        for n in PNAMES:
            pargs += q(pv[n])
        batch.add(2, pargs + q(init[0]) + q(init[1]) + seq_args, cmpseq)
    return seq_obs


def random_params(rng):
    r = rng.random()
    if r < 0.35:
        return None
    if r < 0.75:   # plausible tunings
        dmin = 10 ** rng.uniform(-5, -2)
        dmax = dmin * 10 ** rng.uniform(0, 2.5)
        return {"alpha": rng.uniform(0.001, 0.5), "beta": 10 ** rng.uniform(-4, -1),
                "cbr_target": rng.uniform(0.2, 0.9), "delta_max": dmax, "delta_min": dmin,
                "delta_up_max": 10 ** rng.uniform(-5, -2), "delta_down_max": -10 ** rng.uniform(-5, -2)}
    # anything with delta_min <= delta_max, including equal, zero and negative bounds and odd gains
    a, b = sorted((rng.uniform(-0.05, 0.1), rng.uniform(-0.05, 0.1)))
    if rng.random() < 0.2:
        b = a
    return {"alpha": rng.choice((0.0, 1.0, 1.5, -0.5, rng.uniform(-1, 2))), "beta": rng.uniform(-0.01, 0.05),
            "cbr_target": rng.choice((0.0, 1.0, rng.uniform(-0.2, 1.2))), "delta_max": b, "delta_min": a,
            "delta_up_max": rng.uniform(-0.001, 0.01), "delta_down_max": rng.uniform(-0.01, 0.001)}


def random_astep(rng, level):
    def v():
        r = rng.random()
        if r < 0.5:
            return min(1.0, max(0.0, rng.gauss(level, 0.1)))
        if r < 0.8:
            return rng.random()
        if r < 0.93:
            return rng.choice((0.0, 1.0, -0.0, 5e-324, math.nextafter(1.0, 0.0), 0.68, 0.5))
        if r < 0.98:
            return rng.choice((math.nextafter(0.0, -1.0), math.nextafter(1.0, 2.0), -0.1, 1.01, 2.0, -1e300))
        return rng.choice(NONFINITE)
    cl, clp = v(), v()
    r = rng.random()
    g = gp = None
    if r < 0.3:
        g, gp = rng.random(), rng.random()
        if rng.random() < 0.35:      # the optional global values at their range ends (0.0 is a value, not "absent")
            g = rng.choice((0.0, 1.0, -0.0, 5e-324, g))
            gp = rng.choice((0.0, 1.0, -0.0, gp))
    elif r < 0.36:
        g = rng.random()
    elif r < 0.42:
        gp = rng.random()
    return [cl, clp, g, gp]


def adaptive_sweeps(ctx, batch):
    edge = [0.0, 1.0, 0.5, 0.68, math.nextafter(1.0, 0.0), 5e-324]
    bad = [math.nextafter(0.0, -1.0), math.nextafter(1.0, 2.0), -1.0, 1.01, float("nan"), INF, -INF]
    # range check on both local arguments, with and without global values
    for a in edge + bad:
        for b in edge + bad:
            for g in (None, 0.4):
                check_adaptive(ctx, batch, {"op": "adaptive", "params": None, "steps": [[a, b, g, g], [0.5, 0.5, None, None]]})
    # the optional global pair (NOTE 1 of clause 5.4): used when BOTH are given - also when a value is exactly 0.0 -
    # and the local pair otherwise
    for cl in (1.0, 0.5, 0.0):
        for g, gp in ((0.0, 0.0), (0.0, 0.8), (0.8, 0.0), (1.0, 1.0), (0.0, None), (None, 0.0), (-0.0, 0.0), (5e-324, 0.0)):
            check_adaptive(ctx, batch, {"op": "adaptive", "params": None, "steps": [[cl, cl, g, gp]] * 6 + [[cl, cl, None, None]] * 2})
    # steady loads: below, at and above the target, long enough to run into both clamps
    n = 400 if ctx.tier == "thorough" else 150
    for level in (0.0, 0.3, 0.6799, 0.68, 0.6801, 0.9, 1.0):
        check_adaptive(ctx, batch, {"op": "adaptive", "params": None, "steps": [[level, level, None, None]] * n})
    # load step from idle to saturated and back
    check_adaptive(ctx, batch, {"op": "adaptive", "params": None,
                                "steps": [[0.0, 0.0, None, None]] * 70 + [[1.0, 1.0, None, None]] * 70 +
                                         [[0.1, 0.2, 0.9, 0.8]] * 40})
    batch.flush()


def adaptive_random(ctx, batch, n):
    rng = ctx.rng
    for _ in range(n):
        params = random_params(rng)
        length = rng.choice((1, 3, 6, 12, 30, 80))
        level = rng.random()
        steps = []
        for _ in range(length):
            level = min(1.0, max(0.0, level + rng.gauss(0, 0.05)))
            steps.append(random_astep(rng, level))
        check_adaptive(ctx, batch, {"op": "adaptive", "params": params, "steps": steps})
    batch.flush()


# ----------------------------------------------------------------------------------------------
# gate keeper
# ----------------------------------------------------------------------------------------------
class GateOracle:
    """Annex B read literally, in exact arithmetic, fed with the implementation's own decisions."""

    def __init__(self, delta):
        self.delta = F(delta)
        self.pg = None
        self.go = None
        self.unsure = False      # a decision fell into the excluded band: t_go unknown until the next admission
        self.last_adm = None

    def verdict(self, x):
        """what the property says about the gate at time x: 'open', 'closed', 'closed_kf' (closed by the
        property, within 1 ns before t_go), or None (excluded band / unknown)"""
        if self.go is None:
            return "open"
        if self.unsure:
            return None
        fx, t = F(x), tau(x)
        if fx >= self.go + t:
            return "open"
        if fx < self.go - NS1 - t:
            return "closed"
        if fx < self.go - t:
            return "closed_kf"
        return None


_EPS = {}


def model_eps(ctx):
    """the opening tolerance the model uses (Gen/C19Consts.v, i.e. the source's _T_EPSILON), for the excluded band"""
    if "v" not in _EPS:
        try:
            r = ctx.model.call(5, [])
            _EPS["v"] = F(r[18], r[19])
        except Exception:
            _EPS["v"] = F(1e-9)
    return _EPS["v"]


def gate_state(gk):
    return (gk._delta, gk._t_pg, gk._t_go)


def gate_args_state(st):
    d, pg, go = st
    if pg is None or go is None:
        return q(d) + [0, 0, 1, 0, 1]
    return q(d) + [1] + q(pg) + q(go)


def judge(ctx, inp, k, what, x, is_open_obs, verdict):
    """compare one observation of the gate (open / closed at time x) with the property's verdict"""
    if verdict is None:
        return
    if verdict == "open" and not is_open_obs:
        ctx.property_failure("gate_opens_late", inp, f"op {k}: {what} at t={x!r}: gate closed at or after t_go",
                             "open", "closed")
    elif verdict == "closed" and is_open_obs:
        ctx.property_failure("gate_opens_early", inp,
                             f"op {k}: {what} at t={x!r}: gate open more than 1 ns before t_go", "closed", "open")
    elif verdict == "closed_kf" and is_open_obs:
        ctx.property_failure(KF_CLASS, inp, f"op {k}: {what} at t={x!r}: gate open within 1 ns before t_go",
                             "closed", "open")


def check_gate(ctx, batch, inp, adversary=None):
    """inp = {"op": "gate", "delta": float, "ops": [[kind, t, x], ...]} with kind in
    "query" (x unused), "admit" (x = t_on), "update" (x = new delta).
    `adversary(gk, rng)` may be given instead of a fixed op list: it is called before each op and returns the
    next op from the implementation's current state (the executed ops are stored into inp["ops"])."""
    from flexstack.management.dcc_adaptive import GateKeeper
    d0 = inp["delta"]
    gk = GateKeeper(delta=d0)
    orc = GateOracle(d0)
    ops = inp["ops"]
    if adversary is not None:
        ops = []
        inp["ops"] = ops
    seq_args = []
    seq_obs = []
    k = 0
    dead = False      # set when the implementation accepted an invalid argument: the oracle stops judging this run
    kinds = {"query": 0, "admit": 1, "update": 2}
    while True:
        if adversary is not None:
            op = adversary(gk)
            if op is None:
                break
            ops.append(op)
        else:
            if k >= len(ops):
                break
            op = ops[k]
        kind, t, x = op
        pre = gate_state(gk)
        try:
            if kind == "query":
                res = 1 if gk.is_open(t) else 0
            elif kind == "admit":
                res = 1 if gk.admit_packet(t, x) else 0
            else:
                gk.update_delta(t, x)
                res = 0
        except ValueError:
            res = 2
        post = gate_state(gk)
        ft, tt = F(t), tau(t)
        # ------------------------------------------------------------ oracle
        if dead:
            pass
        elif kind == "query":
            judge(ctx, inp, k, "is_open", t, res == 1, orc.verdict(t))
        elif kind == "admit":
            if res == 2:
                pass    # argument validation is not part of the property: compared with the model only
            elif x <= 0:
                dead = True   # an invalid duration was accepted: Annex B says nothing; the model comparison reports it
            else:
                judge(ctx, inp, k, "admit_packet", t, res == 1, orc.verdict(t))
                if res == 0 and orc.last_adm is not None and ft >= orc.last_adm + ONE_S + tt:
                    ctx.property_failure("gate_closed_gt_1s", inp,
                                         f"op {k}: packet at t={t!r} rejected although the last admission was at "
                                         f"{float(orc.last_adm)!r}", "admitted", "rejected")
                if res == 1:
                    if orc.last_adm is not None:
                        gap = ft - orc.last_adm
                        if gap < MS25 - NS1 - tt:
                            ctx.property_failure("gate_spacing", inp,
                                                 f"op {k}: admissions {float(gap)!r} s apart (more than 1 ns short of 25 ms)",
                                                 ">= 0.025", float(gap))
                        elif gap < MS25 - tt:
                            ctx.property_failure(KF_CLASS, inp,
                                                 f"op {k}: admissions {float(gap)!r} s apart, {float(MS25 - gap)!r} s "
                                                 "short of 25 ms", ">= 0.025", float(gap))
                    # at most one packet per opening: the gate is closed right after the admission
                    if gk.is_open(t):
                        ctx.property_failure("gate_two_per_opening", inp,
                                             f"op {k}: gate still open at t={t!r} right after an admission", "closed",
                                             "open")
                    orc.pg, orc.last_adm = ft, ft
                    orc.go = ft + min(max(F(x) / orc.delta, MS25), ONE_S)            # B.1
                    orc.unsure = False
                    ctx.nontriv(("g", t, x, pre[0]))
        else:
            if res == 2:
                pass    # argument validation: compared with the model only
            elif x <= 0:
                dead = True
            else:
                old = orc.delta
                orc.delta = F(x)
                if orc.go is not None and not orc.unsure:
                    if ft < orc.go - NS1 - tt:                                       # closed: B.2
                        orc.go = orc.pg + min(max(old / orc.delta * (orc.go - orc.pg), MS25), ONE_S)
                    elif ft >= orc.go + tt:
                        pass                                                         # open: delta only
                    else:
                        orc.unsure = True
        # probes around the opening time the property prescribes, and at 1 s after the last admission
        if not dead and res != 2 and orc.go is not None and not orc.unsure and kind != "query":
            g = float(orc.go)
            big = 4 * float(tau(g))
            for what, px in (("probe before t_go", g - 3e-9 - big), ("probe 0.5 ns before t_go", g - 0.5e-9),
                             ("probe after t_go", g + big)):
                judge(ctx, inp, k, what, px, gk.is_open(px), orc.verdict(px))
        if not dead and res != 2 and orc.last_adm is not None and kind != "query":
            p1 = float(orc.last_adm + ONE_S)
            p1 = p1 + 4 * float(tau(p1))
            if not gk.is_open(p1):
                ctx.property_failure("gate_closed_gt_1s", inp,
                                     f"op {k}: gate closed at t={p1!r}, more than 1 s after the admission at "
                                     f"{float(orc.last_adm)!r}", "open", "closed")
        # ------------------------------------------------------------ correspondence, one step
        opargs = [kinds[kind]] + q(t) + q(x if finite(x) else 0.0)
        seq_args += opargs

        def cmp1(r, pre=pre, post=post, res=res, kind=kind, t=t, k=k):
            want_res = res
            ok = len(r) == 8
            if ok:
                mres, has = r[0], r[1]
                mpg, mgo, md = F(r[2], r[3]), F(r[4], r[5]), F(r[6], r[7])
                tt = tau(t)
                # decision excluded when t is within the band of the model's threshold
                inband = False
                if pre[2] is not None:
                    thr = F(pre[2]) - model_eps(ctx)
                    inband = abs(F(t) - thr) <= tt
                if inband and mres != 2 and want_res != 2:
                    return
                ok = (mres == want_res and md == F(post[0]) and (has == 1) == (post[1] is not None))
                if ok and has == 1:
                    ok = (mpg == F(post[1]) and abs(mgo - F(post[2])) <= tau(post[2]))
            if not ok:
                ctx.mismatch("GateKeeper step = Dcc.gate_step", {"case": inp, "op_index": k, "pre_state": list(pre)},
                             r, [want_res] + list(post))
        batch.add(3, gate_args_state(pre) + opargs, cmp1)
        seq_obs.append((kind, t, res, post))
        k += 1
    ctx.count(len(ops), inp.get("kind") or ("gate_op_epoch" if (ops and abs(ops[0][1]) >= 64) else "gate_op"))

    # whole run through the model from the constructor's state; stops at the first decision that the
    # model takes within the band of its own threshold
    def cmpseq(r, seq_obs=seq_obs):
        if len(r) != 8 * len(seq_obs):
            ctx.mismatch("GateKeeper run = Dcc.gate_run", inp, len(r), 8 * len(seq_obs))
            return
        prev_go = None
        for k, (kind, t, res, post) in enumerate(seq_obs):
            m = r[8 * k: 8 * k + 8]
            tt = 5 * tau(t)
            if prev_go is not None and abs(F(t) - (prev_go - model_eps(ctx))) <= tt:
                return
            mgo = F(m[4], m[5])
            ok = m[0] == res and (m[1] == 1) == (post[1] is not None) and F(m[6], m[7]) == F(post[0])
            if ok and m[1] == 1:
                ok = F(m[2], m[3]) == F(post[1]) and abs(mgo - F(post[2])) <= 5 * tau(post[2])
            if not ok:
                ctx.mismatch("GateKeeper run = Dcc.gate_run", {"case": inp, "op_index": k}, m, [res] + list(post))
                return
            prev_go = mgo if m[1] == 1 else None
    if len(ops) <= 400:
        batch.add(3, q(d0) + [0, 0, 1, 0, 1] + seq_args, cmpseq)
    return seq_obs


def rand_ton(rng):
    r = rng.random()
    if r < 0.85:
        return 10 ** rng.uniform(-4.7, -2.4)       # 20 us .. 4 ms
    if r < 0.95:
        return rng.choice((1e-9, 1e-6, 0.01, 0.1, 1.0, 5.0))
    return rng.choice((0.0, -0.001, -0.0))


def rand_delta(rng):
    r = rng.random()
    if r < 0.6:
        return 10 ** rng.uniform(math.log10(0.0006), math.log10(0.03))
    if r < 0.9:
        return 10 ** rng.uniform(-5, 0)
    if r < 0.96:
        return rng.choice((1.0, 0.0006, 0.03, 1e-7, 10.0))
    return rng.choice((0.0, -0.01))


def gate_pattern(rng, t0):
    """a fixed op list: arrival pattern + delta updates, times ascending"""
    dur = rng.choice((0.5, 2.0, 6.0, 15.0))
    ev = []
    pat = rng.random()
    if pat < 0.3:      # periodic arrivals
        per = rng.choice((0.001, 0.01, 0.02, 0.025, 0.05, 0.1, 0.2, 1.0, 1.5))
        n = min(int(dur / per) + 1, 300)
        ev += [("admit", t0 + i * per) for i in range(n)]
    elif pat < 0.6:    # Poisson arrivals
        lam = rng.choice((2.0, 20.0, 100.0, 400.0))
        t = t0
        while t < t0 + dur and len(ev) < 300:
            t += rng.expovariate(lam)
            ev.append(("admit", t))
    elif pat < 0.8:    # bursts
        t = t0
        while t < t0 + dur and len(ev) < 300:
            t += rng.uniform(0.0, 0.4)
            for i in range(rng.randrange(1, 6)):
                ev.append(("admit", t + i * rng.choice((0.0, 1e-9, 1e-6, 1e-3))))
    else:              # sparse: gaps beyond one second
        t = t0
        for _ in range(12):
            t += rng.choice((0.9, 1.0, 1.1, 2.5, 0.3))
            ev.append(("admit", t))
    up = rng.random()
    if up < 0.5:       # the adaptive algorithm re-evaluates every 200 ms
        i = 1
        while t0 + 0.2 * i < t0 + dur and i < 100:
            ev.append(("update", t0 + 0.2 * i))
            i += 1
    elif up < 0.8:
        for _ in range(rng.randrange(1, 30)):
            ev.append(("update", t0 + rng.uniform(0, dur)))
    for _ in range(rng.randrange(0, 10)):
        ev.append(("query", t0 + rng.uniform(0, dur)))
    ev.sort(key=lambda e: e[1])
    ops = []
    for kind, t in ev:
        ops.append([kind, t, rand_ton(rng) if kind == "admit" else rand_delta(rng) if kind == "update" else 0.0])
    return ops


def gate_random(ctx, batch, n):
    rng = ctx.rng
    for i in range(n):
        r = rng.random()
        t0 = 0.0 if r < 0.3 else rng.uniform(0, 16) if r < 0.9 else 1.7e9 + rng.uniform(0, 1e6)
        d0 = rand_delta(rng)
        while d0 <= 0:
            d0 = rand_delta(rng)
        check_gate(ctx, batch, {"op": "gate", "delta": d0, "ops": gate_pattern(rng, t0)})
    batch.flush()


def gate_adversarial(ctx, batch, n):
    """arrivals and delta updates placed relative to the implementation's current t_pg / t_go"""
    rng = ctx.rng
    offs = (-3e-9, -2e-9, -1e-9 - 5e-12, -1e-9 + 5e-12, -0.9e-9, -0.5e-9, -5e-12, 0.0, 5e-12, 1e-9, 1e-6)
    for _ in range(n):
        d0 = rand_delta(rng)
        while d0 <= 0:
            d0 = rand_delta(rng)
        state = {"t": rng.choice((0.0, rng.uniform(0, 30))), "n": 0, "len": rng.randrange(4, 40)}

        def adv(gk, state=state):
            if state["n"] >= state["len"]:
                return None
            state["n"] += 1
            t = state["t"]
            r = rng.random()
            if gk._t_go is None or r < 0.15:
                t = t + rng.choice((0.0, 0.01, 0.3))
                op = ["admit", t, rand_ton(rng)]
            else:
                base = rng.choice((gk._t_go, gk._t_go, gk._t_pg + 0.025, gk._t_pg + 1.0, gk._t_pg))
                t = max(t, base + rng.choice(offs)) if rng.random() < 0.9 else base + rng.choice(offs)
                kind = rng.choice(("admit", "admit", "admit", "update", "update", "query"))
                op = [kind, t, rand_ton(rng) if kind == "admit" else rand_delta(rng) if kind == "update" else 0.0]
            state["t"] = max(state["t"], t)
            return op
        check_gate(ctx, batch, {"op": "gate", "delta": d0, "ops": []}, adversary=adv)
    batch.flush()


def gate_with_adaptive(ctx, batch, n):
    """integration: delta comes from a live DccAdaptive evaluated every 200 ms"""
    from flexstack.management.dcc_adaptive import DccAdaptive
    rng = ctx.rng
    for _ in range(n):
        alg = DccAdaptive()
        level = rng.random()
        t0 = rng.uniform(0, 20)
        ops = []
        rate = rng.choice((10.0, 40.0, 200.0))
        t = t0
        nxt = t0 + 0.2
        prev = level
        while t < t0 + 12.0 and len(ops) < 380:
            t += rng.expovariate(rate)
            while nxt <= t:
                level = min(1.0, max(0.0, level + rng.gauss(0, 0.1)))
                d = alg.update(level, prev)
                prev = level
                ops.append(["update", nxt, d])
                nxt += 0.2
            ops.append(["admit", t, 10 ** rng.uniform(-4, -3)])
        check_gate(ctx, batch, {"op": "gate", "delta": 0.0006, "ops": ops})
    batch.flush()


def gate_sweeps(ctx, batch):
    # the documented examples of the class and the boundary cases of B.1 / B.2
    fixed = [
        (0.01, [["admit", 0.0, 0.001], ["query", 0.099, 0], ["query", 0.1, 0], ["admit", 0.1, 0.001]]),
        (1.0, [["admit", 0.0, 0.001], ["query", 0.024, 0], ["query", 0.025, 0], ["admit", 0.025, 0.001]]),
        (0.0006, [["admit", 0.0, 0.001], ["query", 0.99, 0], ["query", 1.0, 0], ["admit", 1.0, 0.001]]),
        (0.01, [["admit", 0.0, 0.001], ["update", 0.0, 0.02], ["query", 0.049, 0], ["query", 0.05, 0]]),
        (0.02, [["admit", 0.0, 0.001], ["update", 0.0, 0.01], ["query", 0.099, 0], ["query", 0.1, 0]]),
        (0.01, [["admit", 0.0, 0.001], ["update", 0.0, 0.1], ["query", 0.024, 0], ["query", 0.025, 0]]),
        (0.02, [["admit", 0.0, 0.001], ["update", 0.0, 0.0001], ["query", 0.99, 0], ["query", 1.0, 0]]),
        (0.01, [["admit", 0.0, 0.001], ["update", 0.5, 0.005], ["query", 0.5, 0], ["admit", 0.5, 0.001]]),
        (0.01, [["admit", 0.0, 0.001], ["query", 0.1, 0], ["update", 0.1, 0.02], ["admit", 0.1, 0.001],
                ["query", 0.14, 0], ["query", 0.15, 0]]),
        (0.01, [["update", 0.0, 0.02], ["query", 0.0, 0], ["query", -1.0, 0], ["query", 100.0, 0]]),
        (0.01, [["admit", 0.0, 0.0], ["admit", 0.0, -0.001], ["update", 0.0, 0.0], ["update", 0.0, -0.01],
                ["admit", 0.0, 0.001], ["admit", 0.0, 0.001], ["admit", 0.0, 0.001]]),
    ]
    for d0, ops in fixed:
        check_gate(ctx, batch, {"op": "gate", "delta": d0, "ops": ops})
    # arrivals at t_pg + 25 ms - k * 0.1 ns with the minimum interval in force, k = 0..30
    for kk in range(0, 31):
        t2 = 0.025 - kk * 1e-10
        check_gate(ctx, batch, {"op": "gate", "delta": 1.0, "ops": [["admit", 0.0, 0.001], ["admit", t2, 0.001],
                                                                     ["admit", 0.025 + 1e-10, 0.001]]})
    # arrivals around t_pg + 1 s with the maximum interval in force
    for off in (-1e-3, -2e-9, -0.5e-9, 0.0, 1e-9, 1e-3):
        check_gate(ctx, batch, {"op": "gate", "delta": 0.0006, "ops": [["admit", 3.0, 0.002], ["admit", 4.0 + off, 0.002],
                                                                        ["admit", 4.0 + 1e-6, 0.002]]})
    batch.flush()



# ----------------------------------------------------------------------------------------------
# audit round: inputs the first generators never produced (design/C19.md "Audit round: gaps closed")
# ----------------------------------------------------------------------------------------------
def audit_reactive(ctx, batch):
    """(a) the measured CBR handed over as int / bool (0 and 1 are values of [0,1]; 2 and -1 are not); (b) the constructor
    argument as a float between the integers around the table switch (500.0, 500.4, 500.5, 500.9, 499.99, 1e3, inf)"""
    inside, _ = reactive_reps()
    for t_on in (None, 500):
        for start in range(5):
            for c in (0, 1, True, False):
                check_reactive(ctx, batch, {"op": "reactive", "t_on": t_on, "start": start, "cbrs": [c] * 5,
                                            "kind": "reactive_int_cbr"})
            check_reactive(ctx, batch, {"op": "reactive", "t_on": t_on, "start": start, "cbrs": [1, 0.35, 0, 2, -1, 1, 1, 1, 1],
                                        "kind": "reactive_int_cbr"})
    for t_on in (500.0, 500.4, 500.5, 500.9, 499.99, 499.5, 500.0000001, 1000.0, 1e-3, 1e9, INF, -INF, 250.25, True):
        for start in range(5):
            for c in (0.55, 0.62, 0.649, 0.65, 0.7, 0.1):
                check_reactive(ctx, batch, {"op": "reactive", "t_on": t_on, "start": start, "cbrs": [c] * 5,
                                            "kind": "reactive_float_t_on"})
    for _ in range(200):
        check_reactive(ctx, batch, {"op": "reactive", "t_on": ctx.rng.choice((ctx.rng.uniform(498.0, 502.0), ctx.rng.uniform(0, 2000))),
                                    "start": ctx.rng.randrange(5), "cbrs": [ctx.rng.choice(inside)] * 4 + [random_cbr(ctx.rng)] * 4,
                                    "kind": "reactive_float_t_on"})
    batch.flush()


def audit_adaptive(ctx, batch):
    """(a) int / bool CBR arguments, in range (accepted, computed with) and out of range (rejected); (b) runs that reach the
    upper clamp with the default parameters and then meet a small positive offset (delta must come down from delta_max);
    (c) evaluations from a stored state: delta exactly at / next to / outside either bound, CBR_ITS-S exactly at the target"""
    for a in (0, 1, True, False, 2, -1, 0.5):
        for b in (0, 1, True, False, 2, -1, 0.5):
            for g in (None, 0, 1):
                check_adaptive(ctx, batch, {"op": "adaptive", "params": None, "kind": "adaptive_int_cbr",
                                            "steps": [[a, b, g, g], [0.5, 0.5, None, None], [a, b, None, None]]})
    check_adaptive(ctx, batch, {"op": "adaptive", "params": None, "kind": "adaptive_int_cbr", "steps": [[0, 0, None, None]] * 30 + [[1, 1, None, None]] * 30})
    # upper clamp with the defaults: ~205 idle evaluations, then loads that ask for less than alpha * delta_max
    for level in (0.3, 0.5, 0.66, 0.6799, 0.68, 0.7, 1.0):
        check_adaptive(ctx, batch, {"op": "adaptive", "params": None, "kind": "adaptive_upper_clamp",
                                    "steps": [[0.0, 0.0, None, None]] * 215 + [[level, level, None, None]] * 25})
    # stored states
    nx = math.nextafter
    for pf in (None, {"alpha": 0.1, "beta": 0.01, "cbr_target": 0.5, "delta_max": 0.02, "delta_min": 0.001,
                      "delta_up_max": 0.002, "delta_down_max": -0.001},
               {"alpha": 0.016, "beta": 0.0012, "cbr_target": 0.68, "delta_max": 0.004, "delta_min": 0.004,
                "delta_up_max": 0.0005, "delta_down_max": -0.00025}):
        dmin = 0.0006 if pf is None else pf["delta_min"]
        dmax = 0.03 if pf is None else pf["delta_max"]
        tgt = 0.68 if pf is None else pf["cbr_target"]
        for d in (dmin, dmax, nx(dmin, 0.0), nx(dmin, 1.0), nx(dmax, 0.0), nx(dmax, 1.0), dmax * 2, dmin / 2, 0.0, 1.0,
                  (dmin + dmax) / 2):
            for c in (0.0, tgt, nx(tgt, 0.0), nx(tgt, 1.0), 1.0, 0.3):
                for lvl in (0.0, tgt, 1.0, 0.35):
                    check_adaptive(ctx, batch, {"op": "adaptive", "params": pf, "stored": [c, d], "kind": "adaptive_stored_state",
                                                "steps": [[lvl, lvl, None, None]] * 3})
    for _ in range(150):
        pf = random_params(ctx.rng)
        dmin = 0.0006 if pf is None else pf["delta_min"]
        dmax = 0.03 if pf is None else pf["delta_max"]
        d = ctx.rng.choice((dmin, dmax, ctx.rng.uniform(dmin, dmax) if dmin < dmax else dmin, dmax + abs(dmax), dmin - abs(dmin)))
        lvl = ctx.rng.random()
        check_adaptive(ctx, batch, {"op": "adaptive", "params": pf, "stored": [ctx.rng.random(), d], "kind": "adaptive_stored_state",
                                    "steps": [random_astep(ctx.rng, lvl) for _ in range(ctx.rng.choice((1, 4, 10)))]})
    batch.flush()


def audit_gate(ctx, batch, n):
    """(a) time axes that start below zero and cross it: t_pg or t_go exactly 0.0 (a stored time of 0.0 is a time, not
    "no admission yet"), negative t_pg / t_go; (b) uptime-sized time stamps between the two magnitudes generated before
    (1e3 .. 1e7 s); (c) int arguments (t, t_on, delta)"""
    fixed = [
        # t_go == 0.0 exactly: admitted at -25 ms with the minimum interval in force
        (1.0, [["admit", -0.025, 0.001], ["query", -0.02, 0], ["admit", -0.02, 0.001], ["admit", -0.01, 0.001],
               ["query", -1e-6, 0], ["admit", 0.0, 0.001], ["admit", 0.01, 0.001], ["admit", 0.025, 0.001]]),
        # t_go == 0.0 exactly with the 1 s maximum in force, delta updates while closed
        (0.0006, [["admit", -1.0, 0.002], ["query", -0.5, 0], ["update", -0.75, 0.0003], ["admit", -0.5, 0.002],
                  ["update", -0.25, 0.03], ["query", -0.2, 0], ["admit", -0.1, 0.002], ["admit", 0.0, 0.002]]),
        # B.2 leads to t_go == 0.0: closed interval 0.5 s from -0.25, halved delta ratio
        (0.004, [["admit", -0.25, 0.002], ["update", -0.2, 0.008], ["query", -0.01, 0], ["admit", -0.01, 0.002],
                 ["admit", 0.0, 0.002]]),
        (0.004, [["admit", -0.5, 0.002], ["update", -0.4, 0.004], ["update", -0.3, 0.002], ["update", -0.2, 0.004],
                 ["query", -0.1, 0], ["admit", -0.1, 0.002], ["query", 0.0, 0], ["admit", 0.0, 0.002]]),
        # t_pg == 0.0 with several updates while closed
        (0.01, [["admit", 0.0, 0.001], ["update", 0.01, 0.02], ["update", 0.02, 0.005], ["update", 0.03, 0.01],
                ["query", 0.09, 0], ["admit", 0.09, 0.001], ["admit", 0.1, 0.001]]),
        # all negative
        (0.01, [["admit", -10.0, 0.001], ["admit", -9.95, 0.001], ["update", -9.94, 0.02], ["admit", -9.9, 0.001],
                ["admit", -9.85, 0.001], ["admit", -5.0, 0.001]]),
        # int arguments
        (1, [["admit", 0, 1], ["query", 1, 0], ["admit", 1, 1], ["update", 1, 2], ["admit", 2, 1], ["admit", 3, 1]]),
        (1, [["admit", -1, 1], ["query", 0, 0], ["admit", 0, 1], ["admit", 1, 1]]),
    ]
    for d0, ops in fixed:
        check_gate(ctx, batch, {"op": "gate", "delta": d0, "ops": ops, "kind": "gate_op_zero_crossing"})
    rng = ctx.rng
    for i in range(n):
        r = rng.random()
        d0 = rand_delta(rng)
        while d0 <= 0:
            d0 = rand_delta(rng)
        if r < 0.5:
            # dyadic offsets keep sums exact, so that t_go lands on 0.0 exactly now and then
            t0 = -rng.choice((0.025, 0.5, 1.0, 2.0, 0.125, 0.25, 16.0)) * rng.choice((1, 1, 2, 3))
            ops = gate_pattern(rng, t0)
            kind = "gate_op_zero_crossing"
        else:
            t0 = 10 ** rng.uniform(3, 7)
            ops = gate_pattern(rng, t0)
            kind = "gate_op_uptime"
        check_gate(ctx, batch, {"op": "gate", "delta": d0, "ops": ops, "kind": kind})
    # adversarial around t_go / t_pg on an axis that starts below zero
    offs = (-3e-9, -1e-9 - 5e-12, -0.5e-9, 0.0, 5e-12, 1e-9, 1e-6)
    for _ in range(n):
        d0 = rng.choice((1.0, 0.04, 0.002, 0.0006, 10 ** rng.uniform(-4, 0)))
        state = {"t": -rng.choice((0.025, 0.05, 0.1, 0.5, 1.0, 1.5)), "n": 0, "len": rng.randrange(4, 30)}

        def adv(gk, state=state):
            if state["n"] >= state["len"]:
                return None
            state["n"] += 1
            t = state["t"]
            if gk._t_go is None or rng.random() < 0.15:
                op = ["admit", t, rng.choice((0.001, 0.002, 1e-4, 0.0006 * 0.5, rand_ton(rng)))]
            else:
                base = rng.choice((gk._t_go, gk._t_go, gk._t_pg + 0.025, gk._t_pg + 1.0, 0.0))
                t = max(t, base + rng.choice(offs))
                kind = rng.choice(("admit", "admit", "update", "query"))
                op = [kind, t, rng.choice((0.001, 0.002, rand_ton(rng))) if kind == "admit" else
                      rand_delta(rng) if kind == "update" else 0.0]
            state["t"] = max(state["t"], t)
            return op
        check_gate(ctx, batch, {"op": "gate", "delta": d0, "ops": [], "kind": "gate_op_zero_crossing"}, adversary=adv)
    batch.flush()

# ----------------------------------------------------------------------------------------------
def run_case(ctx, batch, inp):
    op = inp.get("op")
    if op == "reactive":
        check_reactive(ctx, batch, inp)
    elif op == "adaptive":
        check_adaptive(ctx, batch, inp)
    elif op == "gate":
        check_gate(ctx, batch, inp)
    else:
        raise ValueError(f"unknown case {inp!r}")


def run(ctx):
    ctx.rule = (
        "reactive: every boundary representative (the doubles two below / just below / at / just above / two above "
        "0, 0.30, 0.40, 0.50, 0.60, 0.65, 1 and interior points of every band, plus values outside [0,1], NaN, "
        "+-inf) x 8 constructor arguments (both tables) x all 5 start states for one evaluation; constant runs of 6 "
        "from every start state; all ordered pairs of representatives as 4+4 evaluations; seeded random and "
        "random-walk sequences. adaptive: range check grid on both local arguments, steady loads around the target, "
        "load steps, seeded sequences over default / plausible / arbitrary parameter sets with delta_min <= "
        "delta_max. gate keeper: documented examples, arrivals at t_pg + 25 ms - k*0.1 ns and around t_pg + 1 s, "
        "seeded periodic / Poisson / burst / sparse arrival patterns with transmission durations 20 us..4 ms (and "
        "extremes, invalid values) and delta updates every 200 ms or at random times (also from a live DccAdaptive), "
        "time stamps below 64 s and epoch-sized, adversarial arrivals / updates placed within nanoseconds of the "
        "implementation's own t_go, t_pg + 25 ms, t_pg + 1 s. Audit round: CBR as int / bool, float constructor "
        "arguments around the table switch, default-parameter runs into the upper clamp, evaluations from stored states "
        "(delta at / next to / outside the bounds, CBR_ITS-S at the target), gate time axes that cross zero (t_pg / t_go "
        "exactly 0.0, negative), uptime-sized time stamps 1e3..1e7 s, int arguments. A case is non-trivial when the evaluation was "
        "accepted (reactive, adaptive) or the packet was admitted (gate); distinct by (table, state, cbr) / "
        "(state, inputs, parameters) / (time, t_on, delta).")
    batch = Batch(ctx)
    # known findings and corpus first
    for kf in ctx.known:
        run_case(ctx, batch, json.loads(json.dumps(kf["witness"])))
    for path in sorted(glob.glob(os.path.join(common.VERIF, "corpus", PROP, "*.json"))):
        data = json.load(open(path))
        for case in (data if isinstance(data, list) else [data]):
            run_case(ctx, batch, case)
    batch.flush()
    thorough = ctx.tier == "thorough"
    reactive_sweeps(ctx, batch)
    adaptive_sweeps(ctx, batch)
    gate_sweeps(ctx, batch)
    reactive_random(ctx, batch, 20000 if thorough else 3000)
    adaptive_random(ctx, batch, 6000 if thorough else 700)
    gate_random(ctx, batch, 3000 if thorough else 300)
    gate_adversarial(ctx, batch, 6000 if thorough else 600)
    gate_with_adaptive(ctx, batch, 200 if thorough else 20)
    batch.flush()
    # audit round (kept after the first-generation cases: a failure reported from here was missed by them)
    audit_reactive(ctx, batch)
    audit_adaptive(ctx, batch)
    audit_gate(ctx, batch, 1500 if thorough else 150)
    batch.flush()
    ctx.sample({"reactive": {"t_on": 500, "start": 0, "cbrs": [0.65] * 5},
                "states": [o[1] for o in check_reactive(ctx, batch, {"op": "reactive", "t_on": 500, "start": 0,
                                                                     "cbrs": [0.65] * 5})]})
    ctx.sample({"adaptive_default_steady_0.5": [o[2] for o in check_adaptive(
        ctx, batch, {"op": "adaptive", "params": None, "steps": [[0.5, 0.5, None, None]] * 3})]})
    ctx.sample({"gate": {"delta": 1.0, "ops": [["admit", 0.0, 0.001], ["admit", 0.0249999991, 0.001]]},
                "results": [o[2] for o in check_gate(ctx, batch, {"op": "gate", "delta": 1.0, "ops": [
                    ["admit", 0.0, 0.001], ["admit", 0.0249999991, 0.001]]})]})
    batch.flush()
    # the doubles of [0,1] cannot be enumerated; the sweep is exhaustive over the boundary representatives only
    ctx.exhaustive = False


def replay(ctx, data):
    common.use_repo_sources()
    f = data.get("failure") or (data.get("broken") or [{}])[-1].get("first")
    if f is None:
        print(json.dumps(data.get("broken"), default=str)[:2000])
        print("NOT REPRODUCED (the replay names a proof obligation, not an input)")
        return 0
    print(json.dumps(f, default=str)[:3000])
    inp = f["input"]
    if isinstance(inp, dict) and "case" in inp:
        inp = inp["case"]
    ctx.model = common.Model(MODEL_NAME)
    batch = Batch(ctx)
    if isinstance(inp, dict) and "op" in inp:
        run_case(ctx, batch, inp)
        batch.flush()
    bad = ctx.failures or ctx.mismatches or ctx.known_hits
    print("REPRODUCED" if bad else "NOT REPRODUCED")
    for r in (ctx.failures + ctx.mismatches + list(ctx.known_hits.values()))[:3]:
        print(json.dumps(r, default=str)[:2000])
    return 1 if bad else 0
