"""C08 - the location table reflects the newest valid information about each station."""
from __future__ import annotations

import json

from . import common
from . import router_sim as rs

PROP = "C08"
COQ_TARGETS = ["Properties/C08", "Extract/ExRouter"]
MODEL_ML = "router_model.ml"
MODEL_NAME = "router"
GENS = ["gen_src_geonet"]
TRUSTED_BASE = [
    "Coq 8.16.1 kernel (coqc); no native_compute; vm_compute only in the Example",
    "extraction (ExtrOcamlBasic only; Z/positive stay Coq datatypes) + ocaml/driver_body.ml + OCaml 4.13.1",
    "hand-written models Model/LocT.v, Model/Router.v, Model/RouterIO.v tied to the code by differential execution "
    "of whole histories (this harness, harness/router_sim.py)",
    "Python harness incl. the reference packet builders of harness/stack.py",
    "translator tools/pyz.py + tools/gen_src_geonet.py (Python ast -> Gallina, fail-closed): the TST operators (__gt__, __ge__, "
    "__lt__, __le__, __eq__, __sub__, __add__, encode, decode) are regenerated from the source on every run (Gen/SrcGeonet.v) "
    "and proved equal to the model's tst_gt / tst_sub for all arguments; LocationTableEntry.update_position_vector (state-passing: "
    "the two attributes it assigns, the lock context transparent) and LocationTable._is_current (called with an explicit time) are "
    "regenerated likewise and proved equal to the model's update_pv / keep (C08_source_* theorems)",
]
ASSUMPTIONS = [
    "tie by execution: seeded histories of beacons, SHB, TSB, GBC, GAC, GUC, LS packets from 2-4 sources with "
    "timestamps before/at/after the receiver clock, clock advances up to several lifetimes, across the 2^32 ms wrap",
    "the packet-data-rate limiter of annex B.2 is not modelled; generated histories stay below its threshold",
    "dict semantics of the table keyed by the whole GN address (M, ST, MID); sources never share a MID",
]
EXPLANATION = ("theorems: TST order (irreflexive, antisymmetric, total, agrees with real time below 2^31) for all pairs; stored PV is "
               "the newest of any history in a 2^31 window; expiry in real time incl. senders ahead of the clock; neighbour flag "
               "set by beacon/SHB and kept until expiry whatever multi-hop packets follow, never set by multi-hop packets, an expired "
               "entry is not re-used by the next packet of its station; "
               "own address never entered for any frame. Correspondence of full histories (state after every event)")

M32 = 2 ** 32


def check_order(ctx, n_random):
    from flexstack.geonet.position_vector import TST
    pts = set()
    for k in range(0, 33):
        for d in (-2, -1, 0, 1, 2):
            v = (1 << k) + d
            if 0 <= v < M32:
                pts.add(v)
    pts.update([0, 1, M32 - 1, M32 - 2, 2 ** 31, 2 ** 31 - 1, 2 ** 31 + 1])
    pts = sorted(pts)
    pairs = [(a, b) for a in pts for b in pts]
    pairs = pairs[:: max(1, len(pairs) // 12000)]
    for _ in range(n_random):
        t = ctx.rng.randrange(M32)
        d = ctx.rng.choice([1, 2, 999, 2 ** 31 - 1, 2 ** 31, 2 ** 31 + 1, ctx.rng.randrange(1, M32)])
        pairs.append((t, (t + d) % M32))
        pairs.append(((t + d) % M32, t))
    impl = [(TST(msec=a) > TST(msec=b), TST(msec=a) - TST(msec=b)) for a, b in pairs]
    ctx.count(len(pairs), "tst_pairs")
    # the derived operators (<, <=, >=, ==, !=) are the same order: each is determined by > and equality
    for a, b in pairs:
        x, y = TST(msec=a), TST(msec=b)
        gt, lt, ge, le, eq, ne = x > y, x < y, x >= y, x <= y, x == y, x != y
        want = (gt, y > x, gt or a == b, not gt, a == b, a != b)
        if (gt, lt, ge, le, eq, ne) != want:
            ctx.property_failure("tst_order", {"op": "tst_operators", "a": a, "b": b}, "the operators <, <=, >=, ==, != of TST "
                                 "do not describe the same order as > (a < b iff b > a, a >= b iff a > b or a = b, "
                                 "a <= b iff not a > b)", dict(zip(("gt", "lt", "ge", "le", "eq", "ne"), want)),
                                 dict(zip(("gt", "lt", "ge", "le", "eq", "ne"), (gt, lt, ge, le, eq, ne))))
    ctx.count(len(pairs), "tst_pairs_all_operators")
    for (a, b), (gt, sub) in zip(pairs, impl):
        inp = {"op": "tst_order", "a": a, "b": b}
        d = (a - b) % M32
        if a == b and gt:
            ctx.property_failure("tst_order", inp, "timestamp order is not irreflexive", False, gt)
        if gt and (TST(msec=b) > TST(msec=a)):
            ctx.property_failure("tst_order", inp, "timestamp order is not antisymmetric", None, None)
        if 0 < d < 2 ** 31 and not gt:
            ctx.property_failure("tst_order", inp, "a is up to 2^31 ms after b in real time but not greater", True, gt)
        if 2 ** 31 < d and gt:
            ctx.property_failure("tst_order", inp, "a is before b in real time but compares greater", False, gt)
        ctx.nontriv(("tst", a, b))
    if ctx.model.available:
        for (a, b), (gt, sub), r in zip(pairs, impl, ctx.model.batch((2, [a, b]) for a, b in pairs)):
            if r != [int(gt), sub]:
                ctx.mismatch("TST.__gt__/__sub__ = LocT.tst_gt/tst_sub", {"a": a, "b": b}, r, [int(gt), sub])


class Truth:
    """ground truth of the scenario, from the property text (not from the model)"""

    def __init__(self, me_mid, life_ms):
        self.me_mid, self.life = me_mid, life_ms
        self.used_sn = {}       # src -> set of SNs ever sent in a multi-hop packet
        self.shb_seen = {}      # src -> True once a beacon/SHB was processed while continuously present
        self.last_T = {}        # src -> real time of the stored PV as the oracle expects it (None = unknown)


def rel(now, tst32):
    """real time of a 32-bit timestamp, assuming it lies within +-2^31 of now"""
    d = (tst32 - now) % M32
    if d >= 2 ** 31:
        d -= M32
    return now + d


def oracle_history(ctx, station, events, impl):
    life = station.params["life_ms"]
    me = station.mid
    used_sn = {}
    prev_state = None
    present_since_shb = {}
    mh_only = {}
    for idx, (ev, obs) in enumerate(zip(events, impl)):
        st = obs["state"]
        table = {tuple(e["addr"]): e for e in st["loct"]}
        inp = {"event_index": idx, "event": rs._ev_repr({k: v for k, v in ev.items() if k != "dests"}),
               "history_tail": [rs._ev_repr({k: v for k, v in e.items() if k not in ("dests", "pkt")}) for e in events[max(0, idx - 6):idx]]}
        # the own address is never entered
        for a in table:
            if a[2] == me:
                ctx.property_failure("own_address_in_loct", inp, "the station's own address is in the location table", None, list(a))
        if ev["ev"] != "rx":
            prev_state = st
            continue
        now = ev["now"]
        src = tuple(ev["src"])
        valid = ev["rhl"] <= ev["mhl"] and src[2] != me
        if ev["kind"] in ("gbc", "gac"):
            a = ev["area"]
            if a[2] == 0 or (a[5] != 0 and a[3] == 0):
                valid = False
        is_shb = ev["kind"] in ("beacon", "shb")
        fresh = is_shb or (ev["sn"] not in used_sn.get(src, set()))
        prev = {tuple(e["addr"]): e for e in (prev_state or {"loct": []})["loct"]}
        T_pkt = rel(now, ev["tst"])
        if valid and fresh:
            was = prev.get(src)
            T_old = rel(now, was["pv"][3]) if (was and was["set"]) else None
            # an entry whose lifetime had run out before this packet arrived has expired, whether or not a purge has
            # removed it yet: S is then known through this packet only
            was_expired = T_old is not None and (now - T_old) > life
            if was_expired:
                ctx.count(1, "packet_of_source_whose_entry_had_expired")
            T_exp = T_pkt if (T_old is None or T_pkt > T_old) else T_old
            should_be_present = (now - T_exp) <= life
            e = table.get(src)
            if should_be_present and e is None:
                ctx.property_failure("source_absent", inp, "a valid packet of S was processed but S is not in the location "
                                     "table although its position timestamp is within the lifetime", {"age_ms": now - T_exp}, None)
            if not should_be_present and e is not None and e["set"]:
                ctx.property_failure("expired_kept", inp, "entry older than the lifetime is still present after processing", None, e)
            if e is not None and e["set"]:
                T_got = rel(now, e["pv"][3])
                if T_got != T_exp:
                    ctx.property_failure("pv_not_newest", inp, "stored position vector is not the most recent by timestamp",
                                         {"T": T_exp}, {"T": T_got, "pv": e["pv"]})
                elif T_exp == T_pkt and (T_old is None or T_pkt > T_old):
                    want = list(src) + [ev["tst"], ev["pos"][0], ev["pos"][1], ev["pai"], ev.get("s", 0), ev.get("h", 0)]
                    if e["pv"] != want:
                        ctx.property_failure("pv_not_newest", inp, "stored position vector differs from the newest received one", want, e["pv"])
                elif T_old is not None and T_pkt <= T_old:
                    # an older or EQUAL timestamp never replaces: every field of the stored vector stays
                    ctx.count(1, "pv_older_or_equal" + ("_equal_tst" if T_pkt == T_old else ""))
                    if e["pv"] != was["pv"]:
                        ctx.property_failure("pv_replaced_by_not_newer", inp, "a position vector with an older or equal timestamp "
                                             "replaced (part of) the stored one", was["pv"], e["pv"])
                if is_shb and not e["nb"]:
                    ctx.property_failure("neighbour_flag", inp, "S is not a neighbour after its beacon / SHB was processed", 1, e["nb"])
                if not is_shb:
                    want_nb = was["nb"] if (was and not was_expired) else 0
                    if e["nb"] != want_nb:
                        if was_expired and was["nb"] and e["nb"]:
                            ctx.property_failure("neighbour_flag_survives_expiry", dict(inp, stored_pv_age_ms=now - T_old, lifetime_ms=life),
                                                 "the entry of S had expired (position timestamp older than the lifetime, no purge "
                                                 "has run since) when a multi-hop packet of S arrived: S is known through "
                                                 "multi-hop packets only, yet it counts as a neighbour again", 0, e["nb"])
                        else:
                            ctx.property_failure("neighbour_flag", inp, "a multi-hop packet changed the neighbour flag of S "
                                                 "(or made an unknown S a neighbour)", want_nb, e["nb"])
            ctx.nontriv(("loct", ev["kind"], src, ev.get("sn"), ev["tst"], now))
        if valid and not is_shb:
            used_sn.setdefault(src, set()).add(ev["sn"])
        # every entry that is present with a position vector is within its lifetime, if a refresh ran (packet accepted)
        accepted = prev_state is not None and [tuple(e["addr"]) for e in prev_state["loct"]] != [tuple(e["addr"]) for e in st["loct"]] \
            or (valid and fresh)
        if accepted:
            for a, e in table.items():
                if e["set"]:
                    T = rel(now, e["pv"][3])
                    if now - T > life:
                        ctx.property_failure("expired_kept", inp, "entry older than the lifetime survived a refresh", None, e)
        # nothing but expiry removes an entry: whoever was present with a position vector still within its lifetime stays
        for a, pe in prev.items():
            if pe["set"] and a not in table and (now - rel(now, pe["pv"][3])) <= life:
                ctx.property_failure("entry_lost_early", dict(inp, lost=pe, age_ms=now - rel(now, pe["pv"][3]), lifetime_ms=life),
                                     "an entry disappeared although its position timestamp is still within the lifetime", pe, None)
        # other sources untouched except by expiry
        for a, e in table.items():
            if a != src and a in prev and (prev[a]["pv"], prev[a]["nb"]) != (e["pv"], e["nb"]):
                ctx.property_failure("frame", inp, "processing a packet of S changed the entry of another station", prev[a], e)
        prev_state = st


def histories(ctx, n_hist, n_events):
    for it in range(n_hist):
        ego = ctx.rng.choice([(413800000, 21100000), (-338688000, 1512093000), (-100, -100), (899999000, -1799999000)])
        # clock near the 2^32 ms wrap for a share of the histories
        if it % 4 == 1:
            base = (ctx.rng.randrange(100, 200) * M32) - ctx.rng.choice([500, 15000, 30000, 3])
            rs.VCLOCK.set_ms(base + rs.stack.ITS_EPOCH_MS - rs.stack.LEAP_MS)
        else:
            rs.VCLOCK.set_ms(1_700_000_000_000 + ctx.rng.randrange(0, 10 ** 9))
        st = rs.Station(area_alg=ctx.rng.choice(["CBF", "SIMPLE"]), dpl_len=ctx.rng.choice([1, 2, 8]), ego=ego,
                        life_s=ctx.rng.choice([20, 20, 5, 1]), ls_max=ctx.rng.choice([10, 10, 0, 1, 2]))
        mix = {"beacon": 5, "shb": 4, "tsb": 4, "gbc": 4, "gac": 2, "guc": 3, "lsreq": 2, "lsrep": 2, "dup": 4, "tick": 8,
               "req_guc": 1, "ls": 1 if st.params["ls_max"] == 10 else 3, "cbf": 1, "req_shb": 0, "req_geo": 0, "ego": 0}
        # rich: speed / heading / mobility flag / offload bit / lifetime code / station type / M bit of the sources vary
        sc = rs.Scenario(ctx.rng, st, n_sources=ctx.rng.choice([2, 3, 4]), mix=mix, rich=True)
        evs = sc.build(n_events)
        for k in range(len(evs)):
            if evs[k]["ev"] != "rx":
                continue
            u = ctx.rng.random()
            if u < 0.03:
                # a packet that claims our own address: every packet type; a share of them with our MID under another
                # station type / M bit (the link-layer address is what identifies the station: GNAddress.__eq__)
                me = rs.Source(ctx.rng, 99, ego)
                me.addr = (0, st.st, st.mid) if ctx.rng.random() < 0.6 else (ctx.rng.choice([0, 1]), ctx.rng.randrange(13), st.mid)
                st.positions.update(me.pos)
                sc.now = evs[k]["now"]
                evs[k] = sc.rx_event(ctx.rng.choice(["beacon", "shb", "tsb", "gbc", "gac", "guc", "lsreq", "lsrep"]), src=me)
                evs[k]["own"] = True
            elif u < 0.10:
                # the same timestamp as the previous packet of this source (or one just below / above it) with another
                # position, speed and heading: an equal timestamp must not replace anything
                srcs = {x.addr: x for x in sc.sources}
                prevs = [e for e in evs[:k] if e["ev"] == "rx" and tuple(e["src"]) == tuple(evs[k]["src"]) and not e.get("raw")]
                so = srcs.get(tuple(evs[k]["src"]))
                if prevs and so is not None and evs[k]["kind"] not in ("guc", "lsrep", "lsreq"):
                    sc.now = evs[k]["now"]
                    t_eq = (prevs[-1]["tst"] + ctx.rng.choice([0, 0, 0, -1, 1])) % M32
                    others = [q for q in so.pos if q != prevs[-1]["pos"]] or so.pos
                    evs[k] = sc.rx_event(evs[k]["kind"], src=so, tst=t_eq, pos=ctx.rng.choice(others), rhl=2, mhl=3)
                    evs[k]["same_tst"] = True
        impl, mtrace, skipped = rs.run_history(ctx, st, evs)
        oracle_history(ctx, st, evs, impl)
        for ev in evs:
            ctx.count(1, "ev_" + (ev.get("kind") or ev["ev"]) + ("_own_address" if ev.get("own") else "")
                      + ("_same_tst_as_previous" if ev.get("same_tst") else ""))
        if it == 0:
            e0 = next(e for e in evs if e["ev"] == "rx")
            ctx.sample({"event": rs._ev_repr({k: v for k, v in e0.items() if k != "dests"})})


KINDS = ["beacon", "shb", "tsb", "gbc", "gac", "guc", "lsreq", "lsrep"]


def expiry_boundaries(ctx, lives, per_life):
    """S is entered by one packet of any type whose position timestamp lies before / at / after the receiver's clock;
    packets of another station then arrive exactly at age lifetime - 1, lifetime and lifetime + 1 ms of S's position
    vector: S must be present after the first two and gone after the third (oracle: entry_lost_early / expired_kept)"""
    for life_s in lives:
        life = life_s * 1000
        for it in range(per_life):
            ego = ctx.rng.choice([(413800000, 21100000), (-338688000, 1512093000)])
            if it % 3 == 1:       # across the 2^32 ms wrap: S's timestamp before, the probes after it (or both sides)
                base = ctx.rng.randrange(100, 200) * M32 - ctx.rng.choice([1, life // 2, life, life + 1, 3])
                rs.VCLOCK.set_ms(base + rs.stack.ITS_EPOCH_MS - rs.stack.LEAP_MS)
            else:
                rs.VCLOCK.set_ms(1_700_000_000_000 + ctx.rng.randrange(0, 10 ** 9))
            st = rs.Station(area_alg=ctx.rng.choice(["CBF", "SIMPLE"]), dpl_len=8, ego=ego, life_s=life_s)
            sc = rs.Scenario(ctx.rng, st, n_sources=3, rich=True)
            S, R = sc.sources[0], sc.sources[1]
            skew = ctx.rng.choice([0, 0, 1, -1, 250, -250, 700, min(3000, life - 2), -min(3000, life - 2), 999])
            kind = KINDS[it % len(KINDS)]
            T = sc.now + skew                      # real time of S's position vector
            evs = [sc.rx_event(kind, src=S, tst=T % M32, rhl=2, mhl=2, sought=R.addr,
                               de=(R.addr, (sc.now - 50) % M32, R.pos[0][0], R.pos[0][1]))]
            evs[0]["boundary"] = "enter"
            for d in (-1, 0, 1):
                ms = (T + life + d) - sc.now
                if ms > 0:
                    evs.append({"ev": "tick", "ms": ms})
                    sc.now += ms
                pk = sc.rx_event(ctx.rng.choice(KINDS), src=R, tst=sc.now % M32, rhl=2, mhl=2, sought=S.addr)
                pk["boundary"] = "age_lifetime%+d" % d
                evs.append(pk)
            impl, mtrace, skipped = rs.run_history(ctx, st, evs)
            oracle_history(ctx, st, evs, impl)
            for e in evs:
                if str(e.get("boundary", "")).startswith("age_"):
                    ctx.count(1, "expiry_probe_" + e["boundary"] + "_entered_by_" + kind)
            ctx.nontriv(("expiry", life_s, kind, skew, it))


def stale_entry_reuse(ctx, n):
    """S is heard once (beacon / SHB: a neighbour; or a multi-hop packet), then nothing at all is received for more
    than the lifetime - so no purge runs and the expired entry is still stored - and then a packet of S arrives: S is
    known through that packet only (after a multi-hop packet: no neighbour), its old duplicate packet list is gone (a
    replay of an old sequence number is accepted again), and the entry is the one the packet describes"""
    for it in range(n):
        life_s = ctx.rng.choice([1, 5, 20])
        rs.VCLOCK.set_ms(1_700_000_000_000 + ctx.rng.randrange(0, 10 ** 9))
        st = rs.Station(area_alg=ctx.rng.choice(["CBF", "SIMPLE"]), dpl_len=ctx.rng.choice([1, 8]), life_s=life_s)
        sc = rs.Scenario(ctx.rng, st, n_sources=2, rich=True)
        S = sc.sources[0]
        first = KINDS[it % len(KINDS)]
        evs = [sc.rx_event(first, src=S, tst=sc.now % M32, rhl=2, mhl=2)]
        if ctx.rng.random() < 0.5:
            evs.append(sc.rx_event(ctx.rng.choice(KINDS[2:]), src=S, tst=(sc.now + 1) % M32, rhl=2, mhl=2))
        ms = life_s * 1000 * ctx.rng.choice([1, 2, 3]) + ctx.rng.choice([2, 50, 999])
        evs.append({"ev": "tick", "ms": ms})
        sc.now += ms
        late = sc.rx_event(ctx.rng.choice(KINDS), src=S, tst=sc.now % M32, rhl=2, mhl=2)
        evs.append(late)
        old = [e for e in evs[:2] if e["ev"] == "rx" and "sn" in e]
        if old and ctx.rng.random() < 0.5:     # replay of a packet of the first life of the entry
            rp = dict(old[-1])
            rp["now"], rp["dup_of"] = sc.now, True
            evs.append(rp)
        impl, mtrace, skipped = rs.run_history(ctx, st, evs)
        oracle_history(ctx, st, evs, impl)
        ctx.count(1, "stale_entry_then_" + late["kind"] + "_first_heard_by_" + first)
        ctx.nontriv(("stale", it, first, late["kind"], ms))


def run(ctx):
    ctx.rule = ("timestamp pairs on a boundary grid (2^k +- 2, wrap) plus seeded pairs, every comparison operator; seeded "
                "single-station histories (beacon/SHB/TSB/GBC/GAC/GUC/LS from 2-4 sources with speed, heading, flags, station type "
                "and M bit varied, duplicates, packets re-using the previous timestamp with another position, own-address packets of "
                "every type incl. the own MID under another station type, clock ticks 1 ms .. 45 s, lifetimes 1-20 s, LS "
                "retransmission limits 0-10, a quarter of them across the 2^32 ms wrap); expiry boundaries (entry made by each packet "
                "type, probes at age lifetime - 1 / lifetime / lifetime + 1 ms); silence longer than the lifetime followed by a packet "
                "of the same station; after every event the table of the real Router is checked against the property clauses and "
                "compared with the model; non-trivial = a valid fresh packet was processed; distinct by (kind, source, sn, tst, now)")
    rs.stack.patch_time()
    check_order(ctx, 2000 if ctx.tier == "quick" else 50000)
    if ctx.tier == "quick":
        histories(ctx, 100, 80)
        expiry_boundaries(ctx, (1, 5, 20), 16)
        stale_entry_reuse(ctx, 32)
    else:
        histories(ctx, 500, 150)
        expiry_boundaries(ctx, (1, 2, 5, 20, 60), 120)
        stale_entry_reuse(ctx, 400)
    ctx.exhaustive = False


def replay(ctx, data):
    f = data.get("failure") or (data.get("broken") or [{}])[-1].get("first")
    print(json.dumps(f, default=str)[:3000])
    ctx.model = common.Model(MODEL_NAME)
    ctx.rng.seed(data.get("seed", 0))
    run(ctx)
    bad = ctx.failures or ctx.mismatches or ctx.known_hits
    print("REPRODUCED" if bad else "NOT REPRODUCED")
    return 1 if bad else 0
