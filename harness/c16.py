"""C16 - LDM operations are atomic under concurrent providers, consumers and maintenance (partial).

Theorems: Properties/C16.v (obligations on the regenerated lock summary of the LDM classes; mutual exclusion, no
conflicting access and deadlock freedom for every interleaving; for every order of the atomic operations: ids unique /
fresh / never reused, nothing lost, duplicated or resurrected, at most one delete succeeds, registries last-writer,
subscriptions neither lost nor resurrected).

Run-time part: real Factory-built LDMs (Dictionary back-end; Reactive/Reactive and Thread/Thread variants, the
background threads of the latter replaced by explicit maintenance / attendance actors) are driven by the deterministic
scheduler of harness/sched.py.  For every schedule the per-thread responses and the final state are checked for
LINEARIZABILITY against the extracted sequential specification LdmConc.ldm_run (all linear extensions of program
order + real-time order are evaluated by the model), and an independent oracle written from the property text checks
ids, lost / duplicated objects, query contents, successful deletions, registries, subscriptions and notifications.
The content of the LDM at the start of a run is a generator dimension (POPULATIONS): among others the populations a
maintenance pass leaves empty, where the competing calls are placed at every scheduling point of the pass (handover).
"""
from __future__ import annotations

import itertools
import json
import threading

from . import common
from . import stack
from .stack import VCLOCK
from .ldm_common import patch_ldm_time, its_ms, simple_message, make_location, T0_UTC_MS
from .sched import Scheduler, SchedLock, SchedRLock, Deadlock, explore, one_switch

PROP = "C16"
COQ_TARGETS = ["Properties/C16", "Extract/ExC16"]
MODEL_ML = "c16_model.ml"
MODEL_NAME = "c16"
GENS = ["gen_locks_ldm"]
TRUSTED_BASE = [
    "Coq 8.16.1 kernel (coqc); vm_compute for the obligations on the regenerated lock summary; no native_compute",
    "translator tools/gen_locks_ldm.py (Python ast -> Gen/LdmLockSummary.v; every method of DictionaryDataBase and of the "
    "Thread and Reactive maintenance / service classes, resolved through the dynamic class, and every IF.LDM.3 / IF.LDM.4 "
    "call in front of the Thread/Thread and Reactive/Reactive configurations; fails closed on unknown constructs); it "
    "flattens control flow in source order, which over-approximates the accesses made under each lock",
    "extraction of LdmConc.dispatch with ExtrOcamlBasic only (no Extract Constant / Extract Inductive of our own); OCaml "
    "driver ocaml/driver_body.ml",
    "mechanised (Base/Atomic.v, for every write function of the reads): a closed critical section computes what its body "
    "computes alone; all sections of the database lock, the service lock and the reactive time-stamp locks are closed. NOT "
    "mechanised: the correspondence between source lines and the abstract Rd/Wr actions of the summary; CPython's "
    "bytecode-level switch points; the composition of several critical sections into one IF.LDM.3/4 call (examined at run "
    "time by the linearizability check, not proved)",
    "run-time part: harness/sched.py replaces threading.Lock/RLock in the LDM modules by cooperative locks and parks "
    "threads at every source line of those modules (sys.settrace); line granularity; the background threads of the Thread "
    "variants are not started, their bodies (collect_trash, attend_subscriptions) run as scheduled actors",
    "modelled, not verified: object contents are opaque tokens; filters, ordering, permissions and time validity are C12-C14",
]
ASSUMPTIONS = [
    "a garbage-collection pass is specified as atomic steps of two kinds (read the store; later remove by value each expired "
    "object it saw), not as one atomic operation, because that is what a pass is in the code; it removes nothing else and "
    "never touches the identifier counter, whatever it leaves behind; an attendance pass has no effect on the specified "
    "state, and with no other operation in flight it serves exactly the stored subscriptions when an object is stored; start populations hold 0-3 objects of which 0-2 (possibly all) have expired",
    "schedules are enumerated systematically up to 2 preemptions (bounded number of runs per scenario) and then sampled",
]
EXPLANATION = ("PARTIAL. theorems: lock discipline / single-section database methods / ranked lock order of the regenerated LDM "
               "lock summary (obligations; classes and IF.LDM.3/4 calls, whose check-then-act calls are one state-lock section), "
               "mutual exclusion, no conflicting access and deadlock freedom for any number of "
               "threads and any interleaving; for every order of atomic operations: identifiers unique, fresh, never reused; no "
               "object lost, duplicated or resurrected; at most one delete succeeds; registries decided by the last operation; "
               "subscriptions neither lost nor resurrected.  Run time: linearizability of the real LDM against the extracted "
               "sequential specification under a deterministic scheduler, plus sequential correspondence on random histories")

LDM_DIR = "flexstack/facilities/local_dynamic_map/"
TRACED = tuple(LDM_DIR + f for f in (
    "dictionary_database.py", "ldm_maintenance.py", "ldm_maintenance_thread.py", "ldm_maintenance_reactive.py",
    "ldm_service.py", "ldm_service_threads.py", "ldm_service_reactive.py", "if_ldm_3.py", "if_ldm_4.py"))

CAM = 2
PROV = 2                # provider application (CAM)
CONS = (2, 1)           # consumer applications
# the area-of-maintenance pass of the current code deletes objects NEAR the LDM position (C12 known finding KF-C12-1);
# the objects of this check sit at an altitude difference for which that pass deletes nothing, so a maintenance pass
# removes exactly the expired objects
OBJ_ALT = 5000
GC_SLOTS = 8            # a pass is (number of the call) * GC_SLOTS + (index of the expired object it removes)
AFTER_TID = -2          # thread id of the quiescent attendance passes issued after a run (the set-up is thread -1)
AFTER_PASSES = 2        # a pass may leave state behind that only the NEXT pass reads: two passes
TWIN_TOKEN = 777        # objects added with this token at the same virtual time are content-identical (only the id differs)
EXTRA = {"smc": 1, "smo": 2, "smic": 3, "ac": 0, "radius": 10, "rd": 1, "td": 0}


# ------------------------------------------------------------------------------------------------ patching
class _DummyThread:
    def __init__(self, *a, **k):
        pass

    def start(self):
        pass

    def join(self, *a):
        pass


class _ThreadingShim:
    Lock = SchedLock
    RLock = SchedRLock
    Thread = _DummyThread
    Event = threading.Event


_SAVED = {}


def install():
    import flexstack.facilities.local_dynamic_map.dictionary_database as dd
    import flexstack.facilities.local_dynamic_map.ldm_service as sv
    import flexstack.facilities.local_dynamic_map.ldm_service_threads as st
    import flexstack.facilities.local_dynamic_map.ldm_service_reactive as sr
    import flexstack.facilities.local_dynamic_map.ldm_maintenance_thread as mt
    import flexstack.facilities.local_dynamic_map.ldm_maintenance_reactive as mr
    patch_ldm_time()
    if not _SAVED:
        _SAVED["dd"] = dd.RLock
        for m in (sv, st, sr, mt, mr):
            _SAVED[m.__name__] = m.threading
    dd.RLock = SchedRLock
    for m in (sv, st, sr, mt, mr):
        m.threading = _ThreadingShim


def restore():
    import importlib
    if not _SAVED:
        return
    import flexstack.facilities.local_dynamic_map.dictionary_database as dd
    dd.RLock = _SAVED["dd"]
    for name, val in _SAVED.items():
        if name != "dd":
            importlib.import_module(name).threading = val


# ------------------------------------------------------------------------------------------------ the LDM under test
def find_token(x):
    if isinstance(x, dict):
        if "token" in x:
            return x["token"]
        for v in x.values():
            t = find_token(v)
            if t is not None:
                return t
    elif isinstance(x, (list, tuple)):
        for v in x:
            t = find_token(v)
            if t is not None:
                return t
    return None


def all_tokens(x, out):
    """every token found in a (nested) response structure"""
    if isinstance(x, dict):
        if "token" in x:
            out.append(x["token"])
        else:
            for v in x.values():
                all_tokens(v, out)
    elif isinstance(x, (list, tuple)):
        for v in x:
            all_tokens(v, out)
    return out


class World:
    """one real LDM plus the recording of every call made on it"""

    def __init__(self, variant, setup, progs=()):
        self.added = []             # every successful add: (identifier, token, virtual time of the call [ms], validity [s])
        from flexstack.facilities.local_dynamic_map.factory import LDMFactory
        from flexstack.facilities.local_dynamic_map import ldm_classes as lc
        self.lc = lc
        install()
        VCLOCK.set_ms(T0_UTC_MS)
        loc = lc.Location.initializer(latitude=0, longitude=0, altitude_value=0, relevance_distance=4)
        self.ldm = LDMFactory().create_ldm(loc, variant, variant, "Dictionary")
        self.if3, self.if4 = self.ldm.if_ldm_3, self.ldm.if_ldm_4
        self.svc, self.mnt = self.ldm.ldm_service, self.ldm.ldm_maintenance
        self.db = self.mnt.data_containers
        self.events = []            # global order of invocations / responses
        self.calls = []             # per call: dict(thread, op, atoms, inv, resp)
        self.notes = []             # notifications: (event index, subscription token, tokens)
        self.sub_ids = {}           # subscription token -> identifier returned by the LDM
        self.setup_atoms = []
        self.gc_calls = {}          # thread id -> number of maintenance passes started by that thread
        self.frozen = None          # the state at the end of the run, recorded before the aftermath
        self.after = None           # aftermath: per quiescent attendance pass the notifications [(subscription token, tokens)]
        self.after_state = None     # the state after the aftermath
        real_collect = self.mnt.collect_trash

        def counted_collect(*a, **k):
            t = self.current_tid()
            self.gc_calls[t] = self.gc_calls.get(t, 0) + 1
            return real_collect(*a, **k)
        self.mnt.collect_trash = counted_collect
        self.name_locks()
        for o in setup:
            if o[0] == "advance":
                VCLOCK.advance(o[1])
                continue
            c = self.call(-1, o)
            self.setup_atoms += c["atoms"]
        self.n_setup_events = len(self.events)
        # tokens an expired object may carry during the run (used by the text oracle only): its own token and every
        # token an update of the run may give it (an update keeps time stamp and validity: the object stays expired)
        exp = self.expired_ids()
        own = [tok for (i, tok, _t, _v) in self.added if i in exp]
        self.expired = tuple(own + sorted({o[2] for p in progs for o in p if o[0] == "upd" and o[1] in exp}))

    @staticmethod
    def current_tid():
        s = Scheduler.current
        t = s.me() if s is not None else None
        return -1 if t is None else t

    def expired_ids(self):
        """identifiers of the objects whose time validity has run out at the current virtual time (decided by the
        instant and the validity of the add: an update keeps both).  Virtual time only moves in the set-up, so this is
        the same set for every pass of a run.  Populations keep a margin of more than a second around the boundary."""
        now = VCLOCK.ms
        out = []
        for (i, _tok, t, v) in self.added:
            if t + 1000 * v + 1000 <= now:
                out.append(i)
            elif t + 1000 * v < now + 2000:
                raise ValueError("population with an object at the boundary of its time validity")
        return out

    def gc_atoms(self, slot):
        """one maintenance pass in the specification: read the store (it sees the value of every expired object), later
        remove BY VALUE what it saw, one object after the other; the steps may be separated by steps of other threads.
        Nothing else: in particular a pass never touches an object that has not expired, nor the identifier counter."""
        exp = self.expired_ids()
        assert len(exp) < GC_SLOTS
        return [(19, slot * GC_SLOTS + e, i, None) for e, i in enumerate(exp)] + \
               [(20, slot * GC_SLOTS + e, 0, None) for e, _i in enumerate(exp)]

    def name_locks(self):
        self.db._lock.name = "db._lock"
        self.svc._lock.name = "svc._lock"
        for obj, pre in ((self.svc, "svc."), (self.mnt, "mnt.")):
            for n in ("lock", "data_containers_lock"):
                if hasattr(obj, n):
                    getattr(obj, n).name = pre + n

    # every op: (kind, args...) -> executes the real call, returns the list of atoms (code, a, b, observed)
    def call(self, tid, o):
        lc = self.lc
        rec = {"thread": tid, "op": list(o), "inv": len(self.events), "atoms": [], "resp": None, "err": None}
        self.events.append(("inv", tid, o[0]))
        self.calls.append(rec)
        slot = len(self.calls)      # names the maintenance pass this call may run (distinct for concurrent calls)
        k = o[0]
        now = lc.TimestampIts(its_ms(VCLOCK.ms))
        gc_before = self.gc_calls.get(self.current_tid(), 0)
        try:
            if k == "add":            # ("add", token, validity_s)
                req = lc.AddDataProviderReq(PROV, now, make_location(0, 0, OBJ_ALT, EXTRA), simple_message(CAM, o[1]),
                                            lc.TimeValidity(o[2]))
                r = self.if3.add_provider_data(req)
                rec["atoms"] = [(17, o[1], PROV, ("id", int(r.data_object_id)))]
                if int(r.data_object_id) >= 0:
                    self.added.append((int(r.data_object_id), o[1], VCLOCK.ms, o[2]))
                if self.gc_calls.get(self.current_tid(), 0) > gc_before:
                    # the reactive maintenance ran a pass inside this call (after the insertion)
                    rec["atoms"] += self.gc_atoms(slot)
                    rec["inline_gc"] = True
            elif k == "upd":          # ("upd", id, token)
                req = lc.UpdateDataProviderReq(PROV, o[1], now, make_location(0, 0, 0, EXTRA), simple_message(CAM, o[2]),
                                               lc.TimeValidity(1000))
                r = self.if3.update_provider_data(req)
                rec["atoms"] = [(3, o[1], o[2], ("bool", 1 if int(r.result) == 0 else 0))]
            elif k == "del":          # ("del", id)
                r = self.if3.delete_provider_data(lc.DeleteDataProviderReq(PROV, o[1], now))
                rec["atoms"] = [(4, o[1], 0, ("bool", 1 if int(r.result) == 0 else 0))]
            elif k == "query":        # ("query", consumer)
                r = self.if4.request_data_objects(lc.RequestDataObjectsReq(o[1], (CAM,), None, None, None))
                rec["atoms"] = [(18, o[1], 0, ("vals", sorted(all_tokens(r.data_objects, []))))]
                rec["code"] = int(r.result)
            elif k == "gc":           # one maintenance pass
                self.mnt.collect_trash()
                rec["atoms"] = self.gc_atoms(slot)
            elif k == "attend":
                self.svc.attend_subscriptions()
                rec["atoms"] = []
            elif k == "preg":
                r = self.if3.register_data_provider(lc.RegisterDataProviderReq(o[1], (lc.AccessPermission(o[1]),), lc.TimeValidity(0)))
                rec["atoms"] = [(8, o[1], 0, ("bool", 1 if int(r.result) == 0 else 0))]
            elif k == "pdereg":
                r = self.if3.deregister_data_provider(lc.DeregisterDataProviderReq(o[1]))
                rec["atoms"] = [(9, o[1], 0, ("bool", 1 if int(r.result) == 0 else 0))]
            elif k == "psnap":
                rec["atoms"] = [(10, 0, 0, ("set", sorted(self.svc.get_data_provider_its_aid())))]
            elif k == "creg":
                r = self.if4.register_data_consumer(lc.RegisterDataConsumerReq(o[1], (lc.AccessPermission(CAM),),
                                                                               lc.GeometricArea(None, None, None)))
                rec["atoms"] = [(11, o[1], 0, ("bool", 1 if int(r.result) == 0 else 0))]
            elif k == "cdereg":
                r = self.if4.deregister_data_consumer(lc.DeregisterDataConsumerReq(o[1]))
                rec["atoms"] = [(12, o[1], 0, ("bool", 1 if int(r.ack) == 0 else 0))]
            elif k == "csnap":
                rec["atoms"] = [(13, 0, 0, ("set", sorted(self.svc.get_data_consumer_its_aid())))]
            elif k == "sub":          # ("sub", token (= priority, 0..255), consumer)
                tok = o[1]
                req = lc.SubscribeDataobjectsReq(application_id=o[2], data_object_type=(CAM,), priority=tok, filter=None,
                                                 notify_time=None, multiplicity=None, order=None)

                def cb(resp, tok=tok):
                    self.notes.append((len(self.events), tok, sorted(all_tokens(resp.data_objects, []))))
                    self.events.append(("note", tid, tok))
                r = self.if4.subscribe_data_consumer(req, cb)
                ok = int(r.result) == 0
                if ok:
                    self.sub_ids[tok] = r.subscription_id
                rec["atoms"] = [(14, tok, o[2], ("bool", 1 if ok else 0))]
            elif k == "unsub":        # ("unsub", token, consumer)
                sid = self.sub_ids.get(o[1], 987654321)
                r = self.if4.unsubscribe_data_consumer(lc.UnsubscribeDataConsumerReq(o[2], sid))
                rec["atoms"] = [(15, o[1], o[2], ("bool", 1 if int(r.result) == 0 else 0))]
            elif k == "ssnap":
                with self.svc._lock:
                    toks = [s.subscription_request.priority for s in self.svc.subscriptions]
                rec["atoms"] = [(16, 0, 0, ("set", sorted(toks)))]
            else:
                raise ValueError(k)
        except Deadlock:
            raise
        except Exception as e:  # noqa: BLE001 - "no operation raises" is part of the property
            rec["err"] = f"{type(e).__name__}: {e}"
            raise
        finally:
            rec["resp"] = len(self.events)
            self.events.append(("resp", tid, o[0]))
        return rec

    def final_state(self):
        if self.frozen is not None:
            return self.frozen
        return self.live_state()

    def aftermath(self, passes=None):
        """AFTER the run, with no operation in flight: attendance passes issued one after the other (thread AFTER_TID).
        What they deliver is the only observation of what the service believes to be subscribed - the notifications;
        state carried from one pass to the next (the last-checked map) shows here and nowhere in the stored state.  The
        state at the end of the run is recorded first: oracle and linearizability check keep judging that state."""
        self.frozen = self.live_state()
        self.after = []
        for _ in range(AFTER_PASSES if passes is None else passes):
            n0 = len(self.notes)
            self.call(AFTER_TID, ("attend",))
            self.after.append([(tok, data) for (_ev, tok, data) in self.notes[n0:]])
        self.after_state = self.live_state()

    def after_served(self):
        return None if self.after is None else [sorted(tok for tok, _d in p) for p in self.after]

    def live_state(self):
        items = sorted((int(i), find_token(d)) for i, d in self.db.database.items())
        return {"items": items, "next": int(self.db._next_id),
                "prov": sorted(self.svc.data_provider_its_aid), "cons": sorted(self.svc.data_consumer_its_aid),
                "subs": sorted(s.subscription_request.priority for s in self.svc.subscriptions)}


# ------------------------------------------------------------------------------------------------ the model side
def encode_atoms(atoms):
    a = []
    for (c, x, y, _obs) in atoms:
        a += [c, x, y]
    return a


def decode_model(flat, n_atoms, with_served=False):
    """-> (results per atom, final state) [, subscription tokens a quiescent attendance pass serves (dispatch 2)]"""
    i = 0
    res = []
    for _ in range(n_atoms):
        kind = flat[i]
        if kind == 1:
            res.append(("id", flat[i + 1])); i += 2
        elif kind == 2:
            res.append(("val", flat[i + 1])); i += 2
        elif kind == 3:
            res.append(("bool", flat[i + 1])); i += 2
        elif kind == 4:
            n = flat[i + 1]
            pairs = flat[i + 2:i + 2 + 2 * n]
            res.append(("vals", sorted(pairs[1::2]))); i += 2 + 2 * n
        elif kind == 5:
            n = flat[i + 1]
            res.append(("set", sorted(flat[i + 2:i + 2 + n]))); i += 2 + n
        else:
            raise ValueError("model output: unknown result kind %r at %d" % (kind, i))
    assert flat[i] == 99, flat[i:]
    nxt = flat[i + 1]
    n = flat[i + 2]
    pairs = flat[i + 3:i + 3 + 2 * n]
    items = sorted(zip(pairs[0::2], pairs[1::2]))
    i += 3 + 2 * n
    n = flat[i]; prov = sorted(flat[i + 1:i + 1 + n]); i += 1 + n
    n = flat[i]; cons = sorted(flat[i + 1:i + 1 + n]); i += 1 + n
    n = flat[i]; sp = flat[i + 1:i + 1 + 2 * n]; i += 1 + 2 * n
    final = {"items": [(int(a), int(b)) for a, b in items], "next": nxt, "prov": prov, "cons": cons, "subs": sorted(sp[0::2])}
    if with_served:
        assert flat[i] == 98, flat[i:]
        return res, final, sorted(flat[i + 2:i + 2 + flat[i + 1]])
    return res, final


def linear_extensions(calls, limit):
    """all orders of the calls that respect program order and real-time order (resp(a) < inv(b) => a before b)"""
    n = len(calls)
    pred = [set() for _ in range(n)]
    for i, a in enumerate(calls):
        for j, b in enumerate(calls):
            if i != j and ((a["thread"] == b["thread"] and a["inv"] < b["inv"]) or a["resp"] < b["inv"]):
                pred[j].add(i)
    out = []

    def rec(done, order):
        if len(out) >= limit:
            return
        if len(order) == n:
            out.append(list(order))
            return
        for j in range(n):
            if j not in done and pred[j] <= done:
                done.add(j)
                order.append(j)
                rec(done, order)
                order.pop()
                done.discard(j)
    rec(set(), [])
    return out, pred


def atom_sequences(calls, orders, limit):
    """a call with several atoms (gc) may interleave with the others: expand every order of calls into orders of atoms
    by letting the atoms of a multi-atom call float forward between its own position and its response"""
    seqs = []
    multi = [i for i, c in enumerate(calls) if len(c["atoms"]) > 1]
    if not multi:
        for od in orders:
            seqs.append([(i, 0) for i in od if calls[i]["atoms"]])
        return seqs
    # general case: enumerate linear extensions over ATOMS directly
    atoms = []
    for i, c in enumerate(calls):
        for k in range(len(c["atoms"])):
            atoms.append((i, k))
    n = len(atoms)
    pred = [set() for _ in range(n)]
    for x, (i, k) in enumerate(atoms):
        for y, (j, l) in enumerate(atoms):
            if x == y:
                continue
            a, b = calls[i], calls[j]
            if i == j:
                if k < l:
                    pred[y].add(x)
            elif (a["thread"] == b["thread"] and a["inv"] < b["inv"]) or a["resp"] < b["inv"]:
                pred[y].add(x)

    def rec(done, order):
        if len(seqs) >= limit:
            return
        if len(order) == n:
            seqs.append([atoms[x] for x in order])
            return
        for y in range(n):
            if y not in done and pred[y] <= done:
                done.add(y)
                order.append(y)
                rec(done, order)
                order.pop()
                done.discard(y)
    rec(set(), [])
    return seqs


# ---- search for a witness order: a Python transcription of LdmConc.ldm_step PROPOSES an order (Wing-Gong search with
# memoisation on (set of atoms done, state)); the extracted Coq model then JUDGES the proposed order.  The transcription
# is cross-checked against the model on every sequential history (relation python_spec_vs_model).
def spec_init():
    return ((), 0, (), (), (), ())      # items (id, val), next id, providers, consumers, subs (token, owner), gc (pass, val)


def spec_step(st, atom):
    """one atomic operation of the specification: (state', result); result in the format of decode_model"""
    items, nxt, prov, cons, subs, gc = st
    c, a, b = atom[0], atom[1], atom[2]
    d = dict(items)
    if c == 1 or (c == 17 and b in prov):
        return ((items + ((nxt, a),), nxt + 1, prov, cons, subs, gc), ("id", nxt))
    if c == 17:
        return (st, ("id", -1))
    if c == 2:
        return (st, ("val", d.get(a, -1)))
    if c == 3:
        if a in d:
            return ((tuple((k, b if k == a else v) for k, v in items), nxt, prov, cons, subs, gc), ("bool", 1))
        return (st, ("bool", 0))
    if c == 4:
        if a in d:
            return ((tuple((k, v) for k, v in items if k != a), nxt, prov, cons, subs, gc), ("bool", 1))
        return (st, ("bool", 0))
    if c == 5 or c == 20:
        if c == 20:
            g = dict(reversed(gc))          # lookup finds the most recent entry of the pass
            if a not in g:
                return (st, ("bool", 0))
            val = g[a]
        else:
            val = a
        out, hit = [], False
        for k, v in items:
            if not hit and v == val:
                hit = True
                continue
            out.append((k, v))
        return ((tuple(out), nxt, prov, cons, subs, gc), ("bool", 1 if hit else 0))
    if c == 6:
        return (st, ("bool", 1 if a in d else 0))
    if c == 7:
        return (st, ("vals", sorted(v for _, v in items)))
    if c == 18:
        return (st, ("vals", sorted(v for _, v in items) if a in cons else []))
    if c == 8:
        return ((items, nxt, prov if a in prov else prov + (a,), cons, subs, gc), ("bool", 1))
    if c == 9:
        return ((items, nxt, tuple(x for x in prov if x != a), cons, subs, gc), ("bool", 1 if a in prov else 0))
    if c == 10:
        return (st, ("set", sorted(prov)))
    if c == 11:
        return ((items, nxt, prov, cons if a in cons else cons + (a,), subs, gc), ("bool", 1))
    if c == 12:
        return ((items, nxt, prov, tuple(x for x in cons if x != a), tuple(x for x in subs if x[1] != a), gc),
                ("bool", 1 if a in cons else 0))
    if c == 13:
        return (st, ("set", sorted(cons)))
    if c == 14:
        if b in cons:
            return ((items, nxt, prov, cons, subs + ((a, b),), gc), ("bool", 1))
        return (st, ("bool", 0))
    if c == 15:
        if b in cons and any(x[0] == a for x in subs):
            return ((items, nxt, prov, cons, tuple(x for x in subs if x[0] != a), gc), ("bool", 1))
        return (st, ("bool", 0))
    if c == 16:
        return (st, ("set", sorted(x[0] for x in subs)))
    if c == 19:
        if b in d:
            return ((items, nxt, prov, cons, subs, ((a, d[b]),) + gc), ("bool", 1))
        return (st, ("bool", 0))
    raise ValueError(atom)


def spec_final(st):
    items, nxt, prov, cons, subs, gc = st
    return {"items": sorted((int(k), int(v)) for k, v in items), "next": nxt, "prov": sorted(prov), "cons": sorted(cons),
            "subs": sorted(x[0] for x in subs)}


def spec_served(st):
    """LdmConc.served: what a quiescent attendance pass serves in this state"""
    items, _nxt, _prov, _cons, subs, _gc = st
    return sorted(x[0] for x in subs) if items else []


def same_result(obs, r):
    return obs is None or (obs[0] == r[0] and (list(obs[1]) == list(r[1]) if isinstance(obs[1], (list, tuple)) else obs[1] == r[1]))


def find_witness(setup_atoms, calls, final):
    """-> list of (call index, atom index) explaining responses and final state, or None; complete search"""
    import sys
    st = spec_init()
    for at in setup_atoms:
        st, _ = spec_step(st, at)
    atoms = [(i, k) for i, c in enumerate(calls) for k in range(len(c["atoms"]))]
    n = len(atoms)
    idx = {x: y for y, x in enumerate(atoms)}
    pred = [0] * n
    for y, (j, l) in enumerate(atoms):
        b = calls[j]
        for x, (i, k) in enumerate(atoms):
            if x == y:
                continue
            a = calls[i]
            if (i == j and k < l) or (i != j and ((a["thread"] == b["thread"] and a["inv"] < b["inv"]) or a["resp"] < b["inv"])):
                pred[y] |= 1 << x
    full = (1 << n) - 1
    dead = set()
    order = []
    sys.setrecursionlimit(10000)

    def dfs(mask, st):
        if mask == full:
            return spec_final(st) == final
        key = (mask, st)
        if key in dead:
            return False
        for y in range(n):
            if mask >> y & 1 or pred[y] & ~mask:
                continue
            i, k = atoms[y]
            at = calls[i]["atoms"][k]
            st2, r = spec_step(st, at)
            if not same_result(at[3], r):
                continue
            order.append((i, k))
            if dfs(mask | 1 << y, st2):
                return True
            order.pop()
        dead.add(key)
        return False
    return list(order) if dfs(0, st) else None


class LinChecker:
    def __init__(self, ctx):
        self.ctx = ctx
        self.cache = {}
        self.model_calls = 0
        self.candidates = 0
        self.truncated = 0
        self.witnesses = 0
        self.pending = []           # proposed witness orders the extracted model still has to judge (one batch)

    def flush(self):
        """the extracted model judges every proposed order collected so far - the same evaluations as one call of
        judge() per history, in ONE process instead of one process per history"""
        todo, self.pending = self.pending, []
        if not todo:
            return
        outs = self.ctx.model.batch([(2, encode_atoms(atoms)) for (_inp, atoms, _ns, _sq, _obs, _final, _aft) in todo])
        self.model_calls += 1
        self.candidates += len(todo)
        for (inp, atoms, ns, sq, obs, final, aft), flat in zip(todo, outs):
            res, mfinal, mserved = decode_model(flat, len(atoms), with_served=True)
            if not (mfinal == final and all(same_result(o, r) for o, r in zip(obs, res[ns:]))):
                self.ctx.mismatch("python_spec_vs_model", inp, {"results": [list(r) for r in res[ns:]], "final": mfinal},
                                  {"order": sq, "final": final}, "the proposed order is not accepted by the extracted model")
            elif aft is not None and any(p != mserved for p in aft):
                # the state the witness order ends in decides what a quiescent attendance pass serves (LdmConc.served)
                self.ctx.mismatch("quiescent_attendance", inp, {"served": mserved, "final": mfinal}, {"served_per_pass": aft},
                                  "the attendance passes issued after the run do not serve what the specification serves "
                                  "in the final state of the witness order")

    def check(self, world, calls, limit=3000):
        """-> None when some admissible order explains responses and final state, else a description"""
        final = world.final_state()
        key = json.dumps([[c["thread"], c["atoms"], c["inv"] - world.n_setup_events, c["resp"] - world.n_setup_events]
                          for c in calls] + [final, world.setup_atoms, world.after_served()], default=str)
        # the key contains the real-time stamps, so equal keys mean equal sets of admissible orders
        if key in self.cache:
            return self.cache[key]
        inp = {"calls": [[c["thread"], c["op"], [a[3] for a in c["atoms"]], c["inv"], c["resp"]] for c in calls]}
        sq = find_witness(world.setup_atoms, calls, final)
        if sq is not None:
            self.pending.append((inp, world.setup_atoms + [calls[i]["atoms"][k] for (i, k) in sq], len(world.setup_atoms),
                                 list(sq), [calls[i]["atoms"][k][3] for (i, k) in sq], final, world.after_served()))
            self.witnesses += 1
            self.cache[key] = None
            return None
        # no witness: confirm with the model over ALL admissible orders when their number is manageable
        orders, _ = linear_extensions(calls, limit)
        seqs = atom_sequences(calls, orders, limit)
        verdict = {"orders_tried": len(seqs), "closest": None, "observed_final": final, "complete_model_enumeration": True}
        if len(seqs) >= limit:
            self.truncated += 1
            verdict["complete_model_enumeration"] = False
            seqs = seqs[:200]
        reqs = [(1, encode_atoms(world.setup_atoms + [calls[i]["atoms"][k] for (i, k) in s])) for s in seqs]
        outs = self.ctx.model.batch(reqs) if reqs else []
        self.model_calls += 1
        self.candidates += len(reqs)
        ns = len(world.setup_atoms)
        best = None
        for s, flat in zip(seqs, outs):
            res, mfinal = decode_model(flat, ns + len(s))
            bad = sum(0 if same_result(calls[i]["atoms"][k][3], r) else 1 for (i, k), r in zip(s, res[ns:]))
            fin_bad = 0 if mfinal == final else 1
            if bad == 0 and fin_bad == 0:
                self.ctx.mismatch("python_spec_vs_model", inp, {"order": s}, None,
                                  "the model accepts an order the Python search did not find")
                self.cache[key] = None
                return None
            score = bad * 2 + fin_bad
            if best is None or score < best[0]:
                best = (score, [(calls[i]["thread"], calls[i]["op"], k) for (i, k) in s], [list(r) for r in res[ns:]], mfinal)
        if best is not None:
            verdict["closest"] = {"order": best[1], "model_results": best[2], "model_final": best[3]}
        self.cache[key] = verdict
        return verdict


KF_ADD_DEREG = "add_overlaps_provider_deregistration"


def relax_adds_overlapping_deregistration(calls):
    """Diagnosis of a not linearizable history (former finding KF-C16-2, repaired by c931635: IF.LDM.3 add_provider_data
    read the provider registry and inserted afterwards, without holding the service lock in between; it is one section
    of the state lock now - obligation C16_interface_check_then_act_is_one_section - and the class below is a VIOLATION).
    -> the calls in which every add that answered with an identifier AND overlapped (in real time) a deregistration of
    its provider is specified as the unconditional insertion of the database (code 1), or None when there is no such
    add.  Nothing else is relaxed: responses, identifiers, store and registries must still be explained by one
    sequential order."""
    deregs = [c for c in calls if c["op"][0] == "pdereg" and c["op"][1] == PROV]
    out, changed = [], False
    for c in calls:
        if c["op"][0] == "add" and c["atoms"] and c["atoms"][0][0] == 17 and c["atoms"][0][3][1] >= 0 \
                and any(d["inv"] < c["resp"] and c["inv"] < d["resp"] for d in deregs):
            c = dict(c)
            a = c["atoms"][0]
            c["atoms"] = [(1, a[1], 0, a[3])] + list(c["atoms"][1:])
            changed = True
        out.append(c)
    return out if changed else None


def classify_not_linearizable(lin, world, run_calls, name):
    """-> (failure class, detail) for a history the specification does not explain"""
    relaxed = relax_adds_overlapping_deregistration(run_calls)
    if relaxed is not None and lin.check(world, relaxed) is None:
        return KF_ADD_DEREG, ("an add answered with an identifier although the deregistration of its provider completed "
                              "between its registry check and its insertion (visible to a later call of another thread); "
                              "with that add specified as check-then-insert the history has a sequential explanation")
    return f"not_linearizable:{name}", ("no sequential order of the calls (respecting program order and real-time order) "
                                        "gives these responses and this final state in the specification")


# ------------------------------------------------------------------------------------------------ oracle from the text
def oracle(world, calls, threads_exc, deadlock):
    """independent of the model: list of (class, detail, observed)"""
    bad = []
    if deadlock:
        bad.append(("deadlock", "no thread can make progress", deadlock))
    for tid, e in threads_exc:
        bad.append(("operation_raised", f"thread {tid} raised", e))
    run = [c for c in calls if c["thread"] >= 0]
    setup = [c for c in calls if c["thread"] < 0]
    fin = world.final_state()
    store = dict(fin["items"])
    # identifiers unique
    adds = [(c, c["atoms"][0][3][1]) for c in setup + run if c["op"][0] == "add" and c["atoms"]]
    ids = [i for _, i in adds if i >= 0]
    if len(ids) != len(set(ids)):
        bad.append(("id_duplicate", "two add operations returned the same identifier", sorted(ids)))
    prov_touched = any(c["op"][0] == "pdereg" and c["op"][1] == PROV for c in run)
    for c, i in adds:
        if c["thread"] >= 0 and i < 0 and not prov_touched:
            bad.append(("add_refused", "an add by a provider that stayed registered was refused", c["op"]))
    # successful deletions of one object
    dels = {}
    for c in setup + run:       # a population may already contain deleted objects (thread -1 = the set-up)
        if c["op"][0] == "del" and c["atoms"] and c["atoms"][0][3][1] == 1:
            dels.setdefault(c["op"][1], []).append(c["thread"])
    for i, who in dels.items():
        if len(who) > 1:
            bad.append(("delete_succeeded_twice", f"object {i} was reported deleted by {len(who)} delete calls", who))
    gc_tokens = set()
    if any(a[0] == 20 for c in run for a in c["atoms"]):
        gc_tokens = set(world.expired)
    named = {}
    for c in setup + run:
        if c["op"][0] in ("upd", "del"):
            named.setdefault(c["op"][1], []).append(c)
    # no added object lost / duplicated
    toks = [t for _, t in fin["items"]]
    added_n = {}
    for c, i in adds:
        if i >= 0:
            added_n[c["op"][1]] = added_n.get(c["op"][1], 0) + 1
    for t in set(toks):
        # an updated object carries the token of its update: only tokens that come from add operations are counted
        if t in added_n and toks.count(t) > added_n[t]:
            bad.append(("object_duplicated", f"token {t} is stored {toks.count(t)} times but was added {added_n[t]} times",
                        fin["items"]))
    for c, i in adds:
        tok = c["op"][1]
        if i < 0:
            continue
        if not named.get(i) and tok not in gc_tokens:
            if store.get(i) != tok:
                bad.append(("object_lost", f"object {i} (token {tok}) was added, never updated, deleted or expired, "
                            "and is not in the store at the end", fin["items"]))
    # a deleted object does not come back; an object never deleted successfully (and not expired) is still there
    for i, who in dels.items():
        if i in store:
            bad.append(("object_resurrected", f"object {i} was deleted successfully and is in the store at the end", fin["items"]))
    for c in run:
        if c["op"][0] == "upd" and c["atoms"] and c["atoms"][0][3][1] == 1:
            i = c["op"][1]
            if i not in store and i not in dels and not any(world_tok in gc_tokens for world_tok in ()):
                # updated successfully, never deleted successfully: must exist unless garbage collection took it
                tok_candidates = {cc["op"][2] for cc in named.get(i, []) if cc["op"][0] == "upd"}
                init_tok = next((cc["op"][1] for cc, ii in adds if ii == i), None)
                if not (gc_tokens & (tok_candidates | {init_tok})):
                    bad.append(("object_lost", f"object {i} was updated successfully, never deleted, and is gone", fin["items"]))
    # queries: only objects present at some instant during the call
    born = {}       # token -> (event index of the invocation that could create it)
    for c, i in adds:
        born[c["op"][1]] = min(born.get(c["op"][1], c["inv"]), c["inv"])
    for c in run:
        if c["op"][0] == "upd":
            born[c["op"][2]] = min(born.get(c["op"][2], c["inv"]), c["inv"])
    for c in run:
        if c["op"][0] != "query" or not c["atoms"]:
            continue
        got = c["atoms"][0][3][1]
        for t in set(got):
            if got.count(t) > max(1, added_n.get(t, 1)):
                bad.append(("query_duplicate", f"a query returned token {t} {got.count(t)} times; it was added "
                            f"{added_n.get(t, 0)} times", got))
        for t in got:
            if t not in born or born[t] > c["resp"]:
                bad.append(("query_phantom", f"a query returned token {t} which no operation had started to store", got))
                continue
            # removed for good before the query started?  (several objects may carry the same token: every one of them)
            ids_t = [ii for cc, ii in adds if cc["op"][1] == t and ii >= 0]
            ids_t += [cc["op"][1] for cc in run if cc["op"][0] == "upd" and cc["op"][2] == t]
            gone = [i for i in ids_t if any(d["op"][0] == "del" and d["op"][1] == i and d["atoms"] and d["atoms"][0][3][1] == 1
                                            and d["resp"] < c["inv"] for d in run)]
            if ids_t and len(gone) == len(set(ids_t)):
                bad.append(("query_stale", f"a query returned token {t} although the deletion of every object that carried it "
                            f"(ids {sorted(set(ids_t))}) had completed before the query started", got))
        # an object stored before the query started and not named by any operation must be returned
        for cc, ii in adds:
            if ii >= 0 and cc["resp"] < c["inv"] and not named.get(ii) and cc["op"][1] not in gc_tokens \
                    and cc["op"][1] not in got and c.get("code", 0) == 0:
                bad.append(("query_missed", f"a query did not return object {ii} stored before it started and never touched", got))
    # registries: when every operation naming an application agrees, the final membership is that
    for kind_reg, kind_dereg, fld in (("preg", "pdereg", "prov"), ("creg", "cdereg", "cons")):
        apps = {}
        for c in setup + run:
            if c["op"][0] in (kind_reg, kind_dereg):
                apps.setdefault(c["op"][1], []).append(c)
        for a, cs in apps.items():
            last_setup = [c for c in cs if c["thread"] < 0]
            rr = [c for c in cs if c["thread"] >= 0]
            kinds = {c["op"][0] for c in rr} or {c["op"][0] for c in last_setup[-1:]}
            if kinds == {kind_reg} and a not in fin[fld]:
                bad.append(("registration_lost", f"application {a} was only registered and is not registered at the end", fin[fld]))
            if kinds == {kind_dereg} and a in fin[fld]:
                bad.append(("registration_resurrected", f"application {a} was deregistered and is registered at the end", fin[fld]))
        # two deregistrations of one registration cannot both be acknowledged
        for a, cs in apps.items():
            rr = [c for c in cs if c["thread"] >= 0]
            acks = [c for c in rr if c["op"][0] == kind_dereg and c["atoms"] and c["atoms"][0][3][1] == 1]
            regs = [c for c in rr if c["op"][0] == kind_reg]
            if len(acks) > 1 + len(regs):
                bad.append(("deregistration_acknowledged_twice", f"{len(acks)} deregistrations of application {a} were "
                            f"acknowledged with {len(regs)} registrations in the run", [c["thread"] for c in acks]))
    # subscriptions
    subs_ok = {}
    for c in setup + run:
        if c["op"][0] == "sub" and c["atoms"] and c["atoms"][0][3][1] == 1:
            subs_ok[c["op"][1]] = c
    for tok in fin["subs"]:
        if tok not in subs_ok:
            bad.append(("subscription_phantom", f"subscription {tok} is stored but no subscribe call succeeded", fin["subs"]))
    owner = {c["op"][1]: c["op"][2] for c in setup + run if c["op"][0] == "sub"}
    for tok in fin["subs"]:
        if owner.get(tok) is not None and owner[tok] not in fin["cons"]:
            bad.append(("subscription_outlives_registration", f"subscription {tok} of application {owner[tok]} is stored "
                        "at the end although the application is not registered", fin))
    uns = {}
    for c in run:
        if c["op"][0] == "unsub" and c["atoms"] and c["atoms"][0][3][1] == 1:
            uns.setdefault(c["op"][1], []).append(c)
    for tok, cs in uns.items():
        resub = [c for c in run if c["op"][0] == "sub" and c["op"][1] == tok and c["atoms"] and c["atoms"][0][3][1] == 1]
        if len(cs) > 1 + len(resub):
            bad.append(("unsubscribe_succeeded_twice", f"subscription {tok} was reported removed by {len(cs)} calls "
                        f"with {len(resub)} subscribe calls for it in the run", [c["thread"] for c in cs]))
        if tok in fin["subs"] and not resub:
            bad.append(("subscription_resurrected", f"subscription {tok} was unsubscribed, never subscribed again, and is "
                        "stored at the end", fin["subs"]))
    for tok, c in subs_ok.items():
        ended = tok in uns or any(d["op"][0] == "cdereg" and d["op"][1] == c["op"][2] for d in run)
        if not ended and tok not in fin["subs"]:
            bad.append(("subscription_lost", f"subscription {tok} was stored, never unsubscribed, its owner never "
                        "deregistered, and it is gone", fin["subs"]))
    # notifications: only for a subscription that existed at some instant of the attendance; only objects present
    for (ev, tok, data) in world.notes:
        c = subs_ok.get(tok)        # the LAST successful subscribe call for the token; a token may be subscribed again after
        first = min((x["inv"] for x in setup + run if x["op"][0] == "sub" and x["op"][1] == tok and x["atoms"]    # its end
                     and x["atoms"][0][3][1] == 1), default=None)
        if c is None or first > ev:
            bad.append(("notification_phantom", f"a notification was delivered for subscription {tok} before any "
                        "subscribe call for it had started", data))
            continue
        att = [a for a in calls if a["op"][0] in ("attend", "add") and a["inv"] < ev and (a["resp"] is None or a["resp"] > ev)]
        start = min([a["inv"] for a in att], default=ev)
        for u in uns.get(tok, []):
            # (a subscribe call for the same token that succeeded and was not over before the unsubscription started
            # may have stored the subscription again: the notification is then explained by that order)
            again = any(r["op"][0] == "sub" and r["op"][1] == tok and r["atoms"] and r["atoms"][0][3][1] == 1
                        and r["resp"] > u["inv"] for r in run)
            if u["resp"] < start and not again:
                bad.append(("notification_after_unsubscribe", f"subscription {tok} was notified by an attendance that "
                            "started after its unsubscription had completed", data))
        for d in run:
            if d["op"][0] == "cdereg" and d["op"][1] == c["op"][2] and d["atoms"] and d["resp"] < start and c["inv"] < d["inv"]:
                bad.append(("notification_after_deregistration", f"subscription {tok} was notified by an attendance "
                            "that started after its owner's deregistration had completed", data))
        for t in data:
            if t not in born or born[t] > ev:
                bad.append(("notification_phantom_object", f"a notification carried token {t} which no operation had "
                            "started to store", data))
    bad += aftermath_oracle(world, run, fin, owner, uns)
    return bad


def aftermath_oracle(world, run, fin, owner, uns):
    """"subscriptions are neither lost nor resurrected", observed where a consumer observes it: in the notifications.
    Every attendance pass issued AFTER the run (nothing in flight: a sequential order has no freedom left) delivers one
    notification to each subscription stored at the end of the run whose owner is registered - when an object is stored -
    and none to anything else, in particular not to a subscription whose unsubscription / whose owner's deregistration
    was acknowledged during the run (however that call interleaved with an attendance pass of the run); a notification
    carries the stored objects; a pass leaves registries, subscriptions and store as they were."""
    bad = []
    if world.after is None:
        return bad
    stored_tokens = sorted(t for _i, t in fin["items"])
    expect = {}
    for tok in fin["subs"]:
        if stored_tokens and owner.get(tok) in fin["cons"]:
            expect[tok] = expect.get(tok, 0) + 1
    seen = {"served_per_pass": world.after_served(), "stored": fin["subs"]}
    for n, notes in enumerate(world.after):
        got = {}
        for tok, data in notes:
            got[tok] = got.get(tok, 0) + 1
            if tok in expect and data != stored_tokens:
                bad.append(("notification_wrong_objects", f"pass {n + 1} after the run notified subscription {tok} with objects "
                            f"other than the stored ones {stored_tokens}", data))
        for tok in sorted(set(got) | set(expect)):
            g, e = got.get(tok, 0), expect.get(tok, 0)
            if g > e and tok not in fin["subs"]:
                ended = [c["op"] for c in uns.get(tok, [])] + \
                        [d["op"] for d in run if d["op"][0] == "cdereg" and d["op"][1] == owner.get(tok) and d["atoms"]
                         and d["atoms"][0][3][1] == 1]
                if ended:
                    bad.append(("ended_subscription_served", f"subscription {tok} is not stored at the end of the run - its end "
                                f"was acknowledged ({ended}) - yet attendance pass {n + 1} issued after the run notified "
                                f"it {g} time(s): the subscription has been resurrected", seen))
                else:
                    bad.append(("unknown_subscription_served", f"attendance pass {n + 1} issued after the run notified "
                                f"subscription {tok}, which is not stored", seen))
            elif g > e:
                bad.append(("subscription_served_twice", f"attendance pass {n + 1} issued after the run notified subscription "
                            f"{tok} {g} times; it is stored {e} time(s) with a registered owner and objects to report", seen))
            elif g < e:
                bad.append(("stored_subscription_not_served", f"subscription {tok} is stored at the end of the run, its owner "
                            f"is registered and objects are stored, yet attendance pass {n + 1} issued after the run "
                            "did not notify it: the subscription has been lost", seen))
    if world.after_state != fin:
        bad.append(("attendance_changed_state", "the attendance passes issued after the run changed store, registries or "
                    "subscriptions", {"before": fin, "after": world.after_state}))
    return bad


# ------------------------------------------------------------------------------------------------ scenarios
SETUP_BASE = [("preg", PROV), ("creg", CONS[0]), ("creg", CONS[1]),
              ("add", 100, 1000), ("add", 101, 1000), ("add", 102, 1), ("sub", 50, CONS[0]), ("sub", 51, CONS[1]),
              ("advance", 5000)]          # object 2 (token 102) has expired; reactive passes are due

OPS = {
    "add": lambda n: ("add", 200 + n, 1000),
    "upd0": lambda n: ("upd", 0, 300 + n),
    "upd1": lambda n: ("upd", 1, 340 + n),
    "upd2": lambda n: ("upd", 2, 320 + n),
    "del0": lambda n: ("del", 0),
    "del1": lambda n: ("del", 1),
    "query": lambda n: ("query", CONS[0]),
    "gc": lambda n: ("gc",),
    "attend": lambda n: ("attend",),
    "preg": lambda n: ("preg", 1),
    "pdereg": lambda n: ("pdereg", PROV),
    "psnap": lambda n: ("psnap",),
    "creg": lambda n: ("creg", CONS[1]),
    "cdereg": lambda n: ("cdereg", CONS[1]),
    "csnap": lambda n: ("csnap",),
    "sub": lambda n: ("sub", 60 + n, CONS[1]),
    "unsub": lambda n: ("unsub", 51, CONS[1]),
    "ssnap": lambda n: ("ssnap",),
}


# The property quantifies over the interleavings of the calls, whatever the LDM holds when they start.  The content of
# the LDM at the start of a run (the POPULATION) is therefore a dimension of the generator of its own: how many objects
# are stored, how many of them have expired (0 .. all), whether identifiers have been handed out before.  The boundary
# populations are the ones where a maintenance pass leaves NOTHING behind (every stored object expired; the last valid
# object deleted by the run; nothing stored at all): "no added object is lost" and "identifiers are unique" must hold
# there as everywhere else.  Registrations and subscriptions are those of the base population, so every operation of
# OPS keeps its meaning; the identifiers 0, 1, 2 named by upd0 / upd2 / del0 / del1 denote whatever the population
# (or an add of the run) stored under them - possibly nothing, possibly an expired object.
def population(objects):
    return [("preg", PROV), ("creg", CONS[0]), ("creg", CONS[1])] + list(objects) + \
           [("sub", 50, CONS[0]), ("sub", 51, CONS[1]), ("advance", 5000)]


POPULATIONS = {
    "base": SETUP_BASE,                                                      # two valid objects, one expired (id 2)
    "one_expired": population([("add", 102, 1)]),                            # a pass empties the LDM
    "two_expired": population([("add", 102, 1), ("add", 103, 1)]),           # a pass empties the LDM in two removals
    "valid_and_expired": population([("add", 100, 1000), ("add", 102, 1)]),  # empty after a pass iff the run deletes id 0
    "expired_and_valid": population([("add", 102, 1), ("add", 100, 1000)]),  # the expired object holds the first id
    "all_valid": population([("add", 100, 1000), ("add", 101, 1000)]),       # a pass removes nothing
    "emptied": population([("add", 100, 1000), ("add", 101, 1000), ("del", 0), ("del", 1)]),   # ids handed out, store empty
    "never_used": population([]),                                            # nothing was ever stored
}
assert POPULATIONS["base"] == population([("add", 100, 1000), ("add", 101, 1000), ("add", 102, 1)])
# populations in which some maintenance pass of a run can end with an empty LDM
EMPTYING = ("one_expired", "two_expired", "valid_and_expired", "expired_and_valid", "emptied", "never_used")


def setup_of(inp):
    """the set-up of a recorded input: explicit list, else the named population, else the base population"""
    if inp.get("setup"):
        return [tuple(o) for o in inp["setup"]]
    return POPULATIONS[inp.get("population") or "base"]


def make_world_factory(variant, programs, setup=None):
    """programs: list (per thread) of lists of op names (keys of OPS) or explicit op tuples"""
    setup = SETUP_BASE if setup is None else setup

    def make():
        n = [0]
        progs = []
        for p in programs:
            ops = []
            for name in p:
                if isinstance(name, str):
                    ops.append(OPS[name](n[0]))
                    n[0] += 1
                else:
                    ops.append(tuple(name))
            progs.append(ops)
        w = World(variant, setup, progs)

        def body(tid):
            for o in progs[tid]:
                w.call(tid, o)
        fns = [(lambda tid=tid: body(tid)) for tid in range(len(progs))]
        return w, progs, fns
    return make


def tally(ctx, kind):
    """a second classification of a case that is already counted (histogram only)"""
    ctx.dist[kind] = ctx.dist.get(kind, 0) + 1


def handover(make_run, pairs, max_k, seen):
    """every schedule with ONE hand-over for the given ordered pairs (a, b): thread a runs k steps, thread b runs to
    completion (then the others), then a finishes - for EVERY k until a is over (at most max_k).  This places the whole
    of b's program inside each window of a's program: complete for check-then-act races between a and one competing
    operation, however late in a the window opens (sched.one_switch does the same for all ordered pairs up to a small k)."""
    for (a, b) in pairs:
        for k in range(max_k):
            run, check = make_run()
            taken = [0]

            def choose(enabled, cur, a=a, b=b, k=k):
                if taken[0] < k and a in enabled:
                    taken[0] += 1
                    return a
                if b in enabled:
                    return b
                others = [t for t in enabled if t != a]
                if others:
                    return min(others)
                return a if a in enabled else min(enabled)
            sched = run(choose)
            done_early = taken[0] < k
            key = tuple(sched)
            if key not in seen:
                seen.add(key)
                check(sched)
                yield sched, -3
            if done_early:
                break


def run_aftermath(w):
    """the quiescent attendance passes after a run that ended normally -> [] or [(thread, exception)]"""
    try:
        w.aftermath()
    except Exception as e:  # noqa: BLE001 - "no operation raises"
        return [(AFTER_TID, f"{type(e).__name__}: {e} (attendance pass issued after the run)")]
    return []


def run_scenario(ctx, lin, name, variant, programs, bound, max_runs, random_runs, setup=None, sweep=0, population=None,
                 windows=()):
    """population: name of the start content (POPULATIONS) when it is not given as an explicit set-up; windows: ordered
    pairs of threads for which every single-hand-over schedule is run before the bounded exploration"""
    if setup is None and population is not None:
        setup = POPULATIONS[population]
    mk = make_world_factory(variant, programs, setup)
    n = 0
    label = f"{name}[{variant}]"

    def make_run():
        w, progs, fns = mk()
        s = Scheduler(TRACED)
        holder = {}

        def run(choose):
            try:
                sched = s.run(fns, choose)
            except Deadlock as d:
                holder["deadlock"] = str(d)
                sched = []
            holder["actors"] = s.actors
            return sched

        def chk(sched):
            inp = {"scenario": name, "variant": variant, "programs": progs, "schedule": list(sched)}
            if population is not None:
                inp["population"] = population
            if setup is not None and setup != SETUP_BASE:
                inp["setup"] = [list(o) for o in setup]
            excs = [(a.tid, f"{type(a.exc).__name__}: {a.exc}") for a in holder["actors"] if a.exc is not None]
            calls = w.calls
            if not excs and not holder.get("deadlock"):
                excs = run_aftermath(w)
            for cls, detail, obs in oracle(w, calls, excs, holder.get("deadlock")):
                ctx.property_failure(f"{cls}:{name}", inp, detail, None, obs)
            if excs or holder.get("deadlock"):
                return
            run_calls = [c for c in calls if c["thread"] >= 0]
            v = lin.check(w, run_calls)
            if v is not None:
                cls, detail = classify_not_linearizable(lin, w, run_calls, name)
                ctx.property_failure(cls, inp, detail,
                                     v.get("closest"),
                                     {"responses": [[c["thread"], c["op"], [a[3] for a in c["atoms"]]] for c in run_calls],
                                      "final": v.get("observed_final"), "orders_tried": v["orders_tried"]})
        return run, chk

    import itertools as _it
    first = one_switch(make_run, len(programs), sweep) if sweep else ()
    wins = handover(make_run, windows, 5000, set()) if windows else ()
    for sched, nbp in _it.chain(wins, first, explore(make_run, bound, max_runs, rng=ctx.rng, random_runs=random_runs)):
        n += 1
        ctx.count(1, "schedules_" + ("pair" if name.startswith("pair_") else name.split("_")[0]) + "_" + variant)
        if nbp == -3:
            tally(ctx, "of_which_single_handover_sweep")
        if population is not None and not name.startswith("random_"):
            tally(ctx, "population_" + population)
        ctx.nontriv((label, tuple(sched)))
        if n == 1:
            ctx.sample({"scenario": label, "programs": programs, "schedule_length": len(sched)})
    return n


# ------------------------------------------------------------------------------------------------ sequential correspondence
def run_sequential(ctx, variant, names=None, concrete=None, population="base", setup=None, later=None):
    """one single-threaded history on a real LDM: text oracle, then responses and final state against the specification.
    names: symbolic operations (resolved while running: the twins' identifiers are only known then); concrete: the
    operation tuples of a replay"""
    if concrete is not None:
        pre = [[tuple(o) for o in concrete]]
        names = [None] * len(concrete)
    else:
        pre = [[OPS[n](k) for k, n in enumerate(names) if n in OPS]]
    setup = POPULATIONS[population] if setup is None else setup
    w = World(variant, setup, pre)
    atoms = list(w.setup_atoms)
    observed = []
    ops = []
    twins = []           # identifiers of the content-identical objects added in this history (same token, same time)
    err = None
    try:
        for k, name in enumerate(names):
            if concrete is not None:
                o = tuple(concrete[k])
            elif name == "addtwin":
                o = ("add", TWIN_TOKEN, 1000)
            elif name == "deltwin":
                o = ("del", twins[-1] if twins else 7)
            elif name == "updtwin":
                o = ("upd", twins[0] if twins else 7, 350 + k)
            else:
                o = OPS[name](k)
            ops.append(o)
            c = w.call(0, o)
            if name == "addtwin" and c["atoms"] and c["atoms"][0][3][1] >= 0:
                twins.append(c["atoms"][0][3][1])
            atoms += c["atoms"]
            observed += [a[3] for a in c["atoms"]]
    except Exception as e:  # noqa: BLE001
        err = f"{type(e).__name__}: {e}"
    inp = {"variant": variant, "ops": [list(o) for o in ops]}
    if setup != SETUP_BASE:
        inp["population"] = population
        inp["setup"] = [list(o) for o in setup]
    ctx.count(1, "sequential_" + variant)
    tally(ctx, "population_" + population)
    ctx.nontriv(("seq", variant, population, tuple(ops)))
    if not err:
        err = next((e for _t, e in run_aftermath(w)), None)
    if err:
        ctx.property_failure("operation_raised:sequential", inp, "a single-threaded call raised", None, err)
        return
    for cls, detail, obs in oracle(w, w.calls, [], None):
        ctx.property_failure(f"{cls}:sequential", inp, detail, None, obs)
    impl_final = w.final_state()
    n_setup = len(w.setup_atoms)

    def compare(flat):
        res, mfinal, mserved = decode_model(flat, len(atoms), with_served=True)
        pst, pres = spec_init(), []
        for at in atoms:
            pst, r = spec_step(pst, at)
            pres.append((r[0], r[1]))
        if [list(x) for x in pres] != [list(x) for x in res] or spec_final(pst) != mfinal or spec_served(pst) != mserved:
            ctx.mismatch("python_spec_vs_model", inp, [[list(x) for x in res], mfinal], [[list(x) for x in pres], spec_final(pst)])
        res = res[n_setup:]
        mres = [list(r) for r, o in zip(res, observed) if o is not None]
        ires = [list(o) for o in observed if o is not None]
        if mres != ires:
            ctx.mismatch("sequential_responses", inp, mres, ires)
        elif mfinal != impl_final:
            ctx.mismatch("sequential_final_state", inp, mfinal, impl_final)
        elif any(p != mserved for p in w.after_served()):
            ctx.mismatch("sequential_quiescent_attendance", inp, mserved, w.after_served())
    if later is None:
        compare(ctx.model.batch([(2, encode_atoms(atoms))])[0])
    else:
        later.append((encode_atoms(atoms), compare))     # the caller sends all histories to the model in one batch


def sequential_cases(ctx, lin, n_cases):
    """single-threaded random histories: responses and final state of the real LDM = the specification (correspondence)"""
    kinds = list(OPS) + ["addtwin", "addtwin", "deltwin", "updtwin"]
    fixed = [["addtwin", "addtwin", "deltwin", "query"], ["addtwin", "addtwin", "addtwin", "deltwin", "updtwin", "query", "deltwin"],
             ["addtwin", "addtwin", "updtwin", "deltwin", "query"], ["add", "addtwin", "del1", "addtwin", "deltwin", "gc", "query"]]
    plan = [(v, f, "base") for f in fixed for v in ("Reactive", "Thread")]
    # every population: calls after a maintenance pass (which may have left nothing behind), after the deletion of
    # whatever the population stored, and passes on what such calls stored
    after_pass = [["gc", "add", "query", "gc", "add", "upd0", "query"],
                  ["del0", "del1", "gc", "add", "query", "gc", "upd1", "del0", "add"]]
    plan += [(v, f, pop) for pop in POPULATIONS for f in after_pass for v in ("Reactive", "Thread")]
    pops = list(POPULATIONS)
    later = []
    for ci in range(n_cases + len(plan)):
        if ci < len(plan):
            variant, names, pop = plan[ci][0], list(plan[ci][1]), plan[ci][2]
        else:
            variant = ctx.rng.choice(["Reactive", "Thread"])
            names = [ctx.rng.choice(kinds) for _ in range(ctx.rng.randint(1, 10))]
            pop = "base" if ctx.rng.random() < 0.4 else ctx.rng.choice(pops)
        run_sequential(ctx, variant, names=names, population=pop, later=later)
    for flat, (_enc, compare) in zip(ctx.model.batch([(2, enc) for enc, _c in later]), later):
        compare(flat)


# ------------------------------------------------------------------------------------------------ entry points
PAIR_OPS = ["add", "upd0", "del0", "query", "gc", "attend", "pdereg", "preg", "cdereg", "creg", "sub", "unsub"]


# sequences in which the racing call is followed by calls that make the outcome visible / re-create the raced object
MULTI = [
    ("multi_cdereg_creg_sub", [["cdereg"], ["creg", "sub"]]),
    ("multi_cdereg_creg_sub_unsub", [["cdereg", "ssnap"], ["creg", "sub", ("unsub", 61, 1)]]),
    ("multi_unsub_sub", [["unsub", "ssnap"], [("sub", 51, 1), "ssnap"]]),
    ("multi_del_upd_query", [["del0", "query"], ["upd0", "query"]]),
    ("multi_add_add_query", [["add", "query"], ["add", "query"], ["query"]]),
    ("multi_pdereg_preg_add", [["pdereg", "psnap"], [("preg", 2), "add"]]),
    ("multi_gc_upd2_query", [["gc", "query"], ["upd2", "query"]]),
    ("multi_attend_cdereg_sub", [["attend"], ["cdereg"], ["sub", "ssnap"]]),
]


# witnesses of repaired findings that no pair / multi scenario contains, kept as regression inputs:
# (name, programs, windows (complete single-hand-over sweeps), runs of the bounded search, variants of the quick tier)
REGRESSIONS = [
    # KF-C16-2 (c931635): the deregistration of the provider and a query of the same thread fall between the registry
    # check and the insertion of an add - the add answered with an identifier and the object appeared after the query
    ("kf_add_pdereg_query", [["add"], ["pdereg", "query"]], [(0, 1)], 4, ("Thread",)),
]


# the second consumer is not registered and has no subscription when the run starts
SETUP_ONE_CONSUMER = [o for o in SETUP_BASE if o not in (("creg", CONS[1]), ("sub", 51, CONS[1]))]
MULTI_ONE_CONSUMER = [
    ("multi1_attend_creg_sub", [["attend"], ["creg", "sub", "ssnap"]]),
    ("multi1_attend_creg_sub_attend", [["attend", "attend"], ["creg", "sub"], ["ssnap"]]),
    ("multi1_add_creg_sub", [["add"], ["creg", "sub", "ssnap"]]),          # the reactive service attends inside add
]


# Scenarios on the populations in which a maintenance pass can leave the LDM empty.  Thread 0 contains the pass; the
# windows (0, 1) place the whole program of thread 1 at EVERY scheduling point of thread 0 (single hand-over, complete),
# the bounded exploration and the random schedules follow.  quick: the first entries; thorough: all, both directions.
POPULATION_SCENARIOS = [
    # (population, name, programs, variants of the quick tier)
    ("one_expired", "pop_gc_add", [["gc"], ["add"]], ("Reactive", "Thread")),
    ("valid_and_expired", "pop_delgc_add", [["del0", "gc"], ["add", "query"]], ("Reactive",)),
    ("emptied", "pop_gc_add", [["gc"], ["add"]], ("Thread",)),
    ("two_expired", "pop_gc_add", [["gc"], ["add", "query"]], ("Reactive",)),
    ("never_used", "pop_gc_add", [["gc"], ["add"]], ()),
    ("expired_and_valid", "pop_gcdel_add", [["gc", "del1"], ["add", "query"]], ()),
    ("one_expired", "pop_gc_upd", [["gc"], ["upd0", "query"]], ()),
    ("one_expired", "pop_gc_gc_add", [["gc"], ["gc"], ["add"]], ()),
    ("two_expired", "pop_gc_del_add", [["gc"], ["del0"], ["add"]], ()),
    ("all_valid", "pop_gc_deldel_add", [["gc"], ["del0", "del1"], ["add"]], ()),
    ("emptied", "pop_gc_add_add", [["gc", "query"], ["add"], ["add"]], ()),
]


# An attendance pass IN FLIGHT (thread 0: it has taken its snapshot of the subscriptions and serves them one by one)
# against the calls that end or store a subscription, the competing program placed at EVERY scheduling point of the
# pass (windows (0, 1): complete single hand-over).  What the race leaves behind in the service is judged by the passes
# that FOLLOW: a further pass inside the run where the program has one, and always the quiescent passes issued after
# the run (World.aftermath) - "neither lost nor resurrected" is a statement about every later pass, not about the
# stored list alone.  In the Reactive variant an add runs the pass inline.  quick: entries with quick variants.
ATTEND_SCENARIOS = [
    # (name, programs, variants of the quick tier)
    ("att_unsub", [["attend"], ["unsub"]], ("Thread",)),
    ("att_cdereg_creg", [["attend"], ["cdereg", "creg"]], ("Reactive",)),
    ("att_add_unsub", [["add"], ["unsub"]], ("Reactive",)),
    ("att_unsub_sub", [["attend"], ["unsub", ("sub", 51, 1)]], ()),
    ("att_sub_unsub", [["attend"], [("sub", 61, 1), ("unsub", 61, 1)]], ()),
    ("att_att_unsub", [["attend", "attend"], ["unsub", "ssnap"]], ()),
    ("att_att_cdereg_creg_sub", [["attend", "attend"], ["cdereg", "creg", ("sub", 51, 1)]], ()),
    ("att_unsub_att", [["attend"], ["unsub"], ["attend"]], ()),
    ("att_cdereg_att", [["attend"], ["cdereg"], ["attend", "ssnap"]], ()),
    ("att_add_cdereg_creg", [["add", "add"], ["cdereg", "creg"]], ()),
]


def pair_plan():
    out = []
    for i, a in enumerate(PAIR_OPS):
        for b in PAIR_OPS[i:]:
            progs = [[a], [b]]
            # observers so that the outcome is visible in a response as well as in the final state
            out.append((f"pair_{a}_{b}", progs))
    return out


def random_programs(rng):
    nt = rng.randint(2, 4)
    names = ["add", "add", "upd0", "upd1", "upd2", "del0", "del1", "query", "query", "gc", "attend", "pdereg", "preg", "cdereg",
             "creg", "sub", "unsub", "psnap", "csnap", "ssnap"]
    progs = []
    total = 0
    for t in range(nt):
        k = rng.randint(1, 4 if nt <= 2 else 3 if nt == 3 else 2)
        progs.append([rng.choice(names) for _ in range(k)])
        total += k
    # the listed finding KF-C16-1 (two threads deregistering the same provider) is examined by its own scenario in
    # every run; the random programs keep the deregistration of the provider in at most one thread
    seen = False
    for p in progs:
        if "pdereg" in p:
            if seen:
                p[:] = ["psnap" if x == "pdereg" else x for x in p]
            seen = True
    return progs


def run(ctx):
    ctx.rule = ("real LDMs (Dictionary back-end; Reactive/Reactive and Thread/Thread variants) under the deterministic "
                "line-level scheduler: (a) every pair of IF.LDM.3/IF.LDM.4 calls / maintenance pass / attendance pass from "
                "{add, update, delete, query, gc, attend, register/deregister provider and consumer, subscribe, unsubscribe} on "
                "a pre-populated LDM (3 objects, one expired; 2 subscriptions), all schedules with at most 2 preemptions up to "
                "a bound on runs, then seeded random schedules; (b) seeded random programs of 2-4 threads x 1-4 calls; (c) "
                "single-threaded random histories (correspondence); (d) the start content of the LDM is varied (populations: "
                "every stored object expired - one or two -, valid and expired in either order, nothing expired, emptied by "
                "deletions, never used): sequential histories and every other random program start from such a population, "
                "and for the populations a maintenance pass can leave EMPTY the pass runs against add / update / delete / "
                "query with the competing program placed at every scheduling point of the pass (complete single hand-over); "
                "(e) an attendance pass in flight against unsubscribe / deregister+register / subscribe, competing program at "
                "every scheduling point of the pass; every schedule and every sequential history is followed by two quiescent "
                "attendance passes whose notifications must be exactly those of the stored subscriptions. "
                "Each schedule is checked for linearizability against the "
                "extracted specification (all linear extensions of program and real-time order) and by the text oracle; a "
                "schedule is distinct by its thread-id sequence")
    quick = ctx.tier == "quick"
    lin = LinChecker(ctx)
    try:
        install()
        # known findings and corpus first
        for k in ctx.known:
            w = k.get("witness") or {}
            if "programs" in w:
                run_scenario(ctx, lin, w["scenario"], w.get("variant", "Reactive"), w["programs"], 2,
                             w.get("max_runs", 400), 0, setup=[tuple(o) for o in w["setup"]] if w.get("setup") else None,
                             population=w.get("population"), windows=[tuple(x) for x in w.get("windows", [])])
        for name, progs, wins, runs, quick_variants in REGRESSIONS:
            for variant in ("Reactive", "Thread"):
                if not quick or variant in quick_variants:
                    run_scenario(ctx, lin, name, variant, progs, 2, runs if quick else 60, 0 if quick else 20, windows=wins)
        sequential_cases(ctx, lin, 60 if quick else 600)
        for variant in ("Reactive", "Thread"):
            for name, progs in pair_plan():
                run_scenario(ctx, lin, name, variant, progs, 2, 12 if quick else 150, 3 if quick else 30)
        for variant in ("Reactive", "Thread"):
            for name, progs in MULTI:
                run_scenario(ctx, lin, name, variant, progs, 2, 25 if quick else 300, 5 if quick else 60,
                             sweep=0 if quick else 400)
            for name, progs in MULTI_ONE_CONSUMER:
                run_scenario(ctx, lin, name, variant, progs, 2, 20 if quick else 300, 5 if quick else 60,
                             setup=SETUP_ONE_CONSUMER, sweep=25 if quick else 400)
        if not getattr(ctx, "proof_ok", True) and not ctx.failures:
            # an obligation on the regenerated lock summary no longer checks: search the pair scenarios much deeper for a
            # schedule on which the real LDM misbehaves, so that the violation comes with a concrete replay
            for variant in ("Reactive", "Thread"):
                for name, progs in pair_plan() + MULTI:
                    if ctx.failures:
                        break
                    run_scenario(ctx, lin, name, variant, progs, 2, 160, 40)
        # the start content of the LDM as a dimension of its own: passes that leave nothing behind
        for variant in ("Reactive", "Thread"):
            for pop, name, progs, quick_variants in POPULATION_SCENARIOS:
                if quick and variant not in quick_variants:
                    continue
                nt = len(progs)
                wins = [(0, 1)] if quick else [(a, b) for a in range(nt) for b in range(nt) if a != b]
                run_scenario(ctx, lin, f"{name}_{pop}", variant, progs, 2, 6 if quick else 100, 2 if quick else 40,
                             population=pop, windows=wins)
        # attendance passes in flight against the end / the storing of a subscription, judged by the passes that follow
        for variant in ("Reactive", "Thread"):
            for name, progs, quick_variants in ATTEND_SCENARIOS:
                if quick and variant not in quick_variants:
                    continue
                nt = len(progs)
                wins = [(0, 1)] if quick else [(a, b) for a in range(nt) for b in range(nt) if a != b]
                run_scenario(ctx, lin, name, variant, progs, 2, 6 if quick else 100, 2 if quick else 40, windows=wins)
        n_rand = 25 if quick else 200
        pops = list(POPULATIONS)
        for i in range(n_rand):
            progs = random_programs(ctx.rng)
            variant = ctx.rng.choice(["Reactive", "Thread"])
            # every other random program starts from a population other than the base one
            pop = "base" if i % 2 == 0 else ctx.rng.choice(pops[1:])
            run_scenario(ctx, lin, f"random_{i}", variant, progs, 1, 6 if quick else 30, 6 if quick else 30,
                         population=pop)
            tally(ctx, "population_" + pop)
        lin.flush()
    finally:
        restore()
    ctx.sample({"linearizability": {"model_batches": lin.model_calls, "orders_evaluated_by_the_model": lin.candidates,
                                    "distinct_histories": len(lin.cache), "witness_orders_confirmed_by_the_model": lin.witnesses,
                                    "truncated_enumerations": lin.truncated}})
    ctx.exhaustive = False


def replay(ctx, data):
    f = data.get("failure") or (data.get("broken") or [{}])[-1].get("first") or {}
    inp = f.get("input") or {}
    print(json.dumps(f, default=str)[:3000])
    ctx.model = common.Model(MODEL_NAME)
    if "programs" not in inp and "ops" in inp:
        install()
        try:
            run_sequential(ctx, inp.get("variant", "Reactive"), concrete=inp["ops"],
                           population=inp.get("population") or "base", setup=setup_of(inp))
        finally:
            restore()
    elif "programs" not in inp:
        run(ctx)
    else:
        lin = LinChecker(ctx)
        install()
        try:
            sched = inp.get("schedule") or []
            mk = make_world_factory(inp["variant"], [[tuple(o) for o in p] for p in inp["programs"]], setup_of(inp))
            w, progs, fns = mk()
            s = Scheduler(TRACED)
            pos = [0]

            def choose(enabled, cur):
                i = pos[0]
                pos[0] += 1
                if i < len(sched) and sched[i] in enabled:
                    return sched[i]
                return cur if cur in enabled else min(enabled)
            dl = None
            try:
                s.run(fns, choose)
            except Deadlock as d:
                dl = str(d)
            excs = [(a.tid, f"{type(a.exc).__name__}: {a.exc}") for a in s.actors if a.exc is not None]
            if not excs and not dl:
                excs = run_aftermath(w)
            for cls, detail, obs in oracle(w, w.calls, excs, dl):
                ctx.property_failure(f"{cls}:{inp.get('scenario')}", inp, detail, None, obs)
            if not excs and not dl:
                run_calls = [c for c in w.calls if c["thread"] >= 0]
                v = lin.check(w, run_calls)
                if v is not None:
                    cls, detail = classify_not_linearizable(lin, w, run_calls, inp.get("scenario"))
                    ctx.property_failure(cls, inp, detail, v.get("closest"), v.get("observed_final"))
                lin.flush()
        finally:
            restore()
    bad = ctx.failures or ctx.mismatches or ctx.known_hits
    print("REPRODUCED" if bad else "NOT REPRODUCED")
    return 1 if bad else 0
