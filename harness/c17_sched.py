"""Deterministic virtual-time runner for code that does `threading.Thread(...).start()`
and `time.sleep(...)` (C17: DENMTransmissionManagement).

Each started "thread" becomes a task.  Tasks are carried by real OS threads, but
exactly one of them (or the harness) runs at any moment: a task runs until it
calls the patched `sleep` or returns, then hands control back to the scheduler,
which picks the task with the earliest wake-up time (FIFO among equal times),
sets the virtual clock to that time and resumes it.  Nothing ever waits on the
wall clock and the interleaving is a function of the inputs only.
"""
from __future__ import annotations

import heapq
import itertools
import threading

from .stack import VCLOCK


class _Abandoned(BaseException):
    pass


class _Task:
    def __init__(self, sched, target, args, kwargs, tag):
        self.sched = sched
        self.target = target
        self.args = args
        self.kwargs = kwargs
        self.tag = tag
        self.resume = threading.Event()
        self.thread = None
        self.done = False
        self.abandoned = False
        self.error = None
        self.id = next(sched._ids)

    def _body(self):
        self.resume.wait()
        self.resume.clear()
        try:
            self.target(*self.args, **self.kwargs)
        except _Abandoned:
            pass
        except BaseException as e:  # reported by the harness, never swallowed
            self.error = e
        self.done = True
        self.sched.current = None
        self.sched._yielded.set()


class VSched:
    def __init__(self):
        self._ids = itertools.count()
        self._seq = itertools.count()
        self.heap = []          # (wake_ms, seq, task)
        self.current = None     # task that is running now (None: the harness itself)
        self._yielded = threading.Event()
        self.tasks = []
        self.next_tag = None    # tag given to the next started task (set by the harness)
        self.sleeps = []        # (task tag, virtual ms at the call, seconds asked for)

    # -- what the code under test sees ---------------------------------------
    def thread_factory(self):
        sched = self

        class VThread:
            def __init__(self, group=None, target=None, name=None, args=(), kwargs=None, daemon=None):
                self._task = _Task(sched, target, tuple(args), dict(kwargs or {}), sched.next_tag)
                self.daemon = daemon

            def start(self):
                sched.tasks.append(self._task)
                heapq.heappush(sched.heap, (VCLOCK.ms, next(sched._seq), self._task))

            def join(self, timeout=None):
                raise RuntimeError("join() is not supported by the virtual scheduler")

            def is_alive(self):
                return not self._task.done

        return VThread

    def sleep(self, seconds):
        if seconds < 0:
            raise ValueError("sleep length must be non-negative")
        task = self.current
        self.sleeps.append((task.tag if task else None, VCLOCK.ms, seconds))
        ms = round(seconds * 1000)
        if abs(seconds * 1000 - ms) > 1e-6:
            raise AssertionError(f"sleep of {seconds!r} s is not a whole number of milliseconds")
        if task is None:            # called by the harness thread (inline use): just advance
            VCLOCK.advance(ms)
            return
        heapq.heappush(self.heap, (VCLOCK.ms + ms, next(self._seq), task))
        self.current = None
        self._yielded.set()
        task.resume.wait()
        task.resume.clear()
        if task.abandoned:
            raise _Abandoned()

    # -- driven by the harness -------------------------------------------------
    def _run_one(self, wake, task):
        VCLOCK.ms = max(VCLOCK.ms, wake)
        self.current = task
        self._yielded.clear()
        if task.thread is None:
            task.thread = threading.Thread(target=task._body, daemon=True)
            task.thread.start()
        task.resume.set()
        self._yielded.wait()
        if task.done:
            task.thread.join()
            if task.error is not None:
                raise task.error

    def run_until(self, ms: int):
        """run every task whose wake-up time is <= ms, then set the clock to ms"""
        while self.heap and self.heap[0][0] <= ms:
            wake, _, task = heapq.heappop(self.heap)
            self._run_one(wake, task)
        VCLOCK.ms = max(VCLOCK.ms, ms)

    def run_all(self, limit_ms: int):
        """run until no task is left (a task still alive at limit_ms is an error)"""
        while self.heap:
            wake, _, task = heapq.heappop(self.heap)
            if wake > limit_ms:
                heapq.heappush(self.heap, (wake, next(self._seq), task))
                return False
            self._run_one(wake, task)
        return True

    def abandon(self):
        """unwind unfinished tasks (their next return from sleep raises); returns how many"""
        n = 0
        while self.heap:
            _, _, task = heapq.heappop(self.heap)
            if task.done:
                continue
            n += 1
            if task.thread is None:
                task.done = True
                continue
            task.abandoned = True
            self.current = task
            self._yielded.clear()
            task.resume.set()
            self._yielded.wait()
            task.thread.join()
        self.current = None
        return n
