"""Deterministic virtual-time runner for code that does `threading.Thread(...).start()`
and `time.sleep(...)` (C17: DENMTransmissionManagement).

Each started "thread" becomes a task.  Tasks are carried by real OS threads, but
exactly one of them (or the harness) runs at any moment: a task runs until it
calls the patched `sleep` or returns, then hands control back to the scheduler,
which picks the task with the earliest wake-up time (FIFO among equal times),
sets the virtual clock to that time and resumes it.  Nothing ever waits on the
wall clock and the interleaving is a function of the inputs only.

Interleaving inside an activation (optional, seed C17-11).  A task may carry a
*cut plan* {activation index k: n}: during its k-th activation (k = 0: from the
start of the thread to its first sleep, k >= 1: from the return of the k-th sleep
to the next one) the task is suspended when it is about to execute its n-th source
line inside the traced files (`VSched.traced`: path prefixes; line events of
`sys.settrace`, switched on for that activation only).  A suspended task keeps its
virtual instant and is resumed after every ordinary task due at that instant
(priority 1 in the queue), or later when the harness holds it back across one of
its own actions (`run_until(..., hold_seq=...)`).  A cut that falls inside a
critical section (a `VLock`, the stand-in for the locks of the code under test, is held) is taken at the
first line after the lock has been released, so a suspended task never holds a
lock.  Without cut plans nothing changes: no tracing, same order as before.
"""
from __future__ import annotations

import heapq
import itertools
import sys
import threading

from .stack import VCLOCK


class _Abandoned(BaseException):
    pass


class _Task:
    def __init__(self, sched, target, args, kwargs, tag, plan=None):
        self.sched = sched
        self.target = target
        self.args = args
        self.kwargs = kwargs
        self.tag = tag
        self.plan = dict(plan or {})   # activation index -> line step at which the task is suspended
        self.activation = 0
        self.steps = 0                 # traced line events of the current activation
        self.cut_at = None
        self.tracing = False
        self.locks_held = 0
        self.resume = threading.Event()
        self.thread = None
        self.done = False
        self.abandoned = False
        self.error = None
        self.id = next(sched._ids)

    def _body(self):
        self.resume.wait()
        self.resume.clear()
        try:
            self._begin_activation(None)
            self.target(*self.args, **self.kwargs)
        except _Abandoned:
            pass
        except BaseException as e:  # reported by the harness, never swallowed
            self.error = e
        self._end_activation()
        self.done = True
        self.sched.current = None
        self.sched._yielded.set()


    # -- line-level suspension (only for activations that have a cut planned) ------
    def _begin_activation(self, frame):
        """called in the task's own thread at the start of an activation; frame: the innermost frame of
        the code under test that is already executing (None at the start of the thread)"""
        self.steps = 0
        self.cut_at = self.plan.get(self.activation)
        if self.cut_at is None and not self.sched.count_steps:
            return
        self.tracing = True
        sys.settrace(self._trace_call)
        while frame is not None:          # frames that are already running get the line tracer as well
            if self._traced(frame.f_code):
                frame.f_trace = self._trace_line
            frame = frame.f_back

    def _end_activation(self):
        if self.tracing:
            sys.settrace(None)
            self.tracing = False
            self.sched.activations.append((self.tag, self.activation, self.steps))
            if self.cut_at is not None:   # the activation had fewer lines than asked for
                self.sched.cuts.append({"tag": self.tag, "activation": self.activation, "asked": self.cut_at,
                                        "taken": None, "where": None})
                self.cut_at = None
        self.activation += 1

    def _traced(self, code):
        fn = code.co_filename
        return any(fn.startswith(p) for p in self.sched.traced)

    def _trace_call(self, frame, event, arg):
        return self._trace_line if self._traced(frame.f_code) else None

    def _trace_line(self, frame, event, arg):
        if event == "line" and self.tracing:
            self.steps += 1
            if self.cut_at is not None and self.steps >= self.cut_at and self.locks_held == 0:
                self.sched.cuts.append({"tag": self.tag, "activation": self.activation, "asked": self.cut_at,
                                        "taken": self.steps, "where": (frame.f_code.co_name, frame.f_lineno)})
                self.cut_at = None
                self.sched._preempt(self)
        return self._trace_line


class VLock:
    """stands in for threading.Lock / RLock of the code under test: the real primitive plus the count of
    locks the running task holds (a task is never suspended by a cut while it holds one)"""

    def __init__(self, sched_of, real):
        self._sched_of = sched_of
        self._real = real

    def _task(self):
        sched = self._sched_of()
        return sched.current if sched is not None else None

    def acquire(self, blocking=True, timeout=-1):
        if not self._real.acquire(False):
            # tasks run one at a time and none is suspended inside a critical section
            raise AssertionError("lock of the code under test is held by a suspended task")
        t = self._task()
        if t is not None:
            t.locks_held += 1
        return True

    def release(self):
        t = self._task()
        if t is not None and t.locks_held > 0:
            t.locks_held -= 1
        self._real.release()

    def locked(self):
        return self._real.locked()

    def __enter__(self):
        self.acquire()
        return True

    def __exit__(self, *exc):
        self.release()
        return False


class VSched:
    def __init__(self):
        self._ids = itertools.count()
        self._seq = itertools.count()
        self.heap = []          # (wake_ms, priority (1 = suspended by a cut), seq, task)
        self.current = None     # task that is running now (None: the harness itself)
        self._yielded = threading.Event()
        self.tasks = []
        self.next_tag = None    # tag given to the next started task (set by the harness)
        self.sleeps = []        # (task tag, virtual ms at the call, seconds asked for)
        self.next_plan = None   # cut plan given to the next started task (set by the harness)
        self.traced = ()        # path prefixes of the source files in which lines are counted
        self.count_steps = False  # count the lines of every activation (calibration), without suspending
        self.cuts = []          # one record per planned cut: where it was taken (None: activation too short)
        self.activations = []   # (tag, activation index, traced lines) of the traced activations

    # -- what the code under test sees ---------------------------------------
    def thread_factory(self):
        sched = self

        class VThread:
            def __init__(self, group=None, target=None, name=None, args=(), kwargs=None, daemon=None):
                self._task = _Task(sched, target, tuple(args), dict(kwargs or {}), sched.next_tag, sched.next_plan)
                self.daemon = daemon

            def start(self):
                sched.tasks.append(self._task)
                heapq.heappush(sched.heap, (VCLOCK.ms, 0, next(sched._seq), self._task))

            def join(self, timeout=None):
                raise RuntimeError("join() is not supported by the virtual scheduler")

            def is_alive(self):
                return not self._task.done

        return VThread

    def spawn(self, target, tag=None, plan=None):
        """run `target()` as a task that starts at the current virtual instant (used by the harness for a
        request that is carried out in the caller's thread and may be suspended by a cut)"""
        task = _Task(self, target, (), {}, tag, plan)
        self.tasks.append(task)
        heapq.heappush(self.heap, (VCLOCK.ms, 0, next(self._seq), task))
        return task

    def mark(self):
        """queue number: tasks suspended from now on have a number >= mark()"""
        return next(self._seq)

    def _preempt(self, task):
        """called from the line tracer in the task's thread: give way, keep the virtual instant"""
        heapq.heappush(self.heap, (VCLOCK.ms, 1, next(self._seq), task))
        self.current = None
        self._yielded.set()
        task.resume.wait()
        task.resume.clear()
        if task.abandoned:
            raise _Abandoned()

    def sleep(self, seconds):
        if seconds < 0:
            raise ValueError("sleep length must be non-negative")
        task = self.current
        self.sleeps.append((task.tag if task else None, VCLOCK.ms, seconds))
        ms = round(seconds * 1000)
        if abs(seconds * 1000 - ms) > 1e-6:
            raise AssertionError(f"sleep of {seconds!r} s is not a whole number of milliseconds")
        if task is None:            # called by the harness thread (inline use): just advance
            VCLOCK.advance(ms)
            return
        task._end_activation()
        heapq.heappush(self.heap, (VCLOCK.ms + ms, 0, next(self._seq), task))
        self.current = None
        self._yielded.set()
        task.resume.wait()
        task.resume.clear()
        if task.abandoned:
            raise _Abandoned()
        task._begin_activation(sys._getframe(1))

    # -- driven by the harness -------------------------------------------------
    def _run_one(self, wake, task):
        VCLOCK.ms = max(VCLOCK.ms, wake)
        self.current = task
        self._yielded.clear()
        if task.thread is None:
            task.thread = threading.Thread(target=task._body, daemon=True)
            task.thread.start()
        task.resume.set()
        self._yielded.wait()
        if task.done:
            task.thread.join()
            if task.error is not None:
                raise task.error

    def run_until(self, ms: int, hold_seq=None, strict=False):
        """run every task whose wake-up time is <= ms (strict: < ms), then set the clock to ms.
        hold_seq: tasks suspended by a cut at the instant ms itself with a queue number >= hold_seq stay
        suspended (the harness is about to act at that instant)"""
        kept = []
        while self.heap and (self.heap[0][0] < ms or (self.heap[0][0] == ms and not strict)):
            entry = heapq.heappop(self.heap)
            wake, prio, seq, task = entry
            if hold_seq is not None and prio == 1 and wake == ms and seq >= hold_seq:
                kept.append(entry)
                continue
            self._run_one(wake, task)
        for entry in kept:
            heapq.heappush(self.heap, entry)
        VCLOCK.ms = max(VCLOCK.ms, ms)

    def run_all(self, limit_ms: int):
        """run until no task is left (a task still alive at limit_ms is an error)"""
        while self.heap:
            wake, prio, _, task = heapq.heappop(self.heap)
            if wake > limit_ms:
                heapq.heappush(self.heap, (wake, prio, next(self._seq), task))
                return False
            self._run_one(wake, task)
        return True

    def abandon(self):
        """unwind unfinished tasks (their next return from sleep raises); returns how many"""
        n = 0
        while self.heap:
            _, _, _, task = heapq.heappop(self.heap)
            if task.done:
                continue
            n += 1
            if task.thread is None:
                task.done = True
                continue
            task.abandoned = True
            self.current = task
            self._yielded.clear()
            task.resume.set()
            self._yielded.wait()
            task.thread.join()
        self.current = None
        return n
