"""C02 - emitted packets and header codecs conform to the ETSI wire formats."""
from __future__ import annotations

import json

from . import common
from . import stack
from .stack import (CaptureLL, make_router, set_ego, gn_addr, pack, lpv_fields, spv_fields, gn_addr_fields,
                    basic_fields, common_fields, VCLOCK)

PROP = "C02"
COQ_TARGETS = ["Properties/C02", "Extract/ExC02"]
MODEL_ML = "c02_model.ml"
GENS = ["gen_c02", "gen_src_geonet"]
MODEL_NAME = "c02"
TRUSTED_BASE = [
    "Coq 8.16.1 kernel (coqc); vm_compute only in the width-table side conditions (Forall / mod 8) ; no native_compute",
    "extraction (ExtrOcamlBasic only; Z/positive stay Coq datatypes) + ocaml/driver_body.ml + OCaml 4.13.1",
    "hand-written model coq/theories/Model/Wire.v (layout tables of EN 302 636-4-1 clause 9 / 5-1 clause 7), "
    "tied to the code by differential execution of every header codec and of a real Router + BTP router",
    "Python harness harness/c02.py, harness/stack.py (independent reference encoder used as the property oracle)",
    "translator tools/pyz.py + tools/gen_src_geonet.py (Python ast -> Gallina, fail-closed): encode_to_int / encode of "
    "BasicHeader, CommonHeader, TrafficClass, GNAddress, Long/ShortPositionVector, BTP-A/B, TSB/GBC/GUC/LS extended "
    "headers and BasicHeader.decode_from_int are regenerated from the source on every run (Gen/SrcGeonet.v) and proved "
    "to produce the layout tables of Model/Wire.v for all in-range field values (C02_source_* theorems); the translator's "
    "reading of Python semantics (unbounded ints, <<, |, &, to_bytes raising OverflowError out of range) is trusted",
]
ASSUMPTIONS = [
    "the header encoders named in the trusted base are tied to the model by proof over their regenerated translation; "
    "the remaining decoders, the packet assembly in the router and the BTP router are tied by execution on the same inputs",
    "wide fields (MID 48 bit, TST/lat/lon 32 bit) are sampled with boundary bias; fields up to 16 bits are swept "
    "exhaustively in the thorough tier",
    "decoders are compared on conformant packets and on arbitrary octets; re-encoding of received headers whose "
    "reserved bits are non-zero is outside the property (conformant encoders send zero)",
]
EXPLANATION = ("generic pack/unpack round-trip theorems instantiated for every header layout (decode(encode h) = h, "
               "encode(decode bytes) = bytes on reserved-zero input, injectivity, sizes, two's complement), packet "
               "builders for beacon/SHB/GBC/GAC/GUC/LS; correspondence of every codec and of emitted packets")

BIG = {32: [0, 1, 2, 2 ** 31 - 1, 2 ** 31, 2 ** 31 + 1, 2 ** 32 - 2, 2 ** 32 - 1],
       48: [0, 1, 0xFFFFFFFFFFFF, 0x800000000000, 0x7FFFFFFFFFFF, 0x0A0B0C0D0E0F]}


def signed_vals(w):
    return [0, 1, -1, 2, -2, 2 ** (w - 1) - 1, -2 ** (w - 1), 2 ** (w - 2), -2 ** (w - 2), 123456 % 2 ** (w - 2),
            -(654321 % 2 ** (w - 2))]


# --------------------------------------------------------------------------- implementation adapters
def impl_classes():
    from flexstack.geonet.basic_header import BasicHeader, BasicNH, LT, LTbase
    from flexstack.geonet.common_header import CommonHeader
    from flexstack.geonet.service_access_point import (CommonNH, HeaderType, HeaderSubType, GeoBroadcastHST,
                                                       GeoAnycastHST, TopoBroadcastHST, LocationServiceHST,
                                                       TrafficClass)
    from flexstack.geonet.gn_address import GNAddress, M, ST, MID
    from flexstack.geonet.position_vector import LongPositionVector, ShortPositionVector, TST
    from flexstack.geonet.gbc_extended_header import GBCExtendedHeader
    from flexstack.geonet.tsb_extended_header import TSBExtendedHeader
    from flexstack.geonet.guc_extended_header import GUCExtendedHeader
    from flexstack.geonet.ls_extended_header import LSRequestExtendedHeader, LSReplyExtendedHeader
    from flexstack.btp.btp_header import BTPAHeader, BTPBHeader
    return locals()


def hst_enum(K, ht, hst):
    if ht == 4:
        return K["GeoBroadcastHST"](hst)
    if ht == 3:
        return K["GeoAnycastHST"](hst)
    if ht == 5:
        return K["TopoBroadcastHST"](hst)
    if ht == 6:
        return K["LocationServiceHST"](hst)
    return K["HeaderSubType"](hst)


def mk_addr(K, v):
    return K["GNAddress"](m=K["M"](v[0]), st=K["ST"](v[1]), mid=K["MID"](v[2].to_bytes(6, "big")))


def mk_lpv(K, v):
    return K["LongPositionVector"](gn_addr=mk_addr(K, v[0:3]), tst=K["TST"](msec=v[3]), latitude=v[4], longitude=v[5],
                                   pai=bool(v[6]), s=v[7], h=v[8])


def mk_spv(K, v):
    return K["ShortPositionVector"](gn_addr=mk_addr(K, v[0:3]), tst=K["TST"](msec=v[3]), latitude=v[4], longitude=v[5])


def addr_view(a):
    return [a.m.value, a.st.value, int.from_bytes(a.mid.mid, "big")]


def lpv_view(p):
    return addr_view(p.gn_addr) + [p.tst.msec, p.latitude, p.longitude, int(p.pai), p.s, p.h]


def spv_view(p):
    return addr_view(p.gn_addr) + [p.tst.msec, p.latitude, p.longitude]


def impl_encode(K, kind, v):
    if kind == "basic":
        return K["BasicHeader"](version=v[0], nh=K["BasicNH"](v[1]), reserved=v[2],
                                lt=K["LT"](multiplier=v[3], base=K["LTbase"](v[4])), rhl=v[5]).encode_to_bytes()
    if kind == "common":
        return K["CommonHeader"](nh=K["CommonNH"](v[0]), ht=K["HeaderType"](v[1]), hst=hst_enum(K, v[1], v[2]),
                                 tc=K["TrafficClass"](scf=bool(v[3]), channel_offload=bool(v[4]), tc_id=v[5]),
                                 flags=v[6], pl=v[7], mhl=v[8], reserved=v[9]).encode_to_bytes()
    if kind == "gnaddr":
        return mk_addr(K, v).encode()
    if kind == "lpv":
        return mk_lpv(K, v).encode()
    if kind == "spv":
        return mk_spv(K, v).encode()
    if kind == "tsb":
        return K["TSBExtendedHeader"](sn=v[0], reserved=v[1], so_pv=mk_lpv(K, v[2:11])).encode()
    if kind == "gbc":
        return K["GBCExtendedHeader"](sn=v[0], reserved=v[1], so_pv=mk_lpv(K, v[2:11]), latitude=v[11], longitude=v[12],
                                      a=v[13], b=v[14], angle=v[15], reserved2=v[16]).encode()
    if kind == "guc":
        return K["GUCExtendedHeader"](sn=v[0], reserved=v[1], so_pv=mk_lpv(K, v[2:11]), de_pv=mk_spv(K, v[11:17])).encode()
    if kind == "lsrep":
        return K["LSReplyExtendedHeader"](sn=v[0], reserved=v[1], so_pv=mk_lpv(K, v[2:11]),
                                          de_pv=mk_spv(K, v[11:17])).encode()
    if kind == "lsreq":
        return K["LSRequestExtendedHeader"](sn=v[0], reserved=v[1], so_pv=mk_lpv(K, v[2:11]),
                                            request_gn_addr=mk_addr(K, v[11:14])).encode()
    if kind == "btpa":
        return K["BTPAHeader"](destination_port=v[0], source_port=v[1]).encode()
    if kind == "btpb":
        return K["BTPBHeader"](destination_port=v[0], destination_port_info=v[1]).encode()
    raise KeyError(kind)


def impl_decode(K, kind, bs: bytes):
    """-> list of view fields, or None when the decoder raises"""
    try:
        if kind == "basic":
            h = K["BasicHeader"].decode_from_bytes(bs)
            return [h.version, h.nh.value, h.reserved, h.lt.multiplier, h.lt.base.value, h.rhl]
        if kind == "common":
            h = K["CommonHeader"].decode_from_bytes(bs)
            return [h.nh.value, h.ht.value, h.hst.value, int(h.tc.scf), int(h.tc.channel_offload), h.tc.tc_id,
                    h.flags, h.pl, h.mhl, h.reserved]
        if kind == "gnaddr":
            return addr_view(K["GNAddress"].decode(bs))
        if kind == "lpv":
            return lpv_view(K["LongPositionVector"].decode(bs))
        if kind == "spv":
            return spv_view(K["ShortPositionVector"].decode(bs))
        if kind == "tsb":
            h = K["TSBExtendedHeader"].decode(bs)
            return [h.sn, h.reserved] + lpv_view(h.so_pv)
        if kind == "gbc":
            h = K["GBCExtendedHeader"].decode(bs)
            return [h.sn, h.reserved] + lpv_view(h.so_pv) + [h.latitude, h.longitude, h.a, h.b, h.angle, h.reserved2]
        if kind == "guc":
            h = K["GUCExtendedHeader"].decode(bs)
            return [h.sn, h.reserved] + lpv_view(h.so_pv) + spv_view(h.de_pv)
        if kind == "lsrep":
            h = K["LSReplyExtendedHeader"].decode(bs)
            return [h.sn, h.reserved] + lpv_view(h.so_pv) + spv_view(h.de_pv)
        if kind == "lsreq":
            h = K["LSRequestExtendedHeader"].decode(bs)
            return [h.sn, h.reserved] + lpv_view(h.so_pv) + addr_view(h.request_gn_addr)
        if kind == "btpa":
            h = K["BTPAHeader"].decode(bs)
            return [h.destination_port, h.source_port]
        if kind == "btpb":
            h = K["BTPBHeader"].decode(bs)
            return [h.destination_port, h.destination_port_info]
    except Exception:
        return None
    raise KeyError(kind)


# --------------------------------------------------------------------------- reference (oracle) encoders
def ref_encode(kind, v) -> bytes:
    if kind == "basic":
        return pack([(4, v[0]), (4, v[1]), (8, v[2]), (6, v[3]), (2, v[4]), (8, v[5])])
    if kind == "common":
        return pack([(4, v[0]), (4, 0), (4, v[1]), (4, v[2]), (1, v[3]), (1, v[4]), (6, v[5]), (8, v[6]), (16, v[7]),
                     (8, v[8]), (8, v[9])])
    if kind == "gnaddr":
        return pack(gn_addr_fields(*v))
    if kind == "lpv":
        return pack(lpv_fields(tuple(v[0:3]), *v[3:9]))
    if kind == "spv":
        return pack(spv_fields(tuple(v[0:3]), *v[3:6]))
    if kind == "tsb":
        return pack([(16, v[0]), (16, v[1])] + lpv_fields(tuple(v[2:5]), *v[5:11]))
    if kind == "gbc":
        return pack([(16, v[0]), (16, v[1])] + lpv_fields(tuple(v[2:5]), *v[5:11])
                    + [(32, v[11]), (32, v[12]), (16, v[13]), (16, v[14]), (16, v[15]), (16, v[16])])
    if kind in ("guc", "lsrep"):
        return pack([(16, v[0]), (16, v[1])] + lpv_fields(tuple(v[2:5]), *v[5:11]) + spv_fields(tuple(v[11:14]), *v[14:17]))
    if kind == "lsreq":
        return pack([(16, v[0]), (16, v[1])] + lpv_fields(tuple(v[2:5]), *v[5:11]) + gn_addr_fields(*v[11:14]))
    if kind in ("btpa", "btpb"):
        return pack([(16, v[0]), (16, v[1])])
    raise KeyError(kind)


ENC_CMD = {"basic": 1, "common": 3, "lpv": 5, "spv": 7, "gbc": 9, "tsb": 11, "guc": 13, "lsrep": 13, "lsreq": 15,
           "btpa": 19, "btpb": 19, "gnaddr": 21}
DEC_CMD = {k: v + 1 for k, v in ENC_CMD.items()}

# field descriptors per view: (name, width, signed, valid values or None)
ADDR = [("m", 1, False, None), ("st", 5, False, list(range(13))), ("mid", 48, False, None)]
LPV = ADDR + [("tst", 32, False, None), ("lat", 32, True, None), ("lon", 32, True, None), ("pai", 1, False, None),
              ("s", 15, True, None), ("h", 16, False, None)]
SPV = ADDR + [("tst", 32, False, None), ("lat", 32, True, None), ("lon", 32, True, None)]
SN = [("sn", 16, False, None), ("reserved", 16, False, [0])]
VIEWS = {
    "basic": [("version", 4, False, None), ("nh", 4, False, [0, 1, 2]), ("reserved", 8, False, None),
              ("lt_mult", 6, False, None), ("lt_base", 2, False, None), ("rhl", 8, False, None)],
    "common": [("nh", 4, False, [0, 1, 2, 3]), ("ht", 4, False, None), ("hst", 4, False, None),
               ("scf", 1, False, None), ("offload", 1, False, None), ("tcid", 6, False, None),
               ("flags", 8, False, [0, 128]), ("pl", 16, False, None), ("mhl", 8, False, None),
               ("reserved", 8, False, [0])],
    "gnaddr": ADDR, "lpv": LPV, "spv": SPV,
    "tsb": SN + LPV,
    "gbc": SN + LPV + [("alat", 32, True, None), ("alon", 32, True, None), ("a", 16, False, None),
                       ("b", 16, False, None), ("angle", 16, False, None), ("reserved2", 16, False, [0])],
    "guc": SN + LPV + SPV, "lsrep": SN + LPV + SPV, "lsreq": SN + LPV + ADDR,
    "btpa": [("dport", 16, False, None), ("sport", 16, False, None)],
    "btpb": [("dport", 16, False, None), ("dpinfo", 16, False, None)],
}
HT_HST = [(0, 0), (1, 0), (2, 0), (3, 0), (3, 1), (3, 2), (4, 0), (4, 1), (4, 2), (5, 0), (5, 1), (6, 0), (6, 1)]


def field_values(ctx, desc, exhaustive: bool):
    name, w, signed, valid = desc
    if valid is not None:
        return list(valid)
    if w <= 16 and (exhaustive or w <= 8):
        rng = range(-2 ** (w - 1), 2 ** (w - 1)) if signed else range(2 ** w)
        return list(rng)
    if w <= 16:
        base = signed_vals(w) if signed else [0, 1, 2, 2 ** w - 1, 2 ** w - 2, 2 ** (w - 1), 2 ** (w - 1) - 1, 255, 256]
        lo, hi = (-2 ** (w - 1), 2 ** (w - 1)) if signed else (0, 2 ** w)
        return sorted(set(base + [ctx.rng.randrange(lo, hi) for _ in range(48)]))
    if signed:
        return signed_vals(w) + [ctx.rng.randrange(-2 ** (w - 1), 2 ** (w - 1)) for _ in range(12)]
    return BIG[w] + [ctx.rng.randrange(0, 2 ** w) for _ in range(12)]


def random_view(ctx, kind):
    v = []
    for (name, w, signed, valid) in VIEWS[kind]:
        if valid is not None:
            v.append(ctx.rng.choice(valid))
        elif signed:
            v.append(ctx.rng.randrange(-2 ** (w - 1), 2 ** (w - 1)))
        else:
            v.append(ctx.rng.randrange(0, 2 ** w))
    if kind == "common":
        ht, hst = ctx.rng.choice(HT_HST)
        v[1], v[2] = ht, hst
    return v


def codec_cases(ctx, K, exhaustive):
    """per-field sweeps: one field varies, the others sit at a seeded context"""
    for kind, descs in VIEWS.items():
        cases = []
        contexts = [random_view(ctx, kind) for _ in range(2)]
        zero = [0 if d[3] is None else d[3][0] for d in descs]
        contexts.append(zero)
        for base in contexts:
            for i, d in enumerate(descs):
                if kind == "common" and d[0] in ("ht", "hst"):
                    continue
                for val in field_values(ctx, d, exhaustive):
                    v = list(base)
                    v[i] = val
                    cases.append(v)
            if kind == "common":
                for ht, hst in HT_HST:
                    v = list(base)
                    v[1], v[2] = ht, hst
                    cases.append(v)
        run_codec_cases(ctx, K, kind, cases)


def run_codec_cases(ctx, K, kind, cases):
    enc_impl = []
    for v in cases:
        try:
            enc_impl.append(impl_encode(K, kind, v))
        except Exception as e:  # an encoder that cannot encode an in-range value
            enc_impl.append(("exc", type(e).__name__))
    ctx.count(len(cases), "enc_" + kind)
    model_enc = ctx.model.batch((ENC_CMD[kind], v) for v in cases) if ctx.model.available else [None] * len(cases)
    dec_reqs = []
    for v, got, m in zip(cases, enc_impl, model_enc):
        ref = ref_encode(kind, v)
        inp = {"op": "encode", "header": kind, "fields": v}
        if isinstance(got, tuple):
            ctx.property_failure("enc_" + kind, inp, f"encoder raised {got[1]} on in-range field values",
                                 ref.hex(), got[1])
        else:
            if got != ref:
                ctx.property_failure("enc_" + kind, inp, "encoded octets differ from the ETSI layout", ref.hex(), got.hex())
            if m is not None and bytes(m) != got:
                ctx.mismatch(f"{kind}.encode = Wire.enc_{kind}", inp, bytes(m).hex(), got.hex())
        # decoder on the conformant encoding
        dec = impl_decode(K, kind, ref)
        inp2 = {"op": "decode", "header": kind, "octets": ref.hex(), "fields": v}
        want = list(v)
        if kind == "common":
            want[6] = v[6] & 128
        if dec != want:
            ctx.property_failure("dec_" + kind, inp2, "decoder does not return the field values that were encoded",
                                 want, dec)
        dec_reqs.append((DEC_CMD[kind], list(ref)))
        ctx.nontriv((kind, tuple(v)))
    ctx.count(len(cases), "dec_" + kind)
    if ctx.model.available:
        for v, r in zip(cases, ctx.model.batch(dec_reqs)):
            ref = ref_encode(kind, v)
            dec = impl_decode(K, kind, ref)
            mdec = r[1:] if r and r[0] == 1 else None
            if mdec != dec:
                ctx.mismatch(f"{kind}.decode = Wire.dec_{kind}", {"op": "decode", "header": kind, "octets": ref.hex()},
                             mdec, dec)
    if cases:
        ctx.sample({"header": kind, "fields": cases[len(cases) // 2], "octets": ref_encode(kind, cases[len(cases) // 2]).hex()})


SIZES = {"basic": 4, "common": 8, "gnaddr": 8, "lpv": 24, "spv": 20, "tsb": 28, "gbc": 44, "guc": 48, "lsrep": 48,
         "lsreq": 36, "btpa": 4, "btpb": 4}


def decoder_stream(ctx, K, n):
    """arbitrary octets (random, enum-boundary, truncated) through every decoder: model and code must agree on
    accept/reject and on the decoded values"""
    for kind, size in SIZES.items():
        if kind == "spv":
            lens = [size]          # ShortPositionVector.decode has no length check of its own; callers slice 20 octets
        elif kind in ("btpa", "btpb"):
            lens = [size, size + 3]
        else:
            lens = [size, size, size, size - 1, size + 5, 0, max(0, size - 9)]
        inputs = []
        for _ in range(n):
            ln = ctx.rng.choice(lens)
            bs = bytes(ctx.rng.randrange(256) for _ in range(ln))
            if ln >= size and ctx.rng.random() < 0.5:
                # make it mostly valid: valid enum codes with boundary bias
                b = bytearray(bs)
                if kind == "basic":
                    b[0] = (b[0] & 0xF0) | ctx.rng.choice([0, 1, 2, 2, 1, 3])
                elif kind == "common":
                    ht, hst = ctx.rng.choice(HT_HST + [(7, 0), (4, 3), (5, 2), (1, 1)])
                    b[0] = (ctx.rng.choice([0, 1, 2, 3, 4]) << 4) | (b[0] & 0xF)
                    b[1] = ht << 4 | hst
                else:
                    off = 0 if kind in ("gnaddr", "lpv", "spv") else 4
                    if kind not in ("btpa", "btpb"):
                        b[off] = (b[off] & 0x83) | (ctx.rng.choice(list(range(13)) + [12, 13, 31]) << 2)
                bs = bytes(b)
            inputs.append(bs)
        impl = [impl_decode(K, kind, bs) for bs in inputs]
        ctx.count(len(inputs), "decstream_" + kind)
        if ctx.model.available:
            res = ctx.model.batch((DEC_CMD[kind], list(bs)) for bs in inputs)
            for bs, i, r in zip(inputs, impl, res):
                m = r[1:] if r and r[0] == 1 else None
                if m != i:
                    ctx.mismatch(f"{kind}.decode = Wire.dec_{kind}", {"op": "decode", "header": kind, "octets": bs.hex()}, m, i)
        for bs, i in zip(inputs, impl):
            if i is not None:
                ctx.nontriv((kind, bs))


# --------------------------------------------------------------------------- packets emitted by a real stack
def ego_values(ctx, n):
    pts = [(413800000, 21100000), (-338688000, 1512093000), (-900000000, -1800000000), (900000000, 1800000000),
           (0, 0), (-1, -1), (515000000, -1278000), (-2147483648, 2147483647)]
    out = []
    for i in range(n):
        lat, lon = pts[i % len(pts)] if i < len(pts) else (ctx.rng.randrange(-900000000, 900000001),
                                                           ctx.rng.randrange(-1800000000, 1800000001))
        out.append(dict(lat=lat, lon=lon, pai=ctx.rng.random() < 0.8, s=ctx.rng.choice([0, 1, -1, 16383, -16384, 1234, -300]),
                        h=ctx.rng.choice([0, 1, 3599, 65535, 900])))
    return out


def packet_cases(ctx, n_ego, payload_lens):
    from flexstack.btp.router import Router as BTPRouter
    from flexstack.btp.service_access_point import BTPDataRequest
    from flexstack.geonet.service_access_point import (PacketTransportType, HeaderType, TopoBroadcastHST, GeoBroadcastHST,
                                                       GeoAnycastHST, Area, CommonNH, TrafficClass)
    from flexstack.geonet.mib import GnIsMobile, AreaForwardingAlgorithm
    reqs, meta = [], []

    def expect(kind, inp, got: bytes, ref: bytes, cmd, margs):
        """cmd None: oracle only (no Wire function for this packet)"""
        ctx.count(1, "pkt_" + kind)
        if got is None:
            ctx.property_failure("pkt_" + kind, inp, "no packet was emitted for the request", ref.hex(), None)
            return
        if got != ref:
            cls = "pkt_" + kind
            diff = [i for i in range(min(len(got), len(ref))) if got[i] != ref[i]]
            if kind == "beacon" and len(got) == len(ref) and diff == [7] and got[7] == 0x01 and ref[7] == 0x80:
                cls = "beacon_mobile_flag_in_bit0"
            ctx.property_failure(cls, inp, "emitted packet differs octet-wise from the ETSI layout"
                                 + (f" at octets {diff[:8]}" if diff else " in length"), ref.hex(), got.hex())
        if cmd is not None:
            reqs.append((cmd, margs))
            meta.append((kind, inp, got))
        ctx.nontriv((kind, got))

    def call(kind, what, fn, *a):
        try:
            fn(*a)
        except Exception as e:  # the stack must not raise on a valid request / valid frame
            ctx.property_failure("pkt_" + kind + "_exception", what, f"{type(e).__name__}: {e}", "packet", None)

    for ei, ego in enumerate(ego_values(ctx, n_ego)):
        mobile = ei % 3 != 1
        dflt_hl = [10, 3, 255][ei % 3]
        dflt_lt = [60, 5, 600][ei % 3]
        st = [5, 12, 1, 0][ei % 4]
        my_m = 1 if ei % 5 == 3 else 0          # M bit of the own GN address (manually configured address)
        my_mid = 0x0A0B0C0D0E01 + ei
        ll = CaptureLL()
        router = make_router(ll, local_mid=my_mid, default_hop_limit=dflt_hl, st=st, mib_kw=dict(
            itsGnLocalGnAddr=gn_addr(my_mid, st, my_m),
            itsGnIsMobile=GnIsMobile.MOBILE if mobile else GnIsMobile.STATIONARY,
            itsGnDefaultPacketLifetime=dflt_lt, itsGnAreaForwardingAlgorithm=AreaForwardingAlgorithm.SIMPLE))
        VCLOCK.set_ms(1_700_000_000_000 + ei * 7919)
        tst = VCLOCK.its_ms() % 2 ** 32
        set_ego(router, ego["lat"], ego["lon"], pai=ego["pai"], s=ego["s"], h=ego["h"], tst=tst)
        btp = BTPRouter(router)
        btp.freeze_callbacks()
        me = (my_m, st, my_mid)
        ego_view = list(me) + [tst, ego["lat"], ego["lon"], int(ego["pai"]), ego["s"], ego["h"]]
        mib_view = [int(mobile), dflt_lt, dflt_hl]
        egoinp = {"ego": ego_view, "mib": {"mobile": mobile, "default_hop_limit": dflt_hl, "default_lifetime_s": dflt_lt}}
        sn = 0
        if ei % 4 == 2:
            # a station that has been up for a while: its sequence number is about to wrap (EN 302 636-4-1 8.3:
            # SN(P) = (SN(P-1) + 1) mod (2^16 - 1)) while the packets below are sent
            sn = router.sequence_number = 65534 - ctx.rng.randrange(1, 12)
            ctx.count(1, "station_with_sequence_number_before_wrap")
        # a neighbour that is also the unicast destination
        peer = (0, 7, 0x0A0B0C0D0F00 + ei)
        peer_pv = (tst - 5, ego["lat"] // 2, ego["lon"] // 2)
        call("peer_beacon", egoinp, router.gn_data_indicate, stack.beacon_bytes(peer, peer_pv[0], peer_pv[1], peer_pv[2]))
        # beacon
        ll.sent.clear()
        call("beacon", dict(egoinp, op="beacon"), router.gn_data_request_beacon)
        ref = pack(basic_fields(1, 1, lt_code_of(dflt_lt * 1000), 1) + common_fields(0, 1, 0, 0, int(mobile), 0, 1)
                   + lpv_fields(me, *ego_view[3:]))
        expect("beacon", dict(egoinp, op="beacon"), ll.sent[0] if ll.sent else None, ref, 30, mib_view[:2] + ego_view)
        for pl in payload_lens:
            payload = bytes(ctx.rng.randrange(256) for _ in range(pl))
            for btp_type in (1, 2):
                p1, p2 = ctx.rng.choice([0, 1, 2001, 2002, 65535]), ctx.rng.choice([0, 1, 65535, 4660])
                scf, off, tcid = ctx.rng.random() < 0.3, ctx.rng.random() < 0.3, ctx.rng.randrange(64)
                tcb = (int(scf) << 7) | (int(off) << 6) | tcid
                # lifetimes: grid points, the multiplier clamp windows (63 x base < request < next base unit) and anything
                life = ctx.rng.choice([None, None, 50, 999, 1000, 1050, 15000, 600000, 3149, 3150, 3200, 3999, 4000,
                                       63000, 64000, 99999, 100000, 630000, 640000, 999999,
                                       ctx.rng.randrange(50, 1_000_000), ctx.rng.randrange(50, 5000),
                                       0, 0, 1, 49])      # a request for 0 ms is a request, not 'use the default'
                hl = ctx.rng.choice([0, 1, 2, 5, 255])
                gn_payload = pack([(16, p1), (16, p2)]) + payload
                tc = TrafficClass(scf=scf, channel_offload=off, tc_id=tcid)
                ltc = lt_code_of(dflt_lt * 1000 if life is None else life)
                lifem = -1 if life is None else life
                base = dict(btp_type=CommonNH(btp_type), source_port=p2, destination_port=p1, destination_port_info=p2,
                            traffic_class=tc, data=payload, length=len(payload), gn_max_hop_limit=hl,
                            gn_max_packet_lifetime=None if life is None else life / 1000)
                reqinp = dict(egoinp, btp_type=btp_type, ports=[p1, p2], tc=[int(scf), int(off), tcid], lifetime_ms=life,
                              max_hop_limit=hl, payload=payload.hex())
                # SHB
                ll.sent.clear()
                call("shb", reqinp, btp.btp_data_request, BTPDataRequest(
                    gn_packet_transport_type=PacketTransportType(HeaderType.TSB, TopoBroadcastHST.SINGLE_HOP), **base))
                ref = pack(basic_fields(1, 1, ltc, 1) + common_fields(btp_type, 5, 0, tcb, int(mobile), len(gn_payload), 1)
                           + lpv_fields(me, *ego_view[3:]) + [(32, 0)]) + gn_payload
                expect("shb", dict(reqinp, op="shb"), ll.sent[0] if ll.sent else None, ref, 31,
                       [int(mobile), dflt_lt, lifem, btp_type, int(scf), int(off), tcid] + ego_view + list(gn_payload))
                # GBC / GAC, three shapes; area centred on the ego position so that the source forwards at once
                x = hl if hl > 1 else dflt_hl
                for ht, HST in ((4, GeoBroadcastHST), (3, GeoAnycastHST)):
                    for hst in (0, 1, 2):
                        a, b = ctx.rng.choice([(1, 1), (100, 50), (500, 499), (1, 1)])
                        angle = ctx.rng.choice([0, 0, 45, 359, 90])
                        # SCF = 1 is sent like any packet while a neighbour exists (the peer); only the buffers for the
                        # no-neighbour case are stubs in the implementation
                        area = [ego["lat"], ego["lon"], a, b, angle]
                        far_area = False
                        if hst == (ei + pl) % 3 and not scf and abs(ego["lat"]) < 890000000 and abs(ego["lon"]) < 1790000000:
                            # the station is OUTSIDE the area: the source takes the non-area branch (greedy forwarding
                            # towards the area; without SCF the packet goes out in any case)
                            area = [ego["lat"] + 300000, ego["lon"] - 300000, a, b, angle]
                            far_area = True
                        sn = (sn + 1) % 65535
                        ll.sent.clear()
                        call("geo", reqinp, btp.btp_data_request, BTPDataRequest(
                            gn_packet_transport_type=PacketTransportType(stack.header_type_by_name(ht), stack.shape_hst_by_name(ht, hst)),
                            gn_area=Area(latitude=area[0], longitude=area[1], a=a, b=b, angle=angle), **base))
                        ref = pack(basic_fields(1, 1, ltc, x) + common_fields(btp_type, ht, hst, tcb, int(mobile), len(gn_payload), x)
                                   + [(16, sn), (16, 0)] + lpv_fields(me, *ego_view[3:])
                                   + [(32, area[0]), (32, area[1]), (16, a), (16, b), (16, angle), (16, 0)]) + gn_payload
                        expect(("gbc" if ht == 4 else "gac") + ("_scf" if scf else "") + ("_station_outside_area" if far_area else ""),
                               dict(reqinp, op="geo", ht=ht, hst=hst, area=area, sn=sn),
                               ll.sent[0] if ll.sent else None, ref, 32,
                               [int(mobile), dflt_lt, dflt_hl, lifem, hl, btp_type, ht, hst, int(scf), int(off), tcid, sn]
                               + ego_view + area + list(gn_payload))
                # GUC to the known neighbour (with SCF it is sent when the neighbour is closer to the destination than
                # the station itself: it is the destination; not so when both are at the same place)
                if not scf or (peer_pv[1], peer_pv[2]) != (ego["lat"], ego["lon"]):
                    sn = (sn + 1) % 65535
                    ll.sent.clear()
                    call("guc", reqinp, btp.btp_data_request, BTPDataRequest(
                        gn_packet_transport_type=PacketTransportType(HeaderType.GEOUNICAST),
                        gn_destination_address=gn_addr(peer[2], peer[1]), **base))
                    de = list(peer) + list(peer_pv)
                    ref = pack(basic_fields(1, 1, ltc, x) + common_fields(btp_type, 2, 0, tcb, int(mobile), len(gn_payload), x)
                               + [(16, sn), (16, 0)] + lpv_fields(me, *ego_view[3:]) + spv_fields(peer, *peer_pv)) + gn_payload
                    expect("guc" + ("_scf" if scf else ""), dict(reqinp, op="guc", de=de, sn=sn), ll.sent[0] if ll.sent else None, ref, 33,
                           [int(mobile), dflt_lt, dflt_hl, lifem, hl, btp_type, int(scf), int(off), tcid, sn]
                           + ego_view + de + list(gn_payload))
        # LS request (GUC to an unknown station) and LS reply (LS request for our address arrives)
        unknown = (0, 3, 0x0A0B0C0DFF00 + ei)
        ll.sent.clear()
        sn = (sn + 1) % 65535
        call("lsreq", egoinp, btp.btp_data_request, BTPDataRequest(
            btp_type=CommonNH.BTP_B, destination_port=2001, data=b"q",
            gn_packet_transport_type=PacketTransportType(HeaderType.GEOUNICAST),
            gn_destination_address=gn_addr(unknown[2], unknown[1])))
        ltd = lt_code_of(dflt_lt * 1000)
        ref = pack(basic_fields(1, 1, ltd, dflt_hl) + common_fields(0, 6, 0, 0, int(mobile), 0, dflt_hl)
                   + [(16, sn), (16, 0)] + lpv_fields(me, *ego_view[3:]) + gn_addr_fields(*unknown))
        expect("lsreq", dict(egoinp, op="ls_request", sought=list(unknown), sn=sn), ll.sent[0] if ll.sent else None, ref,
               34, mib_view + [sn] + ego_view + list(unknown))
        asker = (0, 9, 0x0A0B0C0DEE00 + ei)
        apv = (tst - 17, -ego["lat"] // 3, -ego["lon"] // 3)
        ll.sent.clear()
        call("lsrep", egoinp, router.gn_data_indicate, stack.ls_request_bytes(asker, 77, apv[0], apv[1], apv[2], me))
        sn = (sn + 1) % 65535
        ref = pack(basic_fields(1, 1, ltd, dflt_hl) + common_fields(0, 6, 1, 0, int(mobile), 0, dflt_hl)
                   + [(16, sn), (16, 0)] + lpv_fields(me, *ego_view[3:]) + spv_fields(asker, *apv))
        expect("lsrep", dict(egoinp, op="ls_reply", de=list(asker) + list(apv), sn=sn), ll.sent[0] if ll.sent else None,
               ref, 35, mib_view + [sn] + ego_view + list(asker) + list(apv))
        # the LS reply names the requester's position vector AS THE LOCATION TABLE HOLDS IT after the request was processed
        # (10.3.7.3): a requester heard before (beacon) whose request carries an older / a newer position vector than stored
        for tag, d in (("stored_newer", -25), ("request_newer", 40), ("request_equal", 0)):
            asker2 = (0, 7, 0x0A0B0C0DE000 + 16 * ei + {"stored_newer": 1, "request_newer": 2, "request_equal": 3}[tag])
            bpv = (tst - 9, ego["lat"] // 7 + 11, -ego["lon"] // 7 - 13)
            call("lsrep_beacon", egoinp, router.gn_data_indicate, stack.beacon_bytes(asker2, *bpv))
            rpv = (bpv[0] + d, bpv[1] + 1000, bpv[2] - 1000) if d else bpv
            ll.sent.clear()
            call("lsrep_" + tag, egoinp, router.gn_data_indicate, stack.ls_request_bytes(asker2, 78, rpv[0], rpv[1], rpv[2], me))
            sn = (sn + 1) % 65535
            exp_pv = rpv if d > 0 else bpv
            ref = pack(basic_fields(1, 1, ltd, dflt_hl) + common_fields(0, 6, 1, 0, int(mobile), 0, dflt_hl)
                       + [(16, sn), (16, 0)] + lpv_fields(me, *ego_view[3:]) + spv_fields(asker2, *exp_pv))
            expect("lsrep_de_" + tag, dict(egoinp, op="ls_reply", requester_heard_before=list(bpv), request_pv=list(rpv),
                                          de=list(asker2) + list(exp_pv), sn=sn), ll.sent[0] if ll.sent else None,
                   ref, 35, mib_view + [sn] + ego_view + list(asker2) + list(exp_pv))
        # forwarded TSB / GBC / GUC / LS: the received packet with RHL - 1
        far = (0, 4, 0x0A0B0C0DDD00 + ei)
        fpv = (tst - 3, ego["lat"] // 5 + 7, ego["lon"] // 5 - 7)
        other = (0, 6, 0x0A0B0C0DCC00 + ei)
        fwd_in = [
            ("fwd_tsb", stack.tsb_bytes(far, 11, *fpv, payload=b"\x07\xd1\x00\x00hello", rhl=4, mhl=9)),
            ("fwd_gbc", stack.gbc_bytes(far, 12, *fpv, area=(ego["lat"], ego["lon"], 300, 200, 0), payload=b"\x07\xd2\x00\x00x",
                                        rhl=2, mhl=2)),
            ("fwd_guc", stack.guc_bytes(far, 13, *fpv, de=(other, 5, -7, 9), payload=b"\x07\xd1\x00\x01yy", rhl=255, mhl=255)),
            ("fwd_lsreq", stack.ls_request_bytes(far, 14, *fpv, sought=other, rhl=3, mhl=10)),
            ("fwd_lsrep", stack.ls_reply_bytes(far, 15, *fpv, de=(other, 5, -7, 9), rhl=3, mhl=10)),
        ]
        # the same five with every field away from the defaults of the reference builders: source address with the M bit
        # and another station type, position accuracy 0, negative / extreme speed, heading, a stationary source (flags 0),
        # SCF + channel offload + traffic class id, BTP-A, lifetime codes of the other bases, and the two ends of the
        # hop-limit range; and GeoBroadcast / GeoAnycast towards an area the station is outside of (non-area branch)
        far2 = (1, ctx.rng.randrange(13), 0x0A0B0C0DDB00 + ei)
        var = dict(pai=0, s=ctx.rng.choice([-1, -16384, 16383, -300]), h=ctx.rng.choice([1, 3599, 65535]),
                   mobile=ei % 2, tc=ctx.rng.choice([0x40, 0xC0, 0x7F, 0xFF, 0x81]))
        ltc2 = ctx.rng.choice([(63 << 2) | 0, (1 << 2) | 2, (63 << 2) | 3, (20 << 2) | 0, 0])
        var_noscf = dict(var, tc=var["tc"] & 0x7F)      # greedy forwarding may hold a packet with SCF back (buffer stub)
        away = (ego["lat"] // 5 + 400000, ego["lon"] // 5 + 400000, 150, 100, 45)     # fpv (the sender) is outside too
        fwd_in += [
            ("fwd_tsb_varied", stack.tsb_bytes(far2, 65535, *fpv, payload=b"\x07\xd1\x00\x00hello", rhl=255, mhl=255, nh=1,
                                               lt_code=ltc2, **var)),
            ("fwd_gbc_varied", stack.gbc_bytes(far2, 0, *fpv, area=(ego["lat"], ego["lon"], 65535, 1, 359), payload=b"\x07\xd2\x00\x00x",
                                               hst=2, rhl=2, mhl=255, nh=1, lt_code=ltc2, **var)),
            ("fwd_guc_varied", stack.guc_bytes(far2, 1, *fpv, de=(other, 2 ** 32 - 1, -900000000, 1800000000), payload=b"", rhl=2, mhl=2,
                                               nh=1, lt_code=ltc2, **var_noscf)),
            ("fwd_lsreq_varied", stack.ls_request_bytes(far2, 2, *fpv, sought=(1, 12, 0xFFFFFFFFFFFE), rhl=128, mhl=200,
                                                        lt_code=ltc2, **var)),
            ("fwd_lsrep_varied", stack.ls_reply_bytes(far2, 3, *fpv, de=(other, 0, 900000000, -1800000000), rhl=2, mhl=2,
                                                      lt_code=ltc2, **var)),
        ]
        if abs(away[0]) < 900000000 and abs(away[1]) < 1800000000:
            fwd_in += [
                ("fwd_gbc_station_outside_area", stack.gbc_bytes(far, 16, *fpv, area=away, payload=b"\x07\xd2\x00\x00o", hst=1, rhl=3, mhl=3)),
                ("fwd_gac_station_outside_area", stack.gbc_bytes(far2, 4, *fpv, area=away, payload=b"\x07\xd2\x00\x00a", ht=3, hst=0,
                                                                 rhl=9, mhl=10, lt_code=ltc2, **var_noscf)),
            ]
        for kind, pkt in fwd_in:
            ll.sent.clear()
            call(kind, dict(egoinp, received=pkt.hex()), router.gn_data_indicate, pkt)
            ref = pkt[:3] + bytes([pkt[3] - 1]) + pkt[4:]
            expect(kind, dict(egoinp, op="forward", received=pkt.hex()), ll.sent[0] if ll.sent else None, ref, 36,
                   [pkt[3] - 1] + list(pkt))
        # contention-based forwarding: the copy that leaves when the timer expires is the received packet with RHL - 1
        llc = CaptureLL()
        rc = make_router(llc, local_mid=my_mid, default_hop_limit=dflt_hl, st=st, mib_kw=dict(
            itsGnIsMobile=GnIsMobile.MOBILE if mobile else GnIsMobile.STATIONARY,
            itsGnAreaForwardingAlgorithm=AreaForwardingAlgorithm.CBF))
        set_ego(rc, ego["lat"], ego["lon"], pai=ego["pai"], s=ego["s"], h=ego["h"], tst=tst)
        call("peer_beacon", egoinp, rc.gn_data_indicate, stack.beacon_bytes(peer, peer_pv[0], peer_pv[1], peer_pv[2]))
        for kind, pkt in (("fwd_gbc_cbf", stack.gbc_bytes(far, 31, *fpv, area=(ego["lat"], ego["lon"], 300, 200, 0),
                                                          payload=b"\x07\xd2\x00\x00c", rhl=5, mhl=7)),
                          ("fwd_gbc_cbf_varied", stack.gbc_bytes(far2, 32, *fpv, area=(ego["lat"], ego["lon"], 20, 65535, 90),
                                                                 payload=b"", hst=1, rhl=255, mhl=255, nh=1, lt_code=ltc2, **var))):
            llc.sent.clear()
            call(kind, dict(egoinp, received=pkt.hex()), rc.gn_data_indicate, pkt)
            at_once = list(llc.sent)
            for t in list(rc._cbf_buffer.values()):
                t.fire()
            ref = pkt[:3] + bytes([pkt[3] - 1]) + pkt[4:]
            if at_once:
                ctx.property_failure("pkt_" + kind, dict(egoinp, op="forward_cbf", received=pkt.hex()),
                                     "contention-based forwarding re-broadcast before the timer expired", [], [p.hex() for p in at_once])
            expect(kind, dict(egoinp, op="forward_cbf", received=pkt.hex()), llc.sent[0] if llc.sent else None, ref, 36,
                   [pkt[3] - 1] + list(pkt))
        # GeoUnicast forwarded towards a NEIGHBOUR (EN 302 636-4-1 10.3.8.3 step 8): the DE PV of the forwarded packet is
        # refreshed from the location table when that is strictly newer, otherwise the packet is copied; RHL - 1 either way
        for fsn, (tag, de_tst) in enumerate((("older", peer_pv[0] - 1000), ("same", peer_pv[0]), ("newer", peer_pv[0] + 1)), 21):
            pkt = stack.guc_bytes(far, fsn, *fpv, de=(peer, de_tst, 123456, -654321), payload=b"\x07\xd1\x00\x02zz",
                                  rhl=7, mhl=9)
            ll.sent.clear()
            call("fwd_guc_neighbour", dict(egoinp, received=pkt.hex()), router.gn_data_indicate, pkt)
            if tag == "older":
                ref = stack.guc_bytes(far, fsn, *fpv, de=(peer,) + tuple(peer_pv), payload=b"\x07\xd1\x00\x02zz",
                                      rhl=6, mhl=9)
            else:
                ref = pkt[:3] + bytes([pkt[3] - 1]) + pkt[4:]
            expect("fwd_guc_de_" + tag, dict(egoinp, op="forward_to_neighbour", de_pv_in_packet=tag, received=pkt.hex(),
                                             loct_pv=list(peer_pv)), ll.sent[0] if ll.sent else None, ref,
                   None if tag == "older" else 36, [pkt[3] - 1] + list(pkt))
        # the same for an LS reply forwarded towards the neighbour (10.3.7.2: forwarded like a GeoUnicast packet)
        for fsn, (tag, de_tst) in enumerate((("older", peer_pv[0] - 1), ("same", peer_pv[0]), ("newer", peer_pv[0] + 1000)), 41):
            pkt = stack.ls_reply_bytes(far, fsn, *fpv, de=(peer, de_tst, -123456, 654321), rhl=2, mhl=9)
            ll.sent.clear()
            call("fwd_lsrep_neighbour", dict(egoinp, received=pkt.hex()), router.gn_data_indicate, pkt)
            if tag == "older":
                ref = stack.ls_reply_bytes(far, fsn, *fpv, de=(peer,) + tuple(peer_pv), rhl=1, mhl=9)
            else:
                ref = pkt[:3] + bytes([pkt[3] - 1]) + pkt[4:]
            expect("fwd_lsrep_de_" + tag, dict(egoinp, op="forward_to_neighbour", de_pv_in_packet=tag, received=pkt.hex(),
                                               loct_pv=list(peer_pv)), ll.sent[0] if ll.sent else None, ref,
                   None if tag == "older" else 36, [pkt[3] - 1] + list(pkt))
        # LS retransmission (10.3.7.1.3): when the timer expires the LS request goes out again, with the next sequence number
        for t in list(router._ls_timers.values()):
            ll.sent.clear()
            t.fire()
            sn = (sn + 1) % 65535
            ref = pack(basic_fields(1, 1, ltd, dflt_hl) + common_fields(0, 6, 0, 0, int(mobile), 0, dflt_hl)
                       + [(16, sn), (16, 0)] + lpv_fields(me, *ego_view[3:]) + gn_addr_fields(*unknown))
            expect("lsreq_retransmission", dict(egoinp, op="ls_retransmit", sought=list(unknown), sn=sn),
                   ll.sent[0] if ll.sent else None, ref, 34, mib_view + [sn] + ego_view + list(unknown))
        # the ego position vector as the router derives it from a position fix (gpsd TPV report): degrees -> 1/10 micro
        # degree, m/s -> 0.01 m/s, degrees -> 0.1 degree, UTC -> ITS milliseconds mod 2^32; it then appears in the beacon
        for tpv in tpv_values(ctx, ei):
            call("ego_from_tpv", dict(tpv=tpv), router.refresh_ego_position_vector, tpv)
            ll.sent.clear()
            call("ego_from_tpv", dict(tpv=tpv), router.gn_data_request_beacon)
            ctx.count(1, "ego_from_tpv")
            if not ll.sent or len(ll.sent[0]) != 36:
                ctx.property_failure("ego_from_tpv", dict(tpv=tpv), "no beacon after the position fix", 36, ll.sent and len(ll.sent[0]))
                continue
            b = ll.sent[0][12:]
            got = [int.from_bytes(b[8:12], "big"), int.from_bytes(b[12:16], "big", signed=True), int.from_bytes(b[16:20], "big", signed=True),
                   stack_signed15(int.from_bytes(b[20:22], "big") & 0x7FFF), int.from_bytes(b[22:24], "big")]
            want = tpv_expect(tpv)
            okv = ((got[0] - want[0]) % 2 ** 32 <= 0 or (want[0] - got[0]) % 2 ** 32 < 1000) and \
                all(abs(g - w) <= 1 for g, w in zip(got[1:], want[1:])) and b[0:8] == pack(gn_addr_fields(*me))
            if not okv:
                ctx.property_failure("ego_from_tpv", dict(tpv=tpv), "the ego position vector after a position fix is not the fix in "
                                     "wire units (timestamp within the second of the fix, +-1 unit elsewhere)",
                                     dict(zip(("tst", "lat", "lon", "s", "h"), want)), dict(zip(("tst", "lat", "lon", "s", "h"), got)))
            ctx.nontriv(("tpv", tuple(sorted(tpv.items()))))
    if ctx.model.available and reqs:
        for (kind, inp, got), r in zip(meta, ctx.model.batch(reqs)):
            if bytes(r) != got:
                ctx.mismatch(f"Router emits Wire.mk_{kind}", inp, bytes(r).hex(), got.hex())
    if meta:
        k, i, g = meta[len(meta) // 3]
        ctx.sample({"packet": k, "octets": g.hex()[:120]})


def stack_signed15(v: int) -> int:
    return v - 2 ** 15 if v >= 2 ** 14 else v


def tpv_values(ctx, ei):
    from datetime import datetime, timezone
    pts = [(46.498293369, 7.567411672), (-33.8688197, 151.2092955), (-0.00000005, -0.00000015), (89.9999999, -179.9999999),
           (-89.5, 179.9999999), (0.0, 0.0)]
    out = []
    for k in range(2):
        lat, lon = pts[(2 * ei + k) % len(pts)] if ctx.rng.random() < 0.7 else (ctx.rng.uniform(-90, 90), ctx.rng.uniform(-180, 180))
        t = 1_700_000_000 + ctx.rng.randrange(0, 10 ** 8) + ctx.rng.choice([0.0, 0.283, 0.999, 0.5])
        iso = datetime.fromtimestamp(t, tz=timezone.utc).strftime("%Y-%m-%dT%H:%M:%S.%f")[:-3] + "Z"
        out.append({"class": "TPV", "time": iso, "lat": lat, "lon": lon, "mode": 3,
                    "speed": ctx.rng.choice([0.0, 0.091, 13.89, 163.83, 55.555]),
                    "track": ctx.rng.choice([0.0, 10.3788, 359.94, 180.0, 90.05])})
    return out


def tpv_expect(tpv):
    from datetime import datetime
    from fractions import Fraction
    t = datetime.strptime(tpv["time"], "%Y-%m-%dT%H:%M:%S.%f%z").timestamp()
    t_ms = int(Fraction(t) * 1000) - stack.ITS_EPOCH_MS + stack.LEAP_MS
    trunc = lambda x: int(x)       # towards zero  # noqa: E731
    return [t_ms % 2 ** 32, trunc(Fraction(tpv["lat"]) * 10 ** 7), trunc(Fraction(tpv["lon"]) * 10 ** 7),
            trunc(Fraction(tpv["speed"]) * 100), trunc(Fraction(tpv["track"]) * 10)]


def lt_code_of(ms: int) -> int:
    best, code = -1, 0
    if 50 <= ms < 1_000_000:
        for b, u in enumerate((50, 1000, 10000, 100000)):
            m = min(63, ms // u)
            if m > 0 and m * u >= best:
                best, code = m * u, (m << 2) | b
    elif ms >= 1_000_000:
        code = 3
    return code


def classify_failure(rec):
    return rec


def run(ctx):
    ctx.rule = ("per header class: one field swept over its width (exhaustive up to 8 bits in quick and up to 16 bits in "
                "thorough; 32/48-bit fields at boundary-biased and seeded values) in three contexts, encode compared with an "
                "independent ETSI-layout packer and with the model, decode of the conformant octets compared with the fields; "
                "arbitrary octets through every decoder (model vs code); packets emitted by a real BTP+GN router for "
                "beacon/SHB/GBC/GAC/GUC/LS request/LS reply and forwarded TSB/GBC/GUC/LS over ego positions in all four "
                "hemispheres; non-trivial = decodes / was emitted; distinct by field tuple or octets")
    K = impl_classes()
    for k in ctx.known:
        w = k["witness"]
        if w.get("op") == "beacon":
            pass  # re-observed by the packet stream below (mobile stations)
    exhaustive = ctx.tier == "thorough"
    codec_cases(ctx, K, exhaustive)
    decoder_stream(ctx, K, 400 if ctx.tier == "quick" else 5000)
    if ctx.tier == "quick":
        packet_cases(ctx, 9, [0, 1, 37, 300])
    else:
        packet_cases(ctx, 60, [0, 1, 2, 255, 256, 1000, 1394])
    ctx.exhaustive = False


def replay(ctx, data):
    f = data.get("failure") or (data.get("broken") or [{}])[-1].get("first")
    print(json.dumps(f, default=str))
    inp = f["input"]
    ctx.model = common.Model(MODEL_NAME)
    K = impl_classes()
    if inp.get("op") in ("encode", "decode") and "fields" in inp:
        run_codec_cases(ctx, K, inp["header"], [inp["fields"]])
    elif inp.get("op") == "decode":
        kind, bs = inp["header"], bytes.fromhex(inp["octets"])
        i = impl_decode(K, kind, bs)
        r = ctx.model.call(DEC_CMD[kind], list(bs))
        m = r[1:] if r and r[0] == 1 else None
        if m != i:
            ctx.mismatch("decode", inp, m, i)
    else:
        packet_cases(ctx, 9, [0, 1, 37])
    bad = ctx.failures or ctx.mismatches or ctx.known_hits
    print("REPRODUCED" if bad else "NOT REPRODUCED")
    for r in (ctx.failures + ctx.mismatches + list(ctx.known_hits.values()))[:3]:
        print(json.dumps(r, default=str))
    return 1 if bad else 0
