"""Shared helpers of the LDM checks (C12, C13, C14): virtual time for the LDM modules, construction of
a real Factory-built LDM, message builders, canonicalisation and a small op-sequence shrinker.

Nothing here consults the Coq model; the model side only receives integers produced from the same
operation descriptions.
"""
from __future__ import annotations

import fractions
import json
import os
import shutil
import tempfile

from .stack import VCLOCK, patch_time

ITS_EPOCH_MS = 1072915200 * 1000
LEAP_MS = 5000
T0_UTC_MS = 1_700_000_000_000


def its_ms(utc_ms: int) -> int:
    """ITS timestamp (ms) of a UTC instant, as TimestampIts computes it"""
    return utc_ms - ITS_EPOCH_MS + LEAP_MS


class _VTime:
    """stands in for the `time` module inside the reactive LDM classes; monotonic() is the
    virtual clock as an exact rational number of seconds so that the 0.5 s / 1 s thresholds of
    the code are compared without float rounding"""

    @staticmethod
    def monotonic():
        return fractions.Fraction(VCLOCK.ms, 1000)

    @staticmethod
    def time():
        return VCLOCK.time()

    @staticmethod
    def sleep(_):
        raise RuntimeError("sleep on the wall clock inside a check")


def patch_ldm_time():
    """virtual time for every time source the LDM uses (from outside; no change to the repository)"""
    patch_time()
    import flexstack.facilities.local_dynamic_map.ldm_maintenance_reactive as mr
    import flexstack.facilities.local_dynamic_map.ldm_service_reactive as sr
    import flexstack.facilities.local_dynamic_map.ldm_maintenance as mm
    mr.time = _VTime
    sr.time = _VTime
    mm.time = _VTime


class LdmUnderTest:
    """A real LDMFacility built by LDMFactory on the virtual clock."""

    def __init__(self, cfg, backend="Dictionary", t0_utc_ms=T0_UTC_MS, service="Reactive"):
        from flexstack.facilities.local_dynamic_map.factory import LDMFactory
        from flexstack.facilities.local_dynamic_map.ldm_classes import Location
        patch_ldm_time()
        VCLOCK.set_ms(t0_utc_ms)
        self.cfg = cfg
        self.backend = backend
        self.service = service       # "Reactive" | "Thread" (the caller replaces threading in ldm_service_threads first)
        self.tmpdir = None
        loc = Location.initializer(latitude=cfg["lat"], longitude=cfg["lon"], altitude_value=cfg["alt"],
                                   relevance_distance=cfg["rd"])
        if backend == "TinyDB":
            # the factory opens ./ldm_tinydb.json: give it a private directory under /tmp/ldm_*
            self.tmpdir = tempfile.mkdtemp(prefix="ldm_tinydb_", dir="/tmp")
            cwd = os.getcwd()
            os.chdir(self.tmpdir)
            try:
                self.ldm = LDMFactory().create_ldm(loc, "Reactive", service, "TinyDB")
            finally:
                os.chdir(cwd)
        else:
            self.ldm = LDMFactory().create_ldm(loc, "Reactive", service, backend)
        self.if3 = self.ldm.if_ldm_3
        self.if4 = self.ldm.if_ldm_4
        self.db = self.ldm.ldm_maintenance.data_containers

    def close(self):
        if self.tmpdir:
            try:
                self.db.database.close()
            except Exception:
                pass
            shutil.rmtree(self.tmpdir, ignore_errors=True)
            self.tmpdir = None

    # -- observation of the internal state (Dictionary: dict id -> container) ----
    def items(self):
        if self.backend == "TinyDB":
            return [(d.doc_id, dict(d)) for d in self.db.database.all()]
        return list(self.db.database.items())

    def providers(self):
        return sorted(self.ldm.ldm_service.data_provider_its_aid)

    def consumers(self):
        return sorted(self.ldm.ldm_service.data_consumer_its_aid)


def canon(x):
    """JSON-canonical form: tuples -> lists (TinyDB stores JSON), dict keys sorted by dumps"""
    if isinstance(x, dict):
        return {str(k): canon(v) for k, v in x.items()}
    if isinstance(x, (list, tuple)):
        return [canon(v) for v in x]
    if isinstance(x, (bool, int, str)) or x is None:
        return x
    if isinstance(x, float):
        return x
    return repr(x)


def cjson(x) -> str:
    return json.dumps(canon(x), sort_keys=True)


class Interner:
    """stable small integers for structured values (first seen order)"""

    def __init__(self):
        self.table = {}
        self.values = []

    def __call__(self, obj) -> int:
        k = cjson(obj)
        if k not in self.table:
            self.table[k] = len(self.values)
            self.values.append(obj)
        return self.table[k]

    def find(self, obj) -> int:
        return self.table.get(cjson(obj), -1)


def type_names():
    from flexstack.facilities.local_dynamic_map.ldm_constants import DATA_OBJECT_TYPE_ID
    return dict(DATA_OBJECT_TYPE_ID)


def type_of_message(msg: dict) -> int:
    """type id of a message dictionary, written from the interface description: the first top-level
    key that names a data object type; 0 when there is none"""
    inv = {v: k for k, v in type_names().items()}
    for k in msg:
        if k in inv:
            return inv[k]
    return 0


def simple_message(typ: int, tok: int) -> dict:
    """small message of a given type carrying a token (C12, C14)"""
    name = type_names().get(typ, "unknownMessage")
    return {"header": {"protocolVersion": 2, "messageId": typ, "stationId": tok},
            name: {"generationDeltaTime": tok % 65536, "token": tok}}


def make_location(lat, lon, alt, extra):
    """Location object; extra = dict(smc, smo, smic, ac, radius, rd, td) plus, optionally (audit round),
    rect / ell = [a, b, azimuth] (azimuth: int, or {"direction": n} for a Direction object) and circle=False
    for a geometric area without circle"""
    from flexstack.facilities.local_dynamic_map.ldm_classes import Location
    if not (extra.get("rect") or extra.get("ell") or extra.get("circle") is False):
        return Location.initializer(latitude=lat, longitude=lon, altitude_value=alt,
                                    semi_major_confidence=extra["smc"], semi_major_orientation=extra["smo"],
                                    semi_minor_confidence=extra["smic"], altitude_confidence=extra["ac"],
                                    radius=extra["radius"], relevance_distance=extra["rd"],
                                    relevance_traffic_direction=extra["td"])
    from flexstack.facilities.local_dynamic_map.ldm_classes import (
        ReferencePosition, PositionConfidenceEllipse, Altitude, ReferenceArea, GeometricArea, Circle, Rectangle,
        Ellipse, RelevanceArea, RelevanceDistance, RelevanceTrafficDirection, Direction)

    def az(v):
        return Direction(v["direction"]) if isinstance(v, dict) else v

    def shape(cls, v):
        return None if not v else cls(v[0], v[1], az(v[2]))
    rp = ReferencePosition(latitude=lat, longitude=lon,
                           position_confidence_ellipse=PositionConfidenceEllipse(
                               semi_major_confidence=extra["smc"], semi_major_orientation=extra["smo"],
                               semi_minor_confidence=extra["smic"]),
                           altitude=Altitude(altitude_value=alt, altitude_confidence=extra["ac"]))
    ga = GeometricArea(circle=None if extra.get("circle") is False else Circle(radius=extra["radius"]),
                       rectangle=shape(Rectangle, extra.get("rect")), ellipse=shape(Ellipse, extra.get("ell")))
    ra = ReferenceArea(geometric_area=ga,
                       relevance_area=RelevanceArea(relevance_distance=RelevanceDistance(relevance_distance=extra["rd"]),
                                                    relevance_traffic_direction=RelevanceTrafficDirection(extra["td"])))
    return Location(rp, ra)


def location_dict(lat, lon, alt, extra):
    """what the interface description says is stored for a Location (independent of to_dict); the azimuth of a
    rectangle / ellipse is stored as the plain number of the direction"""
    def az(v):
        return v["direction"] if isinstance(v, dict) else v

    def shape(v):
        return None if not v else {"aSemiAxis": v[0], "bSemiAxis": v[1], "azimuthAngle": az(v[2])}
    return {"referencePosition": {"latitude": lat, "longitude": lon,
                                  "positionConfidenceEllipse": {"semiMajorConfidence": extra["smc"],
                                                                "semiMinorConfidence": extra["smic"],
                                                                "semiMajorOrientation": extra["smo"]},
                                  "altitude": {"altitudeValue": alt, "altitudeConfidence": extra["ac"]}},
            "referenceArea": {"geometricArea": {"circle": None if extra.get("circle") is False else {"radius": extra["radius"]},
                                                "rectangle": shape(extra.get("rect")),
                                                "ellipse": shape(extra.get("ell"))},
                              "relevanceArea": {"relevanceDistance": extra["rd"],
                                                "relevanceTrafficDirection": extra["td"]}}}


def location_extra_of(stored_location: dict):
    """the non-positional part of a stored location dictionary (for interning)"""
    loc = json.loads(cjson(stored_location))
    rp = loc.get("referencePosition", {})
    rp = {k: v for k, v in rp.items() if k not in ("latitude", "longitude")}
    if isinstance(rp.get("altitude"), dict):
        rp["altitude"] = {k: v for k, v in rp["altitude"].items() if k != "altitudeValue"}
    loc["referencePosition"] = rp
    return loc


def shrink_ops(ops, still_fails, max_rounds=6):
    """greedy delta debugging on an operation list; still_fails(list) -> bool"""
    ops = list(ops)
    for _ in range(max_rounds):
        changed = False
        chunk = max(1, len(ops) // 2)
        while chunk >= 1:
            i = 0
            while i < len(ops):
                cand = ops[:i] + ops[i + chunk:]
                if cand and still_fails(cand):
                    ops = cand
                    changed = True
                else:
                    i += chunk
            chunk //= 2
        if not changed:
            break
    return ops


class Reader:
    """cursor over a flat integer list returned by the model"""

    def __init__(self, data):
        self.d = data
        self.i = 0

    def one(self):
        v = self.d[self.i]
        self.i += 1
        return v

    def many(self, n):
        v = self.d[self.i:self.i + n]
        if len(v) != n:
            raise IndexError("model output too short")
        self.i += n
        return v

    def done(self):
        return self.i >= len(self.d)
