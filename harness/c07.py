"""C07 - geo-addressed packets are delivered exactly inside the destination area."""
from __future__ import annotations

import json
import math

from . import common
from . import router_sim as rs
from . import stack

PROP = "C07"
COQ_TARGETS = ["Properties/C07", "Extract/ExRouter"]
MODEL_ML = "router_model.ml"
MODEL_NAME = "router"
TRUSTED_BASE = [
    "Coq 8.16.1 kernel (coqc); QArith/Lqa (lra, nra) - no axioms; no native_compute",
    "extraction (ExtrOcamlBasic only) + ocaml/driver_body.ml + OCaml 4.13.1",
    "Model/Geo.v states EN 302 931 over exact rationals; the implementation's floating-point evaluation and its "
    "projection of WGS-84 coordinates to metres are NOT modelled: the harness evaluates F independently (same "
    "equirectangular projection, earth radius 6 371 000 m) and excludes |F| < 1e-6 from the verdict",
    "hand-written Model/Router.v tied to the code by differential execution; Python harness",
]
ASSUMPTIONS = [
    "the inside/outside verdict fed to the router model is computed by the harness from EN 302 931, independently of the "
    "implementation; the Coq theorems about F are over Q and about the model's use of that verdict",
    "the packet-data-rate limiter (annex B.2) is not modelled; each test packet comes from a fresh (source, SN)",
]
EXPLANATION = ("theorems: F >= 0 iff inside for circle / rectangle / ellipse incl. rotation invariance of the circle (Q, all inputs); "
               "router delivers GBC/GAC iff inside, GAC inside is never forwarded, oversized areas refused / not forwarded, Annex D "
               "table; correspondence + oracle on receiver positions placed inside / outside / near the border of rotated areas")


def place_area(rng, ego, shape, a, b, angle, u, v):
    """area whose local frame puts the ego position at (u along the azimuth, v perpendicular) metres"""
    th = math.radians(angle)
    north = u * math.cos(th) - v * math.sin(th)
    east = u * math.sin(th) + v * math.cos(th)
    lat_e, lon_e = ego[0] / 1e7, ego[1] / 1e7
    lat_c = lat_e - math.degrees(north / rs.R_EARTH)
    lon_c = lon_e - math.degrees(east / (rs.R_EARTH * math.cos(math.radians((lat_e + lat_c) / 2))))
    return (int(round(lat_c * 1e7)), int(round(lon_c * 1e7)), a, b, angle, shape)


def gen_cases(ctx, n):
    rng = ctx.rng
    cases = []
    for _ in range(n):
        shape = rng.choice([0, 1, 2])
        a = rng.choice([1, 2, 5, 50, 100, 400, 1000, 1500, 5000, 65535, rng.randrange(1, 3000)])
        b = rng.choice([1, 2, 5, 30, 100, 400, 900, 65535, rng.randrange(1, 3000)])
        angle = rng.choice([0, 0, 30, 45, 90, 135, 180, 270, 359, rng.randrange(0, 360)])
        bb = a if shape == 0 else b
        mode = rng.choice(["inside", "inside", "outside", "outside", "border_in", "border_out", "corner", "far"])
        if mode == "inside":
            u, v = rng.uniform(-0.7, 0.7) * a, rng.uniform(-0.6, 0.6) * bb
            if shape != 1:
                u, v = u * 0.7, v * 0.7
        elif mode == "outside":
            u, v = rng.choice([-1, 1]) * rng.uniform(1.2, 3.0) * a, rng.uniform(-1, 1) * bb
            if rng.random() < 0.5:
                u, v = rng.uniform(-1, 1) * a, rng.choice([-1, 1]) * rng.uniform(1.2, 3.0) * bb
        elif mode == "border_in":
            u, v = rng.choice([-1, 1]) * 0.97 * a, 0.0
            if rng.random() < 0.5:
                u, v = 0.0, rng.choice([-1, 1]) * 0.97 * bb
        elif mode == "border_out":
            u, v = rng.choice([-1, 1]) * 1.03 * a, 0.0
            if rng.random() < 0.5:
                u, v = 0.0, rng.choice([-1, 1]) * 1.03 * bb
        elif mode == "corner":
            # inside the rectangle's corner region but outside the inscribed ellipse: separates the shapes and, with
            # a != b, the rotated from the unrotated area
            u, v = 0.85 * a * rng.choice([-1, 1]), 0.85 * bb * rng.choice([-1, 1])
        else:
            u, v = rng.uniform(3, 50) * a, rng.uniform(3, 50) * bb
        cases.append((shape, a, b, angle, u, v, mode))
    return cases


def run_cases(ctx, n_cases):
    rng = ctx.rng
    egos = [(413800000, 21100000), (-338688000, 1512093000), (600000000, -1000000000), (-100, -100), (10, 1799000000)]
    per = 60
    for start in range(0, n_cases, per):
        ego = egos[(start // per) % len(egos)]
        rs.VCLOCK.set_ms(1_700_000_000_000 + start * 1000)
        maxa = rng.choice([10, 10, 1, 100])
        st = rs.Station(area_alg=rng.choice(["SIMPLE", "CBF", "UNSPECIFIED"]), ego=ego, max_area_km2=maxa)
        sc = rs.Scenario(rng, st, n_sources=4)
        evs, meta = [], []
        # mostly with one neighbour (then forwarding is not suppressed by store-carry-forward); a share of the batches
        # has no neighbour at all, and packets carry SCF = 1 now and then: the size / Annex D clauses hold there too
        if (start // per) % 4 != 3:
            evs.append(sc.rx_event("beacon", src=sc.sources[0], rhl=1, mhl=1))
            meta.append(None)
        for (shape, a, b, angle, u, v, mode) in gen_cases(ctx, per):
            area = place_area(rng, ego, shape, a, b, angle, u, v)
            kind = rng.choice(["gbc", "gac"])
            if rng.random() < 0.15:
                q = sc.request_event("req_geo")
                r = q["r"]
                r[3], r[4] = (4 if kind == "gbc" else 3), shape
                r[8:13] = [area[0], area[1], a, b, angle]
                q["area"], q["dests"] = area, [(area[0], area[1])]
                evs.append(q)
                meta.append(("req", area, mode))
            else:
                src = rng.choice(sc.sources[1:])
                ev = sc.rx_event(kind, src=src, area=area, rhl=rng.choice([2, 3, 10]), mhl=10, scf=(rng.random() < 0.25))
                evs.append(ev)
                meta.append(("rx", area, mode))
            sc.now += rng.choice([1, 20, 300])
            evs.append({"ev": "tick", "ms": 1})
            meta.append(None)
        impl, mtrace, skipped = rs.run_history(ctx, st, evs)
        oracle(ctx, st, evs, meta, impl)
    ctx.sample({"area(lat,lon,a,b,angle,shape)": list(area), "ego": list(ego), "mode": mode})


def oracle(ctx, st, evs, meta, impl):
    ego = (st.ego[4], st.ego[5])
    for idx, (ev, mt, obs) in enumerate(zip(evs, meta, impl)):
        if mt is None:
            continue
        what, area, mode = mt
        f = rs.f_value(area, ego[0], ego[1])
        size = rs.area_size_m2(area)
        big = size > st.max_area_km2 * 1_000_000
        near_size = abs(size - st.max_area_km2 * 1_000_000) < 1.0
        inp = {"event_index": idx, "event": rs._ev_repr({k: v for k, v in ev.items() if k != "dests"}), "F_at_ego": f,
               "ego": list(ego), "mode": mode, "area_m2": size}
        ctx.count(1, f"{what}_{mode}_shape{area[5]}")
        if what == "req":
            if near_size:
                continue
            if big and (obs["sent"] or obs["confirm"] != 6):
                ctx.property_failure("oversized_request", inp, "a request for an area larger than itsGnMaxGeoAreaSize was not "
                                     "refused with GEOGRAPHICAL_SCOPE_TOO_LARGE", {"confirm": 6, "sent": 0},
                                     {"confirm": obs["confirm"], "sent": len(obs["sent"])})
            if not big and obs["confirm"] != 1:
                ctx.property_failure("request_refused", inp, "a request for an admissible area was not accepted", 1, obs["confirm"])
            ctx.nontriv(("req", area))
            continue
        if abs(f) < 1e-6:
            ctx.count(1, "skipped_border_band")
            continue
        inside = f >= 0
        delivered = len(obs["inds"]) > 0
        fwd = [p for p in obs["sent"]]
        if obs["err"]:
            ctx.property_failure("exception", inp, "exception while processing a valid geo packet", None, obs["err"])
        if delivered != inside:
            ctx.property_failure("deliver_inside_mismatch", inp, "delivered to the upper layer while outside the area"
                                 if delivered else "not delivered although inside or on the border of the area",
                                 {"deliver": inside}, {"deliver": delivered})
        if ev["kind"] == "gac" and inside and fwd:
            ctx.property_failure("gac_inside_forwarded", inp, "a geo-anycast packet was forwarded by a station inside the area", 0, len(fwd))
        if big and not near_size and (fwd or [k for k in obs["state"]["cbf"] if list(k) == list(ev["src"]) + [ev["sn"]]]):
            ctx.property_failure("oversized_forward", inp, "a packet for an area larger than itsGnMaxGeoAreaSize was forwarded", 0, len(fwd))
        # Annex D: ego outside and the sender is known (PAI set) to be inside -> discard
        se = next((e for e in obs["state"]["loct"] if list(e["addr"]) == list(ev["src"])), None)
        if not inside and not big and se is not None and se["set"] and se["pv"][6]:
            # the sender position known to the station is the (newest) position vector in its location table
            fse = rs.f_value(area, se["pv"][4], se["pv"][5])
            if fse > 1e-6 and fwd:
                ctx.property_failure("annexD_discard", inp, "ego outside and sender inside the area: Annex D says discard, "
                                     "but the packet was forwarded", 0, len(fwd))
        ctx.nontriv(("rx", ev["kind"], area, inside))


def run(ctx):
    ctx.rule = ("GBC / GAC packets (fresh source+SN each) and requests whose circle / rectangle / ellipse (semi-axes 1..65535 m, "
                "azimuth 0..359) is placed so that the receiver lies inside, outside, just inside / outside the border, in the "
                "rectangle corner, or far away, at five ego positions in all hemispheres, itsGnMaxGeoAreaSize in {1,10,100}; "
                "delivery / forwarding / confirm checked against an independent evaluation of EN 302 931 (|F| < 1e-6 excluded) "
                "and compared with the model; non-trivial = verdict outside the tolerance band; distinct by (kind, area, inside)")
    rs.stack.patch_time()
    run_cases(ctx, 9000 if ctx.tier == "quick" else 60000)
    ctx.exhaustive = False


def replay(ctx, data):
    f = data.get("failure") or (data.get("broken") or [{}])[-1].get("first")
    print(json.dumps(f, default=str)[:3000])
    ctx.model = common.Model(MODEL_NAME)
    ctx.rng.seed(data.get("seed", 0))
    run(ctx)
    bad = ctx.failures or ctx.mismatches or ctx.known_hits
    print("REPRODUCED" if bad else "NOT REPRODUCED")
    return 1 if bad else 0
