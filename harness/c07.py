"""C07 - geo-addressed packets are delivered exactly inside the destination area."""
from __future__ import annotations

import json
import math

from . import common
from . import router_sim as rs
from . import stack

PROP = "C07"
COQ_TARGETS = ["Properties/C07", "Extract/ExRouter"]
MODEL_ML = "router_model.ml"
MODEL_NAME = "router"
TRUSTED_BASE = [
    "Coq 8.16.1 kernel (coqc); QArith/Lqa (lra, nra) - no axioms; no native_compute",
    "extraction (ExtrOcamlBasic only) + ocaml/driver_body.ml + OCaml 4.13.1",
    "Model/Geo.v states EN 302 931 over exact rationals; the implementation's floating-point evaluation and its "
    "projection of WGS-84 coordinates to metres are NOT modelled: the harness evaluates F independently (same "
    "equirectangular projection, earth radius 6 371 000 m) and excludes |F| < 1e-6 from the verdict",
    "hand-written Model/Router.v tied to the code by differential execution; Python harness",
]
ASSUMPTIONS = [
    "the inside/outside verdict fed to the router model is computed by the harness from EN 302 931, independently of the "
    "implementation; the Coq theorems about F are over Q and about the model's use of that verdict",
    "the packet-data-rate limiter (annex B.2) is not modelled; each test packet comes from a fresh (source, SN)",
]
EXPLANATION = ("theorems: F >= 0 iff inside for circle / rectangle / ellipse incl. rotation invariance of the circle (Q, all inputs); "
               "router delivers GBC/GAC iff inside (for every hop limit; on the last hop delivered and not forwarded), GAC inside is "
               "never forwarded, oversized areas refused / not forwarded, Annex D "
               "table; correspondence + oracle on receiver positions placed inside / outside / near the border of rotated areas")


def place_area(rng, ego, shape, a, b, angle, u, v):
    """area whose local frame puts the ego position at (u along the azimuth, v perpendicular) metres"""
    th = math.radians(angle)
    north = u * math.cos(th) - v * math.sin(th)
    east = u * math.sin(th) + v * math.cos(th)
    lat_e, lon_e = ego[0] / 1e7, ego[1] / 1e7
    lat_c = lat_e - math.degrees(north / rs.R_EARTH)
    lon_c = lon_e - math.degrees(east / (rs.R_EARTH * math.cos(math.radians((lat_e + lat_c) / 2))))
    return (int(round(lat_c * 1e7)), int(round(lon_c * 1e7)), a, b, angle, shape)


def gen_cases(ctx, n):
    rng = ctx.rng
    cases = []
    for _ in range(n):
        shape = rng.choice([0, 1, 2])
        a = rng.choice([1, 2, 5, 50, 100, 400, 1000, 1500, 5000, 65535, rng.randrange(1, 3000)])
        b = rng.choice([1, 2, 5, 30, 100, 400, 900, 65535, rng.randrange(1, 3000)])
        angle = rng.choice([0, 0, 30, 45, 90, 135, 180, 270, 359, rng.randrange(0, 360)])
        bb = a if shape == 0 else b
        mode = rng.choice(["inside", "inside", "outside", "outside", "border_in", "border_out", "corner", "far"])
        if mode == "inside":
            u, v = rng.uniform(-0.7, 0.7) * a, rng.uniform(-0.6, 0.6) * bb
            if shape != 1:
                u, v = u * 0.7, v * 0.7
        elif mode == "outside":
            u, v = rng.choice([-1, 1]) * rng.uniform(1.2, 3.0) * a, rng.uniform(-1, 1) * bb
            if rng.random() < 0.5:
                u, v = rng.uniform(-1, 1) * a, rng.choice([-1, 1]) * rng.uniform(1.2, 3.0) * bb
        elif mode == "border_in":
            u, v = rng.choice([-1, 1]) * 0.97 * a, 0.0
            if rng.random() < 0.5:
                u, v = 0.0, rng.choice([-1, 1]) * 0.97 * bb
        elif mode == "border_out":
            u, v = rng.choice([-1, 1]) * 1.03 * a, 0.0
            if rng.random() < 0.5:
                u, v = 0.0, rng.choice([-1, 1]) * 1.03 * bb
        elif mode == "corner":
            # inside the rectangle's corner region but outside the inscribed ellipse: separates the shapes and, with
            # a != b, the rotated from the unrotated area
            u, v = 0.85 * a * rng.choice([-1, 1]), 0.85 * bb * rng.choice([-1, 1])
        else:
            u, v = rng.uniform(3, 50) * a, rng.uniform(3, 50) * bb
        cases.append((shape, a, b, angle, u, v, mode))
    return cases


def point_in_frame(area, u, v):
    """position (lat, lon in wire units) that lies at (u along the azimuth, v perpendicular) metres in the frame of the area"""
    clat, clon, _a, _b, angle, _shape = area
    th = math.radians(angle)
    north = u * math.cos(th) - v * math.sin(th)
    east = u * math.sin(th) + v * math.cos(th)
    lat_c, lon_c = clat / 1e7, clon / 1e7
    lat_e = lat_c + math.degrees(north / rs.R_EARTH)
    lon_e = lon_c + math.degrees(east / (rs.R_EARTH * math.cos(math.radians((lat_e + lat_c) / 2))))
    return int(round(lat_e * 1e7)), int(round(lon_e * 1e7))


# remaining hop limit of the received packets: 1 = last permitted hop (delivered, never forwarded), 2 = forwarded with RHL 1,
# the default 10, both ends of the octet
RHL_VALUES = [1, 1, 2, 2, 3, 10, 255]

# rectangles whose size 4ab is EXACTLY itsGnMaxGeoAreaSize (not larger: to be accepted / forwarded), per limit in km2
EXACT_RECT = {1: [(500, 500), (250, 1000), (1000, 250), (125, 2000), (4, 62500)],
              10: [(2500, 1000), (1000, 2500), (50, 50000), (40, 62500)],
              100: [(5000, 5000), (2500, 10000), (500, 50000), (400, 62500)]}


def run_cases(ctx, n_cases):
    rng = ctx.rng
    egos = [(413800000, 21100000), (-338688000, 1512093000), (600000000, -1000000000), (-100, -100), (10, 1799000000),
            (850000000, 100000000), (-850000000, 300000000)]
    per = 60
    for start in range(0, n_cases, per):
        batch = start // per
        ego = egos[batch % len(egos)]
        rs.VCLOCK.set_ms(1_700_000_000_000 + start * 1000)
        maxa = rng.choice([10, 10, 1, 100])
        st = rs.Station(area_alg=rng.choice(["SIMPLE", "CBF", "UNSPECIFIED"]), ego=ego, max_area_km2=maxa,
                        mobile=rng.random() < 0.7)
        sc = rs.Scenario(rng, st, n_sources=4, rich=True)
        evs, meta = [], []
        used = []          # (area, kind) of the packets sent so far in this batch

        def add_rx(area, kind, mode, tag=""):
            src = rng.choice(sc.sources[1:])
            # hop-limit fields of the received packet: the delivery clause has no hop-limit precondition - a packet on its
            # LAST permitted hop (RHL = 1: the chain source -> forwarders -> this station used the whole hop limit of the
            # request) is delivered inside the area like any other, it is just not forwarded any further. RHL over its
            # range 1..255 (both ends), MHL = RHL (nobody forwarded it yet) or larger (RHL > MHL is a malformed packet: C04)
            rhl = rng.choice(RHL_VALUES)
            mhl = rng.choice([rhl, max(rhl, 10), min(255, rhl + rng.choice([1, 2, 9])), 255])
            ev = sc.rx_event(kind, src=src, area=area, rhl=rhl, mhl=mhl, scf=(rng.random() < 0.25))
            evs.append(ev)
            meta.append(("rx", area, mode + tag, ego))
            used.append((area, kind))
            sc.now += rng.choice([1, 20, 300])
            evs.append({"ev": "tick", "ms": 1})
            meta.append(None)

        def add_req(area, kind, mode, tag=""):
            q = sc.request_event("req_geo")
            r = q["r"]
            r[3], r[4] = (4 if kind == "gbc" else 3), area[5]
            r[8:13] = [area[0], area[1], area[2], area[3], area[4]]
            q["area"], q["dests"] = area, [(area[0], area[1])]
            evs.append(q)
            meta.append(("req", area, mode + tag, ego))

        # mostly with one neighbour (then forwarding is not suppressed by store-carry-forward); a share of the batches
        # has no neighbour at all, and packets carry SCF = 1 now and then: the size / Annex D clauses hold there too
        if batch % 4 != 3:
            evs.append(sc.rx_event("beacon", src=sc.sources[0], rhl=1, mhl=1))
            meta.append(None)
        for ci, (shape, a, b, angle, u, v, mode) in enumerate(gen_cases(ctx, per)):
            area = place_area(rng, ego, shape, a, b, angle, u, v)
            kind = rng.choice(["gbc", "gac"])
            if abs(area[0]) > 900000000 or abs(area[1]) >= 2 ** 31:
                ctx.count(1, "skipped_centre_outside_wgs84_range")     # (far away from a station at 85 degrees of latitude)
                continue
            if rng.random() < 0.15:
                add_req(area, kind, mode)
            else:
                add_rx(area, kind, mode)
                if mode == "corner" and rng.random() < 0.5:
                    # the same centre, semi-axes and azimuth under the two other shapes: the verdict belongs to the shape
                    for other in (0, 1, 2):
                        if other != shape:
                            add_rx(area[:5] + (other,), kind, mode, "_other_shape")
            if ci % 12 == 11 and used:
                # the station moves: an area used before is used again, and the verdict is the one for the new position
                # (a position on the other side of its border, or anywhere)
                old_area, old_kind = rng.choice(used)
                bb = old_area[2] if old_area[5] == 0 else old_area[3]
                was_in = rs.f_value(old_area, ego[0], ego[1]) >= 0
                if was_in:
                    uu, vv = rng.choice([-1, 1]) * rng.uniform(1.2, 2.5) * old_area[2], rng.uniform(-1, 1) * bb
                else:
                    uu, vv = rng.uniform(-0.5, 0.5) * old_area[2], rng.uniform(-0.5, 0.5) * bb
                prev_ego = ego
                if rng.random() < 0.3:
                    ego = (ego[0] + rng.randrange(-3000, 3001), ego[1] + rng.randrange(-3000, 3001))
                else:
                    ego = point_in_frame(old_area, uu, vv)
                if abs(ego[0]) <= 900000000 and abs(ego[1]) <= 1800000000:
                    pv = list(st.ego0)
                    pv[3], pv[4], pv[5] = sc.now % 2 ** 32, ego[0], ego[1]
                    evs.append({"ev": "ego", "pv": pv})
                    meta.append(None)
                    add_rx(old_area, old_kind, "moved", "_area_reused")
                    add_rx(old_area, "gac" if old_kind == "gbc" else "gbc", "moved", "_area_reused")
                else:
                    ego = prev_ego            # no move after all: the station stays where it is
        if batch % 3 == 0:
            # rectangles of exactly the maximum size, one octet more and one less (last in the batch: the model comparison
            # stops at a size within 1 m2 of the limit, the oracle does not)
            for (a, b) in rng.sample(EXACT_RECT[maxa], 2):
                for (da, tag) in ((0, "_size_exactly_max"), (1, "_size_just_above_max"), (-1, "_size_just_below_max")):
                    angle = rng.choice([0, 45, 90, 200])
                    kind = rng.choice(["gbc", "gac"])
                    inside = rng.random() < 0.4
                    u, v = (0.3 * a, 0.3 * b) if inside else (1.5 * a, 0.2 * b)
                    area = place_area(rng, ego, 1, a, b + da, angle, u, v)
                    if abs(area[0]) > 900000000 or abs(area[1]) >= 2 ** 31:
                        continue
                    if rng.random() < 0.4:
                        add_req(area, kind, "inside" if inside else "outside", tag)
                    else:
                        add_rx(area, kind, "inside" if inside else "outside", tag)
        impl, mtrace, skipped = rs.run_history(ctx, st, evs)
        oracle(ctx, st, evs, meta, impl)
    ctx.sample({"area(lat,lon,a,b,angle,shape)": list(area), "ego": list(ego), "mode": mode})


def _progress(area, ego, nbs):
    """greedy forwarding towards the centre of the area: is some neighbour closer to it than the station itself?
    None when two distances are too close to tell"""
    mfr = rs.dist_um(area[0], area[1], ego[0], ego[1])
    ds = [rs.dist_um(area[0], area[1], e["pv"][4], e["pv"][5]) for e in nbs]
    if any(abs(d - mfr) <= 5 for d in ds):
        return None
    return any(d < mfr for d in ds)


def oracle(ctx, st, evs, meta, impl):
    cbf_alg = st.params["area_alg"] == 2
    for idx, (ev, mt, obs) in enumerate(zip(evs, meta, impl)):
        if mt is None:
            continue
        what, area, mode, ego = mt
        f = rs.f_value(area, ego[0], ego[1])
        size = rs.area_size_m2(area)
        big = size > st.max_area_km2 * 1_000_000
        # the size of a rectangle (4ab) is exact; circle and ellipse involve pi: within 1 m2 of the limit no verdict
        near_size = area[5] != 1 and abs(size - st.max_area_km2 * 1_000_000) < 1.0
        inp = {"event_index": idx, "event": rs._ev_repr({k: v for k, v in ev.items() if k != "dests"}), "F_at_ego": f,
               "ego": list(ego), "mode": mode, "area_m2": size, "max_km2": st.max_area_km2}
        ctx.count(1, f"{what}_{mode}_shape{area[5]}")
        nbs = [e for e in obs["state"]["loct"] if e["nb"]]
        if what == "req":
            if near_size:
                continue
            scf = ev["r"][5]
            if big and (obs["sent"] or obs["confirm"] != 6):
                ctx.property_failure("oversized_request", inp, "a request for an area larger than itsGnMaxGeoAreaSize was not "
                                     "refused with GEOGRAPHICAL_SCOPE_TOO_LARGE", {"confirm": 6, "sent": 0},
                                     {"confirm": obs["confirm"], "sent": len(obs["sent"])})
            if not big and obs["confirm"] != 1:
                ctx.property_failure("request_refused", inp, "a request for an admissible area (not larger than "
                                     "itsGnMaxGeoAreaSize) was not accepted", 1, obs["confirm"])
            if not big and abs(f) >= 1e-6 and (nbs or not scf):
                # Annex D at the source: inside -> area forwarding (sent at once); outside -> towards the area: sent unless
                # no neighbour is closer and the packet may be stored (SCF)
                prog = True if f >= 0 else _progress(area, ego, nbs)
                if prog is not None and (prog or not scf) and len(obs["sent"]) != 1:
                    ctx.property_failure("request_not_sent", inp, "an accepted request for an admissible area was not "
                                         "transmitted (exactly once)", 1, len(obs["sent"]))
            ctx.nontriv(("req", area))
            continue
        if abs(f) < 1e-6:
            ctx.count(1, "skipped_border_band")
            continue
        inside = f >= 0
        delivered = len(obs["inds"]) > 0
        ctx.count(1, "rx_%s_%s_%s" % (ev["kind"], "last_hop_rhl1" if ev["rhl"] == 1 else "rhl2" if ev["rhl"] == 2 else "rhl3plus",
                                      "inside" if inside else "outside"))
        fwd = [p for p in obs["sent"]]
        buffered = [k for k in obs["state"]["cbf"] if list(k) == list(ev["src"]) + [ev["sn"]]]
        if obs["err"]:
            ctx.property_failure("exception", inp, "exception while processing a valid geo packet", None, obs["err"])
        if delivered != inside:
            ctx.property_failure("deliver_inside_mismatch", inp, "delivered to the upper layer while outside the area"
                                 if delivered else "not delivered although inside or on the border of the area",
                                 {"deliver": inside}, {"deliver": delivered})
        if ev["kind"] == "gac" and inside and (fwd or buffered):
            ctx.property_failure("gac_inside_forwarded", inp, "a geo-anycast packet was forwarded by a station inside the area", 0, len(fwd))
        if big and not near_size and (fwd or buffered):
            ctx.property_failure("oversized_forward", inp, "a packet for an area larger than itsGnMaxGeoAreaSize was forwarded", 0, len(fwd))
        # Annex D: ego outside and the sender is known (PAI set) to be inside -> discard
        se = next((e for e in obs["state"]["loct"] if list(e["addr"]) == list(ev["src"])), None)
        sender_inside = None     # None: no verdict (too close to the border)
        if se is not None and se["set"] and se["pv"][6]:
            # the sender position known to the station is the (newest) position vector in its location table
            fse = rs.f_value(area, se["pv"][4], se["pv"][5])
            sender_inside = None if abs(fse) <= 1e-6 else fse > 0
        else:
            sender_inside = False          # no valid sender position: Annex D goes on to non-area forwarding
        if not inside and not big and sender_inside and (fwd or buffered):
            ctx.property_failure("annexD_discard", inp, "ego outside and sender inside the area: Annex D says discard, "
                                 "but the packet was forwarded", 0, len(fwd))
        # Annex D, the forwarding side: where the standard selects area or non-area forwarding the packet does go on
        # (not oversized, hop limit not used up - packets on their last hop, RHL = 1, are delivered but go no further -,
        # and not held back by store-carry-forward)
        scf = ev["scf"]
        if not big and not near_size and (nbs or not scf) and ev["rhl"] >= 2:
            if inside and ev["kind"] == "gbc":
                went = bool(buffered) if cbf_alg else len(fwd) == 1
                if not went:
                    ctx.property_failure("area_forward_missing", inp, "ego inside the area: Annex D selects area forwarding, but "
                                         "the GeoBroadcast packet was neither re-broadcast nor put into the CBF buffer",
                                         "cbf buffer" if cbf_alg else 1, {"sent": len(fwd), "cbf": buffered})
            elif not inside and sender_inside is False:
                prog = _progress(area, ego, nbs)
                if prog is not None and (prog or not scf) and len(fwd) != 1:
                    ctx.property_failure("non_area_forward_missing", inp, "ego outside the area and the sender not known to be "
                                         "inside: Annex D selects non-area forwarding (towards the area), but the packet was "
                                         "not forwarded", 1, len(fwd))
        ctx.nontriv(("rx", ev["kind"], area, inside))


def run(ctx):
    ctx.rule = ("GBC / GAC packets (fresh source+SN each, every header field varied, remaining hop limit 1 = last permitted hop, "
                "2, 3, 10, 255 with MHL >= RHL) and requests whose circle / rectangle / "
                "ellipse (semi-axes 1..65535 m, azimuth 0..359) is placed so that the receiver lies inside, outside, just inside / "
                "outside the border, in the rectangle corner (then also under the two other shapes), or far away, at seven ego "
                "positions in all hemispheres incl. 85 N and 85 S; the station moves and earlier areas are used again; "
                "itsGnMaxGeoAreaSize in {1,10,100} with rectangles of exactly that size, just above and just below; delivery / "
                "forwarding / non-forwarding / confirm checked against an independent evaluation of EN 302 931 and Annex D "
                "(|F| < 1e-6 excluded) and compared with the model; non-trivial = verdict outside the tolerance band; distinct by "
                "(kind, area, inside)")
    rs.stack.patch_time()
    run_cases(ctx, 7200 if ctx.tier == "quick" else 60000)
    ctx.exhaustive = False


def replay(ctx, data):
    f = data.get("failure") or (data.get("broken") or [{}])[-1].get("first")
    print(json.dumps(f, default=str)[:3000])
    ctx.model = common.Model(MODEL_NAME)
    ctx.rng.seed(data.get("seed", 0))
    run(ctx)
    bad = ctx.failures or ctx.mismatches or ctx.known_hits
    print("REPRODUCED" if bad else "NOT REPRODUCED")
    return 1 if bad else 0
