"""Deterministic scheduler for real Python threads (C15 / C16).

Every actor runs in a real `threading.Thread`; a `sys.settrace` hook parks the thread at every *line* event inside
the traced source files and at every lock operation of the cooperative `SchedLock` / `SchedRLock` objects that
replace `threading.Lock` / `RLock` in the modules under test.  Exactly one thread runs at a time; the controller
decides who runs next, so a schedule is a list of thread ids and can be replayed exactly.

Granularity is the source line (coarser than CPython's bytecode switch points - stated in the evidence).
"""
from __future__ import annotations

import sys
import threading


class Deadlock(Exception):
    pass


class SchedLock:
    """cooperative replacement for threading.Lock (non re-entrant)"""
    reentrant = False

    def __init__(self):
        self.owner = None
        self.count = 0
        self.name = None

    def _free_for(self, tid):
        return self.owner is None or (self.reentrant and self.owner == tid)

    def acquire(self, blocking=True, timeout=-1):
        s = Scheduler.current
        if s is None or s.me() is None:
            # outside a scheduled run (set-up phase): behave like an uncontended lock
            if self.owner is None or self.reentrant:
                self.owner = self.owner or "setup"
                self.count += 1
                return True
            raise RuntimeError("lock contended outside a scheduled run")
        tid = s.me()
        while True:
            s.park(tid, blocked_on=self)
            if self._free_for(tid):
                self.owner = tid
                self.count += 1
                s.log.append((tid, "acq", self.name or id(self)))
                return True
            if not blocking:
                return False

    def release(self):
        s = Scheduler.current
        self.count -= 1
        if self.count <= 0:
            self.owner = None
            self.count = 0
        if s is not None and s.me() is not None:
            s.log.append((s.me(), "rel", self.name or id(self)))

    def locked(self):
        return self.owner is not None

    def __enter__(self):
        self.acquire()
        return self

    def __exit__(self, *a):
        self.release()
        return False


class SchedRLock(SchedLock):
    reentrant = True


class Actor:
    def __init__(self, tid, fn):
        self.tid, self.fn = tid, fn
        self.go = threading.Event()
        self.parked = threading.Event()
        self.finished = False
        self.blocked_on = None
        self.exc = None
        self.thread = None
        self.steps = 0


class Scheduler:
    current = None

    def __init__(self, traced_files):
        self.traced = tuple(traced_files)
        self.actors = []
        self.log = []
        self.trace_points = 0
        self._local = threading.local()

    def me(self):
        return getattr(self._local, "tid", None)

    # ---- called from actor threads -----------------------------------------------------------
    def park(self, tid, blocked_on=None):
        a = self.actors[tid]
        a.blocked_on = blocked_on
        a.go.clear()
        a.parked.set()
        a.go.wait()
        a.blocked_on = None

    def _trace(self, frame, event, arg):
        if event == "call":
            fn = frame.f_code.co_filename
            if fn.endswith(self.traced):
                return self._trace_lines
            return None
        return None

    def _trace_lines(self, frame, event, arg):
        if event == "line":
            tid = self.me()
            if tid is not None:
                self.trace_points += 1
                self.actors[tid].steps += 1
                self.park(tid)
        return self._trace_lines

    def _body(self, a):
        self._local.tid = a.tid
        sys.settrace(self._trace)
        try:
            self.park(a.tid)            # wait for the first slot
            a.fn()
        except BaseException as e:      # noqa: BLE001 - reported by the oracle ("no thread fails")
            a.exc = e
        finally:
            sys.settrace(None)
            a.finished = True
            a.parked.set()

    # ---- controller -----------------------------------------------------------------------------
    def run(self, fns, choose, max_steps=20000):
        """fns: thread bodies; choose(enabled_tids, current_tid) -> tid. Returns the schedule actually taken."""
        Scheduler.current = self
        self.actors = [Actor(i, f) for i, f in enumerate(fns)]
        self.log = []
        for a in self.actors:
            a.thread = threading.Thread(target=self._body, args=(a,), daemon=True)
            a.thread.start()
        for a in self.actors:
            a.parked.wait()
        schedule = []
        cur = None
        try:
            for _ in range(max_steps):
                live = [a for a in self.actors if not a.finished]
                if not live:
                    break
                enabled = [a.tid for a in live
                           if a.blocked_on is None or a.blocked_on._free_for(a.tid)]
                if not enabled:
                    raise Deadlock([(a.tid, getattr(a.blocked_on, "name", None)) for a in live])
                tid = choose(enabled, cur)
                schedule.append(tid)
                cur = tid
                a = self.actors[tid]
                a.parked.clear()
                a.go.set()
                a.parked.wait()
            else:
                raise Deadlock("step limit")
        finally:
            # let every remaining thread run to completion, one at a time (clean-up after an abort)
            for a in self.actors:
                guard = 0
                while not a.finished and guard < 100000:
                    guard += 1
                    if a.blocked_on is not None and not a.blocked_on._free_for(a.tid):
                        a.blocked_on.owner = None
                        a.blocked_on.count = 0
                    a.parked.clear()
                    a.go.set()
                    a.parked.wait()
            Scheduler.current = None
        return schedule


# ---- schedule enumeration ----------------------------------------------------------------------
def explore(make_run, bound, max_runs, rng=None, random_runs=0):
    """Systematic exploration with a preemption bound, then random schedules.

    make_run() -> (run(choose) -> schedule, check(schedule) -> None). A fresh world is built for every run.
    Yields (schedule, n_alternatives). """
    stack = [([], 0)]            # (forced prefix, preemptions used by the prefix)
    seen = set()
    runs = 0
    while stack and runs < max_runs:
        prefix, _ = stack.pop()
        run, check = make_run()
        branch_points = []

        def choose(enabled, cur, prefix=prefix, bp=branch_points):
            i = len(bp)
            if i < len(prefix) and prefix[i] in enabled:
                c = prefix[i]
            elif cur in enabled:
                c = cur
            else:
                c = min(enabled)
            bp.append((tuple(enabled), cur, c))
            return c

        sched = run(choose)
        runs += 1
        key = tuple(sched)
        if key in seen:
            continue
        seen.add(key)
        check(sched)
        yield sched, len(branch_points)
        # new prefixes: at every step after the forced prefix, try each alternative
        pre = 0
        used = []
        for i, (enabled, cur, c) in enumerate(branch_points):
            used.append(pre)
            if cur is not None and cur in enabled and c != cur:
                pre += 1
        for i in range(len(prefix), len(branch_points)):
            enabled, cur, c = branch_points[i]
            for alt in enabled:
                if alt == c:
                    continue
                cost = used[i] + (1 if (cur is not None and cur in enabled and alt != cur) else 0)
                if cost <= bound:
                    stack.append(([bp[2] for bp in branch_points[:i]] + [alt], cost))
    for _ in range(random_runs):
        run, check = make_run()
        pri = {}

        def choose(enabled, cur):
            # random priorities with occasional priority-change points
            if rng.random() < 0.15 or cur not in enabled:
                return rng.choice(enabled)
            return cur

        sched = run(choose)
        key = tuple(sched)
        if key in seen:
            continue
        seen.add(key)
        check(sched)
        yield sched, -1


def one_switch(make_run, n_threads, max_k, seen=None):
    """Schedules with a single hand-over: thread a runs k steps, then thread b runs to completion (then the others), then a
    finishes - for every ordered pair (a, b) and k = 0 .. max_k-1 (stops early when a finishes before k steps).  Most
    check-then-act races need exactly this shape: the whole competing operation inside one window of the first."""
    seen = set() if seen is None else seen
    for a in range(n_threads):
        for b in range(n_threads):
            if a == b:
                continue
            for k in range(max_k):
                run, check = make_run()
                taken = [0]

                def choose(enabled, cur, a=a, b=b, k=k):
                    if taken[0] < k and a in enabled:
                        taken[0] += 1
                        return a
                    if b in enabled:
                        return b
                    others = [t for t in enabled if t != a]
                    if others:
                        return min(others)
                    return a if a in enabled else min(enabled)
                sched = run(choose)
                done_early = taken[0] < k
                key = tuple(sched)
                if key not in seen:
                    seen.add(key)
                    check(sched)
                    yield sched, -2
                if done_early:
                    break
