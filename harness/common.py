"""Shared machinery of the FlexStack proof-based checks.

One run of a property check:
  1. regenerate coq/theories/Gen/*.v from the repository's current working tree
  2. (re)build the Coq development for the property (full .vo), collect
     obligations / Print Assumptions, extract the model, build the OCaml driver
  3. the property module runs the implementation and the extracted model on the
     same inputs; it reports
        ctx.property_failure(...)   the property fails on the implementation
        ctx.mismatch(...)           model and implementation disagree
  4. verdict, replay files, evidence file
"""
from __future__ import annotations

import fcntl
import hashlib
import json
import os
import random
import re
import subprocess
import sys
import time
import traceback

VERIF = os.path.dirname(os.path.dirname(os.path.abspath(__file__)))
REPO = os.environ.get("FLEXVERIF_REPO", "/repo")
SRC = os.path.join(REPO, "src")
COQ = os.path.join(VERIF, "coq")
BUILD = os.path.join(VERIF, "build")
OCAML_BUILD = os.path.join(BUILD, "ocaml")
REPLAYS = os.path.join(VERIF, "replays")
# evidence/ describes runs against /repo itself; a run against another checkout (FLEXVERIF_REPO, used to evaluate seeded
# regressions in scratch worktrees) writes its evidence under build/ so that it can never be committed by mistake
EVIDENCE = os.path.join(VERIF, "evidence") if os.path.realpath(REPO) == "/repo" else os.path.join(BUILD, "evidence_other_checkout")
GUARD = "FLEXSTACK_VERIF"

ALLOWED_AXIOMS = {
    # standard-library axioms that a proof may depend on; each one that is
    # actually used is named in the evidence file of the property.
    "Coq.Logic.FunctionalExtensionality.functional_extensionality_dep",
    "Coq.Logic.Eqdep.Eq_rect_eq.eq_rect_eq",
    "Coq.Logic.Classical_Prop.classic",
    "Coq.Logic.ProofIrrelevance.proof_irrelevance",
    "Coq.Logic.JMeq.JMeq_eq",
}

FORBIDDEN = re.compile(
    r"\b(Admitted|admit|Axiom|Axioms|Parameter|Parameters|Conjecture|Hypothesis|Hypotheses|Variable|Variables|"
    r"Admit Obligations|Unset Guard Checking|Unset Positivity Checking|Unset Universe Checking|"
    r"bypass_check|type-in-type|impredicative-set|native_compute)\b"
)


def use_repo_sources() -> None:
    """Make `import flexstack` resolve to the working tree under test."""
    if SRC not in sys.path[:1]:
        sys.path.insert(0, SRC)
    os.environ[GUARD] = "1"


def sh(cmd, cwd=None, timeout=1800, env=None):
    p = subprocess.run(cmd, cwd=cwd, shell=isinstance(cmd, str), stdout=subprocess.PIPE,
                       stderr=subprocess.STDOUT, text=True, timeout=timeout, env=env)
    return p.returncode, p.stdout


class BuildLock:
    def __enter__(self):
        os.makedirs(BUILD, exist_ok=True)
        self.f = open(os.path.join(BUILD, ".lock"), "w")
        fcntl.flock(self.f, fcntl.LOCK_EX)
        return self

    def __exit__(self, *a):
        fcntl.flock(self.f, fcntl.LOCK_UN)
        self.f.close()


def strip_coq_comments(text: str) -> str:
    out, depth, i = [], 0, 0
    while i < len(text):
        if text.startswith("(*", i):
            depth += 1
            i += 2
        elif text.startswith("*)", i) and depth > 0:
            depth -= 1
            i += 2
        else:
            if depth == 0:
                out.append(text[i])
            i += 1
    return "".join(out)


def forbidden_tokens() -> list:
    """Scan every .v file of the development for constructs that declare axioms
    or switch off kernel checks (Section-local Variable/Hypothesis are allowed
    only inside a Section; we simply do not use them outside)."""
    bad = []
    for root, _, files in os.walk(os.path.join(COQ, "theories")):
        for f in files:
            if not f.endswith(".v"):
                continue
            path = os.path.join(root, f)
            text = strip_coq_comments(open(path).read())
            depth = 0
            for ln, line in enumerate(text.split("\n"), 1):
                if re.match(r"\s*Section\b", line):
                    depth += 1
                if re.match(r"\s*End\b", line) and depth > 0:
                    depth -= 1
                for m in FORBIDDEN.finditer(line):
                    tok = m.group(1)
                    if tok in ("Variable", "Variables", "Hypothesis", "Hypotheses") and depth > 0:
                        continue
                    bad.append(f"{os.path.relpath(path, VERIF)}:{ln}: {tok}")
    return bad


def write_if_changed(path: str, content: str) -> bool:
    try:
        if open(path).read() == content:
            return False
    except FileNotFoundError:
        pass
    os.makedirs(os.path.dirname(path), exist_ok=True)
    with open(path, "w") as f:
        f.write(content)
    return True


def regen_coqproject() -> None:
    files = []
    for root, _, fs in os.walk(os.path.join(COQ, "theories")):
        for f in fs:
            if f.endswith(".v"):
                files.append(os.path.relpath(os.path.join(root, f), COQ))
    content = "-Q theories FlexVerif\n" + "\n".join(sorted(files)) + "\n"
    if write_if_changed(os.path.join(COQ, "_CoqProject"), content) or not os.path.exists(
            os.path.join(COQ, "Makefile")):
        sh("coq_makefile -f _CoqProject -o Makefile", cwd=COQ)


def run_generators(gens) -> list:
    """Run translators tools/<name>.py which rewrite Gen/*.v from REPO."""
    errs = []
    for g in gens:
        rc, out = sh([sys.executable, os.path.join(VERIF, "tools", g + ".py")],
                     env=dict(os.environ, FLEXVERIF_REPO=REPO, PYTHONPATH=SRC, PYTHONHASHSEED="0"))
        if rc != 0:
            errs.append(f"translator {g} failed (tie to the source broken):\n{out[-2000:]}")
    return errs


class ProofResult:
    def __init__(self):
        self.obligations = []
        self.discharged = []
        self.axioms = {}
        self.errors = []
        self.checker_cmd = ""
        self.wall = 0.0

    @property
    def ok(self):
        return not self.errors and len(self.discharged) == len(self.obligations) and self.obligations


def build_property(prop: str, coq_targets, model_ml: str | None, gens=()) -> ProofResult:
    """Full .vo build of the closure of the property's files; returns obligations."""
    t0 = time.time()
    res = ProofResult()
    with BuildLock():
        res.errors += run_generators(gens)
        regen_coqproject()
        bad = forbidden_tokens()
        if bad:
            res.errors.append("forbidden constructs in the development: " + "; ".join(bad))
        targets = " ".join(f"theories/{t}.vo" for t in coq_targets)
        cmd = f"timeout 1500 make -j16 {targets}"
        res.checker_cmd = f"cd coq && coq_makefile -f _CoqProject -o Makefile && {cmd}  (coqc 8.16.1, full .vo build) ; Print Assumptions per theorem"
        rc, out = sh(cmd, cwd=COQ, timeout=1600)
        if rc != 0:
            res.errors.append("coq build failed:\n" + out[-3000:])
        # obligations = theorems stated in Properties/<prop>.v
        pfile = os.path.join(COQ, "theories", "Properties", f"{prop}.v")
        text = strip_coq_comments(open(pfile).read())
        res.obligations = re.findall(r"^\s*Theorem\s+([A-Za-z0-9_']+)", text, flags=re.M)
        if rc == 0:
            pa = os.path.join(BUILD, "pa")
            os.makedirs(pa, exist_ok=True)
            body = f"From FlexVerif Require Import Properties.{prop}.\n"
            for th in res.obligations:
                body += f'Goal True. idtac "@@ {th}". exact I. Qed.\nPrint Assumptions {th}.\n'
            vf = os.path.join(pa, f"PA_{prop}.v")
            open(vf, "w").write(body)
            rc2, out2 = sh(f"timeout 600 coqc -Q {COQ}/theories FlexVerif {vf}", cwd=pa)
            if rc2 != 0:
                res.errors.append("Print Assumptions run failed:\n" + out2[-2000:])
            else:
                cur = None
                for line in out2.split("\n"):
                    if line.startswith("@@ "):
                        cur = line[3:].strip()
                        res.axioms[cur] = []
                    elif cur is not None:
                        s = line.strip()
                        if s == "Closed under the global context" or s == "Axioms:" or not s:
                            continue
                        m = re.match(r"^([A-Za-z0-9_.']+)\s*:", s)
                        if m and not line.startswith("  "):
                            res.axioms[cur].append(m.group(1))
                for th in res.obligations:
                    if th not in res.axioms:
                        res.errors.append(f"no Print Assumptions output for {th}")
                        continue
                    extra = [a for a in res.axioms[th]
                             if a not in ALLOWED_AXIOMS and not _is_primitive(a)]
                    if extra:
                        res.errors.append(f"theorem {th} depends on non-allowed axioms {extra}")
                    else:
                        res.discharged.append(th)
        # extraction + driver
        if model_ml and rc == 0:
            src = os.path.join(COQ, model_ml)
            os.makedirs(OCAML_BUILD, exist_ok=True)
            drv_ml = os.path.join(OCAML_BUILD, model_ml.replace("_model.ml", "_driver.ml"))
            exe = drv_ml[:-3]
            content = open(src).read() + "\n" + open(os.path.join(VERIF, "ocaml", "driver_body.ml")).read()
            if write_if_changed(drv_ml, content) or not os.path.exists(exe):
                rc3, out3 = sh(f"ocamlfind ocamlopt -w -a {os.path.basename(drv_ml)} -o {os.path.basename(exe)}",
                               cwd=OCAML_BUILD)
                if rc3 != 0:
                    res.errors.append("ocaml driver build failed:\n" + out3[-2000:])
    res.wall = time.time() - t0
    return res


def _is_primitive(name: str) -> bool:
    return name.startswith("Coq.Numbers.Cyclic.Int63") or name.startswith("Coq.Floats") \
        or name.startswith("Uint63.") or name.startswith("PrimFloat.")


def hx(n: int) -> str:
    return format(n, "x") if n >= 0 else "-" + format(-n, "x")


def unhx(s: str) -> int:
    return int(s, 16)


class Model:
    """The extracted Gallina model behind a line protocol (see ocaml/driver_body.ml)."""

    def __init__(self, name: str):
        self.exe = os.path.join(OCAML_BUILD, f"{name}_driver")
        self.available = os.path.exists(self.exe)
        self.calls = 0

    def batch(self, reqs):
        """reqs: iterable of (cmd, [ints]) -> list of [ints]"""
        reqs = list(reqs)
        if not reqs:
            return []
        data = "\n".join(" ".join([hx(c)] + [hx(int(a)) for a in args]) for c, args in reqs) + "\n"
        p = subprocess.run(["bash", "-c", f"ulimit -s unlimited 2>/dev/null; exec {self.exe}"],
                           input=data, stdout=subprocess.PIPE, stderr=subprocess.PIPE, text=True)
        if p.returncode != 0:
            raise RuntimeError(f"model driver failed: {p.stderr[-500:]}")
        lines = p.stdout.split("\n")
        if lines and lines[-1] == "":
            lines.pop()
        if len(lines) != len(reqs):
            raise RuntimeError(f"model driver returned {len(lines)} lines for {len(reqs)} requests")
        self.calls += len(reqs)
        return [[unhx(t) for t in ln.split()] for ln in lines]

    def call(self, cmd, args):
        return self.batch([(cmd, args)])[0]


def load_known_findings(prop: str):
    path = os.path.join(VERIF, "known_findings", f"{prop}.json")
    try:
        data = json.load(open(path))
    except FileNotFoundError:
        return []
    return [e for e in data.get("findings", []) if e.get("property") == prop and e.get("status") == "open"]


class Ctx:
    def __init__(self, prop: str, tier: str, seed: int):
        self.prop = prop
        self.tier = tier
        self.seed = seed
        self.rng = random.Random(seed)
        self.evaluations = 0
        self.nontrivial = set()
        self.samples = []
        self.dist = {}
        self.failures = []      # property fails on the implementation
        self.mismatches = []    # model vs implementation
        self.known_hits = {}    # finding id -> first failure
        self.notes = []
        self.exhaustive = None
        self.known = load_known_findings(prop)
        self.t0 = time.time()
        self.model_evals = 0
        self.rule = ""

    # -- bookkeeping -------------------------------------------------------
    def count(self, n=1, kind=None):
        self.evaluations += n
        if kind is not None:
            self.dist[kind] = self.dist.get(kind, 0) + n

    def nontriv(self, key):
        """Register a distinct non-trivial case (by canonical key)."""
        if not isinstance(key, (str, int, tuple)):
            key = json.dumps(key, sort_keys=True, default=str)
        if len(self.nontrivial) < 2_000_000:
            self.nontrivial.add(hash(key) if not isinstance(key, int) else key)

    def sample(self, s, cap=8):
        if len(self.samples) < cap:
            self.samples.append(s)

    # -- failures ----------------------------------------------------------
    def property_failure(self, cls: str, inp, detail: str, expected=None, observed=None):
        """The implementation violates the property on `inp`. `cls` is the
        failure class used to match known findings."""
        rec = {"kind": "property_failure", "class": cls, "input": inp, "detail": detail,
               "expected": expected, "observed": observed}
        for k in self.known:
            if k.get("class") == cls:
                self.known_hits.setdefault(k["id"], rec)
                return
        if len(self.failures) < 50:
            self.failures.append(rec)

    def mismatch(self, relation: str, inp, model, impl, detail: str = ""):
        rec = {"kind": "correspondence", "relation": relation, "input": inp, "model": model,
               "impl": impl, "detail": detail}
        if len(self.mismatches) < 50:
            self.mismatches.append(rec)


def write_replay(prop: str, tag: str, payload: dict) -> str:
    os.makedirs(REPLAYS, exist_ok=True)
    h = hashlib.sha1(json.dumps(payload, sort_keys=True, default=str).encode()).hexdigest()[:10]
    path = os.path.join(REPLAYS, f"{prop}-{tag}-{h}.json")
    with open(path, "w") as f:
        json.dump(payload, f, indent=1, default=str)
    return path


def finish(ctx: Ctx, proof: ProofResult, trusted_base, assumptions, level_explanation="") -> int:
    """Print verdict lines, write evidence, return exit status."""
    prop = ctx.prop
    status = 0
    # known findings: report each listed finding that was re-observed
    for k in ctx.known:
        if k["id"] in ctx.known_hits:
            print(f"KNOWN-FINDING: property={prop} {k['id']}: {k['what']}")
        else:
            ctx.notes.append(f"known finding {k['id']} was not re-observed in this run")
    if ctx.failures:
        status = 1
        f0 = ctx.failures[0]
        path = write_replay(prop, "fail", {"property": prop, "seed": ctx.seed, "tier": ctx.tier,
                                            "failure": f0, "more": ctx.failures[1:10]})
        print(f"VIOLATION property={prop} replay={path}")
    elif ctx.mismatches or not proof.ok:
        status = 1
        what = {"property": prop, "seed": ctx.seed, "tier": ctx.tier,
                "broken": [],
                "note": "no input was found on which the implementation itself violates the property; "
                        "the property is no longer shown to hold"}
        if not proof.ok:
            missing = [t for t in proof.obligations if t not in proof.discharged]
            what["broken"].append({"kind": "proof", "theorems_not_checked": missing or proof.obligations,
                                   "errors": proof.errors})
        if ctx.mismatches:
            what["broken"].append({"kind": "correspondence", "first": ctx.mismatches[0],
                                   "more": ctx.mismatches[1:10]})
        path = write_replay(prop, "broken", what)
        print(f"VIOLATION property={prop} replay={path} no-failing-input-found")
    wall = time.time() - ctx.t0
    ev = {
        "property_id": prop,
        "tier": ctx.tier,
        "seed": ctx.seed,
        "level": "proof",
        "coverage": {
            "obligations": len(proof.obligations),
            "discharged": len(proof.discharged),
            "checker_cmd": proof.checker_cmd,
            "trusted_base": trusted_base,
            "theorems": proof.obligations,
            "axioms_per_theorem": {k: (v or ["Closed under the global context"]) for k, v in proof.axioms.items()},
            "proof_build_wall_s": round(proof.wall, 2),
            "evaluations": ctx.evaluations,
            "distinct_nontrivial": len(ctx.nontrivial),
            "rule": ctx.rule,
            "samples": ctx.samples or ["(no correspondence case executed)"],
            "input_distribution": ctx.dist,
            "model_evaluations": ctx.model_evals,
            "correspondence_mismatches": len(ctx.mismatches),
            "known_findings_reobserved": sorted(ctx.known_hits),
            "explanation": level_explanation,
        },
        "assumptions": assumptions + ctx.notes,
        "wall_s": round(wall, 2),
        "violations": len(ctx.failures) + (1 if (status and not ctx.failures) else 0),
    }
    if ctx.exhaustive is not None:
        ev["coverage"]["exhaustive"] = bool(ctx.exhaustive)
    os.makedirs(EVIDENCE, exist_ok=True)
    with open(os.path.join(EVIDENCE, f"{prop}.json"), "w") as f:
        json.dump(ev, f, indent=1, default=str)
    return status


def main(mod) -> int:
    """Entry point used by ./check: `mod` is the property's harness module."""
    import argparse
    ap = argparse.ArgumentParser()
    ap.add_argument("--tier", default=os.environ.get("VERIF_TIER", "quick"), choices=["quick", "thorough"])
    ap.add_argument("--replay", default=None)
    ap.add_argument("--seed", type=int, default=int(os.environ.get("VERIF_SEED", "20260923")))
    args = ap.parse_args(sys.argv[2:])
    use_repo_sources()
    ctx = Ctx(mod.PROP, args.tier, args.seed)
    if args.replay:
        data = json.load(open(args.replay))
        return mod.replay(ctx, data)
    proof = build_property(mod.PROP, mod.COQ_TARGETS, getattr(mod, "MODEL_ML", None), getattr(mod, "GENS", ()))
    if proof.errors:
        sys.stderr.write("\n".join(proof.errors) + "\n")
    model = Model(mod.MODEL_NAME) if getattr(mod, "MODEL_NAME", None) else None
    ctx.model = model
    ctx.proof_ok = bool(proof.ok)      # a harness may search harder for a failing input when an obligation broke
    try:
        mod.run(ctx)
    except Exception:  # a crash of the harness is a broken check, never silently green
        tb = traceback.format_exc()
        sys.stderr.write(tb)
        ctx.mismatch("harness-crash", None, None, None, tb[-3000:])
    if model is not None:
        ctx.model_evals = model.calls
    return finish(ctx, proof, mod.TRUSTED_BASE, mod.ASSUMPTIONS, getattr(mod, "EXPLANATION", ""))
