"""C18 helper: drives the real VBSClusteringManager from event tuples, canonicalises its state, and
holds the independent property oracle. Imported by harness/c18.py.

Events (JSON-able lists):
  ["tick", dt]  ["role_on"]  ["role_off"]  ["try_create", [draws]]  ["join", cid]  ["cancel"]
  ["fail"]  ["leave", reason_code]  ["breakup", reason_code]  ["update"]
  ["rx", {"sender", "near", "info": null | [cid|null, card], "join": cid|null, "leave": cid|null,
          "breakup": reason_code|null, optional "pos": index into POSITIONS (must agree with "near"),
          optional "leave_reason": reason_code of the clusterLeaveInfo (default notProvided)}]
Time is in ticks of 1/1024 s; the injected time_fn returns ticks/1024 (an exact double).
"""
from __future__ import annotations

import logging
import math
from fractions import Fraction

logging.getLogger("vru_basic_service").setLevel(logging.CRITICAL)

TPS = 1024
OWN_LAT, OWN_LON = 41.38, 2.11          # fixed own position used for try_create_cluster / update
NEAR_DLAT, FAR_DLAT = 0.00001, 0.001     # 1.1 m and 111 m north of the own position

# written from the ASN.1 module (ClusterLeaveReason / ClusterBreakupReason, in order)
LEAVE_REASONS = ["notProvided", "clusterLeaderLost", "clusterDisbandedByLeader", "outOfClusterBoundingBox",
                 "outOfClusterSpeedRange", "joiningAnotherCluster", "cancelledJoin", "failedJoin", "safetyCondition"]
BREAKUP_REASONS = ["notProvided", "clusteringPurposeCompleted", "leaderMovedOutOfClusterBoundingBox",
                   "joiningAnotherCluster", "enteringLowRiskAreaBasedOnMaps", "receptionOfCpmContainingCluster"]
PROFILES = ["pedestrian", "bicyclistAndLightVruVehicle", "motorcyclist", "animal"]
PROFILE_BYTE = {"pedestrian": 0x80, "bicyclistAndLightVruVehicle": 0x40, "motorcyclist": 0x20, "animal": 0x10}
CPM = 5
STATE_NAMES = ["VRU-IDLE", "VRU-ACTIVE-STANDALONE", "VRU-ACTIVE-CLUSTER-LEADER", "VRU-PASSIVE"]
JSUB = ["none", "notify", "waiting", "joined", "cancelled", "failed"]
LSUB = ["none", "notify"]


def flat_distance_m(lat1, lon1, lat2, lon2):
    """equirectangular distance; independent of the implementation's haversine"""
    k = 111_194.9  # metres per degree on a 6 371 km sphere
    return math.hypot((lat2 - lat1) * k, (lon2 - lon1) * k * math.cos(math.radians((lat1 + lat2) / 2)))


def is_near(lat, lon):
    d = flat_distance_m(OWN_LAT, OWN_LON, lat, lon)
    if 4.0 < d < 6.0:
        raise AssertionError("harness generated a position inside the excluded band around 5 m")
    return d <= 5.0


def ticks(x):
    """exact tick count of a float/Fraction number of seconds (None stays None)"""
    if x is None:
        return None
    f = Fraction(x) * TPS
    if f.denominator != 1:
        raise AssertionError(f"time value {x!r} is not a whole number of ticks")
    return int(f)


class Clock:
    def __init__(self, t0):
        self.ticks = t0

    def __call__(self):
        return self.ticks / TPS


class ScriptedRandom:
    """stands in for the `random` module inside vru_clustering: randint returns the scripted draws,
    then keeps returning the last one (so at most 100 attempts see nothing new)"""

    def __init__(self):
        self.draws = []
        self.i = 0
        self.bad_args = None

    def load(self, draws):
        self.draws = list(draws)
        self.i = 0

    def randint(self, a, b):
        if (a, b) != (1, 255):
            self.bad_args = (a, b)
        if not self.draws:
            raise AssertionError("randint called without scripted draws")
        v = self.draws[min(self.i, len(self.draws) - 1)]
        self.i += 1
        return v


RANDOM = ScriptedRandom()


def modules():
    from flexstack.facilities.vru_awareness_service import vru_clustering as vc
    from flexstack.facilities.vru_awareness_service import vam_constants as K
    if vc.random is not RANDOM:
        vc.random = RANDOM
    return vc, K


def lat_of(near):
    return OWN_LAT + (NEAR_DLAT if near else FAR_DLAT)


# audit round: senders in every direction and at distances next to the excluded band around MAX_CLUSTER_DISTANCE
# (north, east) offsets in metres from the own position; an rx event may name one with "pos": index
POSITIONS = [(1.1, 0.0), (111.0, 0.0), (0.0, 3.9), (0.0, -3.9), (-3.9, 0.0), (2.7, -2.7), (-2.7, 2.7), (0.0, 6.3),
             (0.0, -6.3), (-6.3, 0.0), (6.3, 0.0), (4.6, 4.6), (-4.6, -4.6), (0.0, 111.0), (0.0, -111.0), (-111.0, 0.0),
             (3.9, 0.0), (0.0, 0.0), (0.3, 3.8), (80.0, -80.0)]
M_PER_DEG = 111_194.9


def pos_latlon(i):
    """position i in wire units (1e-7 degree), as a station there would report it"""
    n, e = POSITIONS[i]
    lat = OWN_LAT + n / M_PER_DEG
    lon = OWN_LON + e / (M_PER_DEG * math.cos(math.radians(OWN_LAT)))
    return int(round(lat * 1e7)), int(round(lon * 1e7))


def pos_near(i):
    n, e = POSITIONS[i]
    d = math.hypot(n, e)
    if 4.0 < d < 6.0:
        raise AssertionError("position inside the excluded band around 5 m")
    return d <= 5.0


def vam_dict(v, decoded_form: bool):
    """the decoded-VAM dict handed to on_received_vam. decoded_form: CHOICE values as (name, value) as the
    real coder delivers them; otherwise the dict notation used by the repository's unit tests."""
    lat = lat_of(v["near"])
    lat_w, lon_w = int(round(lat * 1e7)), int(round(OWN_LON * 1e7))
    if v.get("pos") is not None:
        if pos_near(v["pos"]) != bool(v["near"]):
            raise AssertionError("rx event: 'near' contradicts 'pos'")
        lat_w, lon_w = pos_latlon(v["pos"])
    params = {
        "basicContainer": {"stationType": 1, "referencePosition": {
            "latitude": lat_w, "longitude": lon_w,
            "positionConfidenceEllipse": {"semiMajorAxisLength": 4095, "semiMinorAxisLength": 4095,
                                          "semiMajorAxisOrientation": 3601},
            "altitude": {"altitudeValue": 800001, "altitudeConfidence": "unavailable"}}},
        "vruHighFrequencyContainer": {
            "heading": {"value": 900, "confidence": 127}, "speed": {"speedValue": 100, "speedConfidence": 127},
            "longitudinalAcceleration": {"longitudinalAccelerationValue": 161,
                                         "longitudinalAccelerationConfidence": 102}},
    }
    if v.get("info") is not None:
        cid, card = v["info"]
        vci = {"clusterCardinalitySize": card}
        if cid is not None:
            vci["clusterId"] = cid
        vci["clusterBoundingBoxShape"] = ("circular", {"radius": 5}) if decoded_form else {"circular": {"radius": 5}}
        params["vruClusterInformationContainer"] = {"vruClusterInformation": vci}
    op = {}
    if v.get("join") is not None:
        op["clusterJoinInfo"] = {"clusterId": v["join"], "joinTime": 12}
    if v.get("leave") is not None:
        op["clusterLeaveInfo"] = {"clusterId": v["leave"], "clusterLeaveReason": LEAVE_REASONS[v.get("leave_reason") or 0]}
    if v.get("breakup") is not None:
        op["clusterBreakupInfo"] = {"clusterBreakupReason": BREAKUP_REASONS[v["breakup"]], "breakupTime": 12}
    if op:
        params["vruClusterOperationContainer"] = op
    return {"header": {"protocolVersion": 3, "messageId": 16, "stationId": v["sender"]},
            "vam": {"generationDeltaTime": 0, "vamParameters": params}}


_CODER = None
_WIRE_CACHE = {}


def coder():
    global _CODER
    if _CODER is None:
        from flexstack.facilities.vru_awareness_service.vam_coder import VAMCoder
        _CODER = VAMCoder()
    return _CODER


def vam_via_coder(v):
    """the same VAM after a real UPER encode / decode"""
    import json
    key = json.dumps(v, sort_keys=True)
    if key not in _WIRE_CACHE:
        if len(_WIRE_CACHE) > 20000:
            _WIRE_CACHE.clear()
        _WIRE_CACHE[key] = coder().encode(vam_dict(v, True))
    return coder().decode(_WIRE_CACHE[key])


class Impl:
    """one real manager on a virtual clock"""

    def __init__(self, own, profile_code, t0, via_coder=False, dict_form=False):
        vc, K = modules()
        self.vc, self.K = vc, K
        self.clock = Clock(t0)
        self.profile = PROFILES[profile_code] if 0 <= profile_code < 4 else "other"
        self.mgr = vc.VBSClusteringManager(own, self.profile, time_fn=self.clock)
        self.via_coder = via_coder
        self.dict_form = dict_form

    # -- events ------------------------------------------------------------
    def apply(self, ev):
        """returns the result code of the method: 0 False, 1 True, 2 None"""
        vc, m = self.vc, self.mgr
        k = ev[0]
        r = None
        if k == "tick":
            self.clock.ticks += ev[1]
        elif k == "role_on":
            r = m.set_vru_role_on()
        elif k == "role_off":
            r = m.set_vru_role_off()
        elif k == "try_create":
            RANDOM.load(ev[1])
            r = m.try_create_cluster(OWN_LAT, OWN_LON)
        elif k == "join":
            r = m.initiate_join(ev[1])
        elif k == "cancel":
            r = m.cancel_join()
        elif k == "fail":
            r = m.confirm_join_failed()
        elif k == "leave":
            r = m.trigger_leave_cluster(list(vc.ClusterLeaveReason)[ev[1]])
        elif k == "breakup":
            r = m.trigger_breakup_cluster(list(vc.ClusterBreakupReason)[ev[1]])
        elif k == "update":
            r = m.update(OWN_LAT, OWN_LON, 1.0, 90.0)
        elif k == "rx":
            if self.via_coder:
                d = vam_via_coder(ev[1])
            else:
                d = vam_dict(ev[1], not self.dict_form)
            r = m.on_received_vam(d)
        else:
            raise ValueError(ev)
        return 2 if r is None else (1 if r else 0)

    # -- canonical state ---------------------------------------------------
    def dump(self, tables=True):
        vc, m = self.vc, self.mgr
        code = {s: i for i, s in enumerate(STATE_NAMES)}

        def reason(e, table):
            return None if e is None else table.index(e.value)

        c = m._cluster
        cluster = None
        if c is not None:
            rad = c.radius
            if rad != int(rad):
                raise AssertionError("non-integral cluster radius")
            cluster = {"id": c.cluster_id, "card": c.cardinality,
                       "profiles": sum(PROFILE_BYTE.get(p, 0) for p in c.profiles), "radius": int(rad),
                       "bk_started": ticks(c.breakup_started), "bk_reason": reason(c.breakup_reason, BREAKUP_REASONS),
                       "pending": sorted(c.pending_members)}
        info = m.get_cluster_information_container()
        ic = None
        if info is not None:
            vci = info["vruClusterInformation"]
            shape = vci["clusterBoundingBoxShape"]
            rad = shape[1]["radius"] if isinstance(shape, tuple) else shape["circular"]["radius"]
            prof = vci.get("clusterProfiles")
            if isinstance(prof, tuple):
                prof = prof[0]
            ic = [vci["clusterId"], rad, vci["clusterCardinalitySize"], None if prof is None else prof[0]]
        op = m.get_cluster_operation_container()
        oc = [0, 0, 0]
        if op is not None:
            keys = sorted(op)
            if keys == ["clusterJoinInfo"]:
                oc = [1, op["clusterJoinInfo"]["clusterId"], op["clusterJoinInfo"]["joinTime"]]
            elif keys == ["clusterLeaveInfo"]:
                oc = [2, op["clusterLeaveInfo"]["clusterId"],
                      LEAVE_REASONS.index(op["clusterLeaveInfo"]["clusterLeaveReason"])]
            elif keys == ["clusterBreakupInfo"]:
                oc = [3, BREAKUP_REASONS.index(op["clusterBreakupInfo"]["clusterBreakupReason"]),
                      op["clusterBreakupInfo"]["breakupTime"]]
            else:
                oc = [9, 0, 0]
        return {
            "vst": code[m.state.value], "cluster": cluster,
            "joined": m._joined_cluster_id, "leader": m._leader_station_id,
            "last_leader": ticks(m._last_leader_vam_time),
            "js": JSUB.index(m._join_substate.value), "j_target": m._join_target_cluster_id,
            "j_started": ticks(m._join_started), "jl_reason": reason(m._join_leave_reason, LEAVE_REASONS),
            "jl_started": ticks(m._join_leave_started),
            "ls": LSUB.index(m._leave_substate.value), "l_reason": reason(m._leave_reason, LEAVE_REASONS),
            "l_cluster": m._leave_cluster_id, "l_started": ticks(m._leave_started),
            "vrus": sorted([k, 1 if is_near(v.lat, v.lon) else 0, ticks(v.last_seen)]
                           for k, v in m._nearby_vrus.items()) if tables else [],
            "ncls": sorted([k, v.leader_station_id, v.cardinality, ticks(v.last_seen)]
                           for k, v in m._nearby_clusters.items()) if tables else [],
            "seen": sorted([k, ticks(v)] for k, v in m._seen_cluster_ids.items()) if tables else [],
            "tx": 1 if m.should_transmit_vam() else 0, "info": ic, "op": oc, "cid": m.get_cluster_id(),
            "counts": [m.get_nearby_vru_count(), m.get_nearby_cluster_count()],
        }


# ---------------------------------------------------------------------------
# marshalling for the extracted model

def encode_events(events):
    out = []
    for ev in events:
        k = ev[0]
        if k == "tick":
            out += [0, ev[1]]
        elif k == "role_on":
            out += [1]
        elif k == "role_off":
            out += [2]
        elif k == "try_create":
            out += [3, len(ev[1])] + list(ev[1])
        elif k == "join":
            out += [4, ev[1]]
        elif k == "cancel":
            out += [5]
        elif k == "fail":
            out += [6]
        elif k == "leave":
            out += [7, ev[1]]
        elif k == "breakup":
            out += [8, ev[1]]
        elif k == "update":
            out += [9]
        elif k == "rx":
            v = ev[1]
            info = v.get("info")
            o = lambda x: [0, 0] if x is None else [1, x]
            out += [10, v["sender"], 1 if v["near"] else 0]
            if info is None:
                out += [0, 0, 0, 0]
            else:
                out += [1] + o(info[0]) + [info[1]]
            out += o(v.get("join")) + o(v.get("leave")) + o(v.get("breakup"))
        else:
            raise ValueError(ev)
    return out


class _Reader:
    def __init__(self, xs):
        self.xs, self.i = xs, 0

    def get(self):
        v = self.xs[self.i]
        self.i += 1
        return v

    def opt(self):
        f, x = self.get(), self.get()
        return x if f else None

    def lst(self, width):
        n = self.get()
        return [[self.get() for _ in range(width)] for _ in range(n)]


def parse_dump(xs):
    """inverse of Cluster.dump (after the result code); tables sorted like Impl.dump"""
    r = _Reader(xs)
    d = {"vst": r.get()}
    if r.get():
        c = {"id": r.get(), "card": r.get(), "profiles": r.get(), "radius": r.get()}
        c["bk_started"] = r.opt()
        c["bk_reason"] = r.opt()
        n = r.get()
        c["pending"] = sorted(r.get() for _ in range(n))
        d["cluster"] = c
    else:
        d["cluster"] = None
    for k in ("joined", "leader", "last_leader"):
        d[k] = r.opt()
    d["js"] = r.get()
    for k in ("j_target", "j_started", "jl_reason", "jl_started"):
        d[k] = r.opt()
    d["ls"] = r.get()
    for k in ("l_reason", "l_cluster", "l_started"):
        d[k] = r.opt()
    d["vrus"] = sorted(r.lst(3))
    d["ncls"] = sorted(r.lst(4))
    d["seen"] = sorted(r.lst(2))
    d["tx"] = r.get()
    f = r.get()
    ic = [r.get() for _ in range(4)]
    d["info"] = ic if f else None
    d["op"] = [r.get() for _ in range(3)]
    d["cid"] = r.opt()
    d["counts"] = [len(d["vrus"]), len(d["ncls"])]
    if r.i != len(xs):
        raise AssertionError("model dump has trailing data")
    return d


def parse_trace(xs):
    """cmd 1 output -> list of (ret, state dict)"""
    out, i = [], 0
    while i < len(xs):
        n = xs[i]
        rec = xs[i + 1:i + 1 + n]
        out.append((rec[0], parse_dump(rec[1:])))
        i += 1 + n
    return out


def diff_states(a, b):
    return [k for k in a if a[k] != b.get(k)] + [k for k in b if k not in a]


# ---------------------------------------------------------------------------
# property oracle, written from the property text; it looks at the implementation only

# ETSI TS 103 300-3 V2.3.1 Table 15 (cluster membership parameters, seconds) and Table 14, written here
# independently of vam_constants.py: "specified durations" means these values
SPEC_SECONDS = {"TIME_CLUSTER_UNIQUENESS_THRESHOLD": 30, "TIME_CLUSTER_BREAKUP_WARNING": 3,
                "TIME_CLUSTER_JOIN_NOTIFICATION": 3, "TIME_CLUSTER_JOIN_SUCCESS": Fraction(1, 2),
                "TIME_CLUSTER_CONTINUITY": 2, "TIME_CLUSTER_LEAVE_NOTIFICATION": 1}


def spec_constant_failures(K):
    bad = []
    for name, want in SPEC_SECONDS.items():
        got = getattr(K, name, None)
        if got is None or Fraction(got) != Fraction(want):
            bad.append(("timing_constant_differs_from_standard",
                        f"vam_constants.{name} = {got!r} s, TS 103 300-3 Table 15 specifies {float(want)} s"))
    return bad


def quarter_steps(total, elapsed):
    """DeltaTimeQuarterSecond for the time remaining of a phase of `total` ticks, `elapsed` ticks after it began"""
    return max(1, min(127, max(0, total - elapsed) * 4 // TPS))


class Oracle:
    """Follows one manager through its events and checks the clauses of C18 on what the manager
    shows (state name, containers, transmit flag, cluster id, and the attributes named by the
    consistency clause). Constants are read from vam_constants of the tree under test."""

    def __init__(self, K, t0):
        self.K = K
        self.TJN = ticks(K.TIME_CLUSTER_JOIN_NOTIFICATION)
        self.TJS = ticks(K.TIME_CLUSTER_JOIN_SUCCESS)
        self.TLN = ticks(K.TIME_CLUSTER_LEAVE_NOTIFICATION)
        self.TBW = ticks(K.TIME_CLUSTER_BREAKUP_WARNING)
        self.TCC = ticks(K.TIME_CLUSTER_CONTINUITY)
        self.now = t0
        self.join_n = None      # running join notification: (cid, t0)
        self.waiting = None     # join waiting phase: (cid, since)
        self.leave_n = None     # running leave notification: (cid, reason, t0)
        self.breakup_n = None   # running breakup warning: (reason, t0)
        self.heard = None       # passive: (leader, time last heard)
        self.recover = None     # passive and leader announced break-up: reason code
        self.prev = None        # previous observation

    def start(self, obs):
        self.prev = obs
        return self._consistency(obs)

    def _consistency(self, o):
        bad = []
        st = o["vst"]
        c = o["cluster"]
        if (st == 2) != (c is not None):
            bad.append(("state_inconsistent", "leader state and ownership of a cluster disagree"))
        if c is not None and not (1 <= c["id"] <= 255 and c["card"] >= 1):
            bad.append(("state_inconsistent", "own cluster with identifier outside 1..255 or cardinality < 1"))
        pres = [o["joined"] is not None, o["leader"] is not None, o["last_leader"] is not None]
        if not all(p == (st == 3) for p in pres):
            bad.append(("state_inconsistent", "passive state and joined id / leader id / leader-heard time disagree"))
        leaving = o["op"][0] == 2
        want_tx = 0 if st == 0 or (st == 3 and not leaving) else 1
        if o["tx"] != want_tx:
            bad.append(("transmit_gate", "should_transmit_vam() differs from: suppressed exactly when idle, or passive "
                                         "and not leaving"))
        if st == 2 and o["info"] is None:
            bad.append(("state_inconsistent", "leader without cluster information container"))
        if st != 2 and o["info"] is not None:
            bad.append(("state_inconsistent", "cluster information container offered by a non-leader"))
        if o["info"] is not None and c is not None and (o["info"][0] != c["id"] or o["info"][2] != c["card"]):
            bad.append(("state_inconsistent", "cluster information container differs from the own cluster"))
        want_cid = c["id"] if st == 2 and c else (o["joined"] if st == 3 else None)
        if o["cid"] != want_cid:
            bad.append(("state_inconsistent", "get_cluster_id() differs from led / joined cluster"))
        return bad

    def step(self, ev, ret, o):
        """called after the implementation executed `ev`; returns [(class, detail)]"""
        bad = self._consistency(o)
        p = self.prev
        k = ev[0]
        if k == "tick":
            self.now += ev[1]
        now = self.now
        aborted = k == "role_off"

        # --- recovery of a passive station ---------------------------------
        if k == "update" and p["vst"] == 3 and self.heard is not None:
            if now - self.heard[1] >= self.TCC and not (o["vst"] == 1 and o["tx"] == 1):
                bad.append(("leader_lost_no_recovery", "leader silent for timeClusterContinuity but the station is "
                                                       "not stand-alone and transmitting after update"))
        if k == "update" and self.recover is not None:
            if not (o["vst"] in (1, 2) and o["tx"] == 1):
                cls = "breakup_cpm_reason_stays_passive" if self.recover == CPM else "breakup_no_recovery"
                bad.append((cls, "leader announced break-up but the station is not stand-alone and transmitting "
                                 "after the next update"))
            self.recover = None
        if aborted:
            self.recover = None
        if k == "rx" and p["vst"] == 3 and ev[1].get("breakup") is not None and ev[1]["sender"] == p["leader"]:
            self.recover = ev[1]["breakup"]

        # --- join completes -------------------------------------------------
        if k == "rx" and self.waiting is not None and ev[1].get("info") is not None \
                and (ev[1]["info"][0] or 0) == self.waiting[0]:
            # completed joins may be ended again by a break-up in the same VAM
            cid = self.waiting[0]
            ok = (o["vst"] == 3 and o["cid"] == cid and o["tx"] == 0 and o["leader"] == ev[1]["sender"])
            # the same VAM may announce the break-up: joined and left at once, which shows as the leave indication
            left_again = (ev[1].get("breakup") is not None and o["vst"] == 1 and o["tx"] == 1
                          and o["op"] == [2, cid, LEAVE_REASONS.index("clusterDisbandedByLeader")])
            self.waiting = None
            if left_again:
                self.leave_n = (cid, LEAVE_REASONS.index("clusterDisbandedByLeader"), now)
            elif not ok:
                bad.append(("join_not_completed", "cluster VAM advertising the join target during the waiting phase "
                                                  "did not make the station passive in that cluster"))

        # --- start / end of the phases, from what the station shows ---------
        # leave notification
        if self.leave_n is not None:
            cid, reason, t0 = self.leave_n
            if aborted:
                self.leave_n = None
            elif k == "update" and now - t0 >= self.TLN:
                if o["op"][0] == 2 and (o["op"][1], o["op"][2]) == (cid, reason):
                    bad.append(("leave_notification_duration", "leave indication still sent after update past "
                                                               "timeClusterLeaveNotification"))
                self.leave_n = None
            elif not (o["op"] == [2, cid, reason] and o["tx"] == 1):
                bad.append(("leave_notification_duration", f"leave indication (cluster {cid}, reason "
                            f"{LEAVE_REASONS[reason]}) not offered for transmission {now - t0} ticks after it began"))
                self.leave_n = None
        # join notification
        if self.join_n is not None:
            cid, t0 = self.join_n
            if aborted or k == "cancel" or (k == "leave" and p["vst"] == 1):
                self.join_n = None
                if not aborted:
                    self.leave_n = (cid, LEAVE_REASONS.index("cancelledJoin"), now)
                    if not (o["op"] == [2, cid, 6] and o["tx"] == 1):
                        bad.append(("leave_notification_duration", "cancelled join is not announced"))
                        self.leave_n = None
            elif k == "update" and now - t0 >= self.TJN:
                if o["op"][0] == 1:
                    bad.append(("join_notification_duration", "join intention still sent after update past "
                                                              "timeClusterJoinNotification"))
                self.join_n = None
                self.waiting = (cid, now)
            elif not (o["vst"] == 1 and o["op"][0] == 1 and o["op"][1] == cid and o["tx"] == 1):
                bad.append(("join_notification_duration", f"join intention towards cluster {cid} not offered for "
                            f"transmission {now - t0} ticks after initiate_join"))
                self.join_n = None
            elif o["op"][2] != quarter_steps(self.TJN, now - t0) and t0 != 0:
                bad.append(("notification_time_field", f"joinTime {o['op'][2]} announced {now - t0} ticks after "
                            f"initiate_join, remaining time is {quarter_steps(self.TJN, now - t0)} quarter seconds"))
        elif self.waiting is not None:
            cid, since = self.waiting
            if aborted or o["vst"] == 3:
                self.waiting = None
            elif k == "cancel":
                self.waiting = None
                self.leave_n = (cid, 6, now)
            elif (k == "update" and now - since >= self.TJS) or k == "fail":
                self.waiting = None
                self.leave_n = (cid, LEAVE_REASONS.index("failedJoin"), now)
                if not (o["op"] == [2, cid, 7] and o["tx"] == 1):
                    bad.append(("leave_notification_duration", "failed join is not announced"))
                    self.leave_n = None
            elif o["vst"] != 1:
                self.waiting = None
        if k == "join" and ret == 1:
            self.join_n = (ev[1], now)
            if not (o["op"][0] == 1 and o["op"][1] == ev[1] and o["tx"] == 1):
                bad.append(("join_notification_duration", "accepted initiate_join is not announced"))
                self.join_n = None
        # a passive station became stand-alone: leave notification begins
        if p["vst"] == 3 and o["vst"] == 1:
            if k == "leave":
                reason = ev[1]
            elif k == "update":
                reason = LEAVE_REASONS.index("clusterLeaderLost")
            else:
                reason = LEAVE_REASONS.index("clusterDisbandedByLeader")
            self.leave_n = (p["cid"] or 0, reason, now)
            if not (o["op"] == [2, p["cid"] or 0, reason] and o["tx"] == 1):
                bad.append(("leave_notification_duration", "leaving the cluster is not announced"))
                self.leave_n = None
        # breakup warning
        if self.breakup_n is not None:
            reason, t0 = self.breakup_n
            if aborted:
                self.breakup_n = None
            elif k == "update" and now - t0 >= self.TBW:
                if not (o["vst"] == 1 and o["tx"] == 1):
                    bad.append(("breakup_warning_duration", "leader not stand-alone after update past "
                                                            "timeClusterBreakupWarning"))
                self.breakup_n = None
            elif not (o["vst"] == 2 and o["op"][0] == 3 and o["op"][1] == reason and o["info"] is not None
                      and o["tx"] == 1):
                bad.append(("breakup_warning_duration", f"break-up indication not offered for transmission "
                            f"{now - t0} ticks after trigger_breakup_cluster"))
                self.breakup_n = None
            elif o["op"][2] != quarter_steps(self.TBW, now - t0):
                bad.append(("notification_time_field", f"breakupTime {o['op'][2]} announced {now - t0} ticks after "
                            f"the break-up began, remaining time is {quarter_steps(self.TBW, now - t0)} quarter seconds"))
        if k == "breakup" and ret == 1:
            self.breakup_n = (ev[1], now)
            if not (o["vst"] == 2 and o["op"][0] == 3 and o["op"][1] == ev[1]):
                bad.append(("breakup_warning_duration", "accepted break-up is not announced"))
                self.breakup_n = None

        # --- leader heard ----------------------------------------------------
        if o["vst"] == 3:
            if p["vst"] != 3:
                self.heard = (o["leader"], now)
            elif k == "rx" and ev[1]["sender"] == o["leader"]:
                self.heard = (o["leader"], now)
        else:
            self.heard = None
        self.prev = o
        return bad
