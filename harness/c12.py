"""C12 - the LDM behaves as a store of objects with registration gating and expiry."""
from __future__ import annotations

import json

from . import common
from .ldm_common import (LdmUnderTest, Interner, Reader, T0_UTC_MS, its_ms, simple_message, type_of_message,
                         make_location, location_dict, location_extra_of, cjson, shrink_ops)
from .stack import VCLOCK

PROP = "C12"
COQ_TARGETS = ["Properties/C12", "Extract/ExC12"]
MODEL_ML = "c12_model.ml"
MODEL_NAME = "c12"
TRUSTED_BASE = [
    "Coq 8.16.1 kernel (coqc); vm_compute only in the two refutation witnesses and the examples; no native_compute",
    "extraction (ExtrOcamlBasic only; Z/positive stay Coq datatypes) + ocaml/driver_body.ml + OCaml 4.13.1",
    "hand-written model coq/theories/Model/Ldm.v (concrete store + abstract map), tied to the code by differential "
    "execution of operation sequences (this harness)",
    "Python harness harness/c12.py, harness/ldm_common.py, harness/stack.py (virtual clock)",
]
ASSUMPTIONS = [
    "the model is tied to IF.LDM.3/IF.LDM.4 of a Factory-built LDM (Dictionary back-end, reactive maintenance and "
    "service) by execution on the same operation sequences, not by proof; TinyDB is covered by C13",
    "time.monotonic of the reactive maintenance is the virtual clock as an exact rational; float rounding of "
    "monotonic differences exactly at the 1 s threshold is outside the model",
    "object content is an opaque (type, token) pair; the remaining location fields are an opaque token",
    "single-threaded use (concurrency is C16)",
]
EXPLANATION = ("theorems over all operation sequences: the concrete store refines a finite map (outputs equal, "
               "abstraction commutes with every operation); corollaries for additions, updates, deletions, expiry, "
               "identifier freshness, frame and registration gating (two clauses refuted with witnesses = the open "
               "known findings); correspondence: responses, store contents, next id and both registries compared "
               "after every operation of seeded sequences")

LOCX = Interner()
FLAT_BAD = (-9,) * 9

RD_T = {0: 50, 1: 100, 2: 200, 3: 500, 4: 1000, 5: 5000, 6: 10000}
SHAPED_TOK = 5000        # tokens from here on select a message shape (audit round)


def message_of(typ: int, tok: int) -> dict:
    """the message an add / update operation carries. Tokens >= SHAPED_TOK select one of four shapes with different
    key sets (optional parts present / absent), so that an update that merges into the stored message instead of
    replacing it leaves a stale key behind - flat_stored then reports the content token -1"""
    m = simple_message(typ, tok)
    if tok >= SHAPED_TOK:
        body = next(v for k, v in m.items() if k != "header")
        shape = tok % 4
        if shape == 1:
            body["optionalA"] = {"value": tok, "flag": True}
        elif shape == 2:
            body["optionalB"] = [tok, "x"]
            m["extension"] = {"note": "n%d" % tok}
        elif shape == 3:
            del body["token"]
    return m


# --------------------------------------------------------------------------------------------
# operations -> implementation

def flat_stored(d) -> tuple:
    """9 integers describing a stored container, or FLAT_BAD when it is not a container any more"""
    try:
        rp = d["location"]["referencePosition"]
        msg = d["dataObject"]
        typ = type_of_message(msg)
        tok = msg["header"]["stationId"]
        if cjson(msg) != cjson(message_of(typ, tok)):
            tok = -1
        return (int(d["application_id"]), int(d["timestamp"]), int(rp["latitude"]), int(rp["longitude"]),
                int(rp["altitude"]["altitudeValue"]), LOCX(location_extra_of(d["location"])),
                int(d["timeValidity"]), typ, tok)
    except Exception:
        return FLAT_BAD


def flat_expected(o) -> tuple:
    """what an add operation asks the LDM to store"""
    return (o["aid"], o["ts"], o["lat"], o["lon"], o["alt"],
            LOCX(location_extra_of(location_dict(o["lat"], o["lon"], o["alt"], o["extra"]))),
            o["val"], o["typ"], o["tok"])


def exec_impl(case):
    """run the operation sequence on a real LDM; returns per op (out, store{id: flat}, next_id, provs, conss)"""
    from flexstack.facilities.local_dynamic_map.ldm_classes import (
        RegisterDataProviderReq, DeregisterDataProviderReq, RegisterDataConsumerReq, DeregisterDataConsumerReq,
        AddDataProviderReq, UpdateDataProviderReq, DeleteDataProviderReq, RequestDataObjectsReq, TimestampIts,
        TimeValidity, GeometricArea)
    lut = LdmUnderTest(case["cfg"], "Dictionary", case["t0_utc_ms"])
    trace = []
    try:
        for o in case["ops"]:
            k = o["op"]
            err = None
            out = []
            try:
                if k == "reg_prov":
                    r = lut.if3.register_data_provider(RegisterDataProviderReq(o["aid"], tuple(o["perms"]), TimeValidity(0)))
                    out = [int(r.result)]
                elif k == "dereg_prov":
                    r = lut.if3.deregister_data_provider(DeregisterDataProviderReq(o["aid"]))
                    out = [int(r.result)]
                elif k == "reg_cons":
                    r = lut.if4.register_data_consumer(RegisterDataConsumerReq(o["aid"], tuple(o["perms"]),
                                                                                 GeometricArea(None, None, None)))
                    out = [int(r.result)]
                elif k == "dereg_cons":
                    r = lut.if4.deregister_data_consumer(DeregisterDataConsumerReq(o["aid"]))
                    out = [int(r.ack)]
                elif k == "add":
                    req = AddDataProviderReq(o["aid"], TimestampIts(o["ts"]),
                                             make_location(o["lat"], o["lon"], o["alt"], o["extra"]),
                                             message_of(o["typ"], o["tok"]), TimeValidity(o["val"]))
                    r = lut.if3.add_provider_data(req)
                    out = [int(r.data_object_id)]
                elif k == "update":
                    req = UpdateDataProviderReq(o["aid"], o["id"], TimestampIts(its_ms(VCLOCK.ms)),
                                                make_location(0, 0, 0, dict(smc=0, smo=0, smic=0, ac=0, radius=0, rd=0, td=0)),
                                                message_of(o["typ"], o["tok"]), TimeValidity(0))
                    r = lut.if3.update_provider_data(req)
                    out = [int(r.result)]
                elif k == "delete":
                    r = lut.if3.delete_provider_data(DeleteDataProviderReq(o["aid"], o["id"], TimestampIts(its_ms(VCLOCK.ms))))
                    out = [int(r.result)]
                elif k == "request":
                    r = lut.if4.request_data_objects(RequestDataObjectsReq(o["aid"], tuple(o["types"]), o["prio"], None, None))
                    out = [int(r.result)]
                    for d in r.data_objects:
                        out += list(flat_stored(d))
                elif k == "advance":
                    VCLOCK.advance(o["ms"])
                elif k == "maintain":
                    lut.ldm.ldm_maintenance.collect_trash()
                else:
                    raise ValueError(k)
            except Exception as e:  # an escaping exception is an observation, not a harness crash
                err = type(e).__name__
                out = [-99]
            store = {}
            for i, d in lut.items():
                store[int(i)] = flat_stored(d)
            trace.append({"out": out, "store": store, "next": int(getattr(lut.db, "_next_id", -1)),
                          "provs": lut.providers(), "conss": lut.consumers(), "err": err})
    finally:
        lut.close()
    return trace


# --------------------------------------------------------------------------------------------
# operations -> model

def encode_case(case):
    c = case["cfg"]
    a = [c["lat"], c["lon"], c["alt"], c["rd"], its_ms(case["t0_utc_ms"])]
    for o in case["ops"]:
        k = o["op"]
        if k == "reg_prov":
            a += [1, o["aid"], len(o["perms"])] + list(o["perms"])
        elif k == "dereg_prov":
            a += [2, o["aid"]]
        elif k == "reg_cons":
            a += [3, o["aid"], len(o["perms"])] + list(o["perms"])
        elif k == "dereg_cons":
            a += [4, o["aid"]]
        elif k == "add":
            a += [5] + list(flat_expected(o))
        elif k == "update":
            a += [6, o["aid"], o["id"], o["typ"], o["tok"]]
        elif k == "delete":
            a += [7, o["aid"], o["id"]]
        elif k == "request":
            a += [8, o["aid"], -1 if o["prio"] is None else o["prio"], len(o["types"])] + list(o["types"])
        elif k == "advance":
            a += [9, o["ms"]]
        elif k == "maintain":
            a += [10]
    return a


def decode_model(flat, nops):
    rd = Reader(flat)
    trace = []
    for _ in range(nops):
        n = rd.one()
        out = rd.many(n)
        ns = rd.one()
        store = {}
        for _ in range(ns):
            i = rd.one()
            store[i] = tuple(rd.many(9))
        nxt = rd.one()
        provs = sorted(rd.many(rd.one()))
        conss = sorted(rd.many(rd.one()))
        trace.append({"out": out, "store": store, "next": nxt, "provs": provs, "conss": conss, "err": None})
    if not rd.done():
        raise ValueError("model output has trailing data")
    return trace


# --------------------------------------------------------------------------------------------
# property oracle, written from the property text; works on any trace (implementation or model)

def in_delete_zone(cfg, rec):
    """is the object where the (defective) area-of-maintenance collector deletes? only used to
    name the failure class of an unexpired object that vanished during maintenance"""
    s = (rec[2] - cfg["lat"]) ** 2 + (rec[3] - cfg["lon"]) ** 2
    rd = cfg["rd"]
    return (s >= 20001 ** 2) if rd == 7 else (s < RD_T[rd] ** 2)


def oracle(case, trace):
    """returns a list of failures (cls, op index, detail, expected, observed)"""
    fails = []
    cfg = case["cfg"]
    now = its_ms(case["t0_utc_ms"])
    exp = {}              # id -> expected flat record of objects that have to be there (or may have lapsed)
    ever = set()          # every identifier ever handed out
    gone = set()
    reg_p, reg_c = set(), set()
    last_gc = now
    prev = {"store": {}, "provs": [], "conss": [], "next": 0}

    def fail(cls, i, detail, expected=None, observed=None):
        if len(fails) < 20:
            fails.append((cls, i, detail, expected, observed))

    for i, (o, t) in enumerate(zip(case["ops"], trace)):
        k = o["op"]
        out = t["out"]
        obs = t["store"]
        if t.get("err"):
            fail("exception_escaped", i, f"{k} raised {t['err']}")
        ran_gc = False
        must_collect = False
        explicit = False
        touched = None        # id whose content may change / which may disappear by this op
        if k == "advance":
            now += o["ms"]
        elif k == "maintain":
            ran_gc = must_collect = True
            explicit = True
        elif k == "reg_prov":
            _registration_oracle(fail, i, o, out, "provider")
            if out == [0]:
                reg_p.add(o["aid"])
        elif k == "dereg_prov":
            if o["aid"] in reg_p and out != [0]:
                fail("deregistration_refused", i, "registered provider could not deregister", [0], out)
            if out == [0]:
                reg_p.discard(o["aid"])
        elif k == "reg_cons":
            _registration_oracle(fail, i, o, out, "consumer")
            if out == [0]:
                reg_c.add(o["aid"])
        elif k == "dereg_cons":
            if o["aid"] in reg_c and out != [0]:
                fail("deregistration_refused", i, "registered consumer could not deregister", [0], out)
            if out == [0]:
                reg_c.discard(o["aid"])
        elif k == "add":
            if o["aid"] in reg_p:
                ran_gc = True           # reactive maintenance may run inside an addition
                if now - last_gc >= 1000:
                    must_collect = True
                if len(out) != 1 or out[0] < 0:
                    fail("add_refused", i, "addition by a registered provider was refused", ">= 0", out)
                else:
                    oid = out[0]
                    if oid in ever:
                        fail("id_reused", i, f"identifier {oid} was handed out before", None, oid)
                    ever.add(oid)
                    exp[oid] = flat_expected(o)
                    touched = oid
            else:
                if out != [-1]:
                    fail("unregistered_add_accepted", i, "addition by an unregistered provider was not refused", [-1], out)
                if obs != prev["store"] or t["provs"] != prev["provs"] or t["conss"] != prev["conss"]:
                    fail("unregistered_add_effect", i, "refused addition changed the LDM")
        elif k == "update":
            oid = o["id"]
            registered = o["aid"] in reg_p
            live = oid in exp and oid in prev["store"]
            if out == [0]:
                if not registered:
                    fail("unregistered_update_delete_accepted", i,
                         "update by an application that is not a registered provider was carried out", "refused", out)
                if not live:
                    fail("update_of_missing_object", i, f"update of identifier {oid}, which is not stored, succeeded")
                else:
                    e = exp[oid]
                    exp[oid] = e[:7] + (o["typ"], o["tok"])
            else:
                if registered and live and exp[oid][7] == o["typ"] and 1 <= o["typ"] <= 21:
                    fail("update_refused", i, "update of a stored object with a message of the same type was refused",
                         [0], out)
                if obs != prev["store"]:
                    fail("refused_update_effect", i, "a refused update changed the store")
        elif k == "delete":
            oid = o["id"]
            registered = o["aid"] in reg_p
            live = oid in prev["store"]
            if out == [0]:
                if not registered:
                    fail("unregistered_update_delete_accepted", i,
                         "delete by an application that is not a registered provider was carried out", "refused", out)
                if not live:
                    fail("delete_of_missing_object", i, f"delete of identifier {oid}, which is not stored, succeeded")
                if oid in obs:
                    fail("deleted_still_present", i, f"object {oid} is still stored after a successful delete",
                         "absent", list(obs[oid]))
                exp.pop(oid, None)
                gone.add(oid)
            else:
                if registered and live:
                    fail("delete_refused", i, "delete of a stored object by a registered provider failed", [0], out)
                if obs != prev["store"]:
                    fail("refused_delete_effect", i, "a refused delete changed the store")
        elif k == "request":
            if o["aid"] not in reg_c:
                if out != [1]:
                    fail("unregistered_request_answered", i, "request of an unregistered consumer was not refused with "
                         "invalidITSAID and no data", [1], out[:10])
            elif all(1 <= x <= 21 for x in o["types"]) and (o["prio"] is None or 0 <= o["prio"] <= 255):
                want = [0]
                for oid in sorted(prev["store"]):
                    if prev["store"][oid][7] in o["types"]:
                        want += list(prev["store"][oid])
                if out[:1] != [0]:
                    fail("request_refused", i, "valid request of a registered consumer was refused", [0], out[:1])
                elif sorted(_chunks(out[1:])) != sorted(_chunks(want[1:])):
                    got_types = {c[7] for c in _chunks(out[1:])}
                    if not got_types <= set(o["types"]):
                        fail("request_wrong_types", i, "unfiltered request returned objects of types that were not requested",
                             sorted(o["types"]), sorted(got_types))
                    else:
                        fail("request_result_differs", i, "unfiltered request does not return exactly the stored objects "
                             "of the requested types", want[:28], out[:28])
            if out[:1] != [0] and len(out) > 1:
                fail("refused_request_returned_data", i, "a refused request carries data objects", out[:1], out[:10])
            if obs != prev["store"]:
                fail("request_effect", i, "a request changed the store")
        # ---- every stored object against the expectation ---------------------------------
        trunc_now = (now // 1000) * 1000
        for oid in list(exp):
            e = exp[oid]
            lapsed = e[6] * 1000 + e[1] < trunc_now
            if oid in obs:
                if obs[oid] != e:
                    cls = "stored_fields_differ" if oid == touched and k == "add" else "object_changed"
                    fail(cls, i, f"object {oid} is not stored with the content, timestamp, location and validity it "
                         f"was added with (or last updated to) after {k}", list(e), list(obs[oid]))
                    exp[oid] = obs[oid] if obs[oid] != FLAT_BAD else e
                if lapsed and must_collect:
                    fail("expired_not_collected", i, f"object {oid} lapsed and is still stored after maintenance ran",
                         "absent", list(obs[oid]))
            else:
                if lapsed and ran_gc:
                    pass
                elif ran_gc and in_delete_zone(cfg, e):
                    fail("area_gc_deletes_near_object", i, f"object {oid} vanished during maintenance although its validity "
                         f"has not lapsed (it lies close to the LDM's own position)", list(e), "absent")
                else:
                    fail("object_vanished", i, f"object {oid} vanished during {k} although it was neither deleted nor lapsed",
                         list(e), "absent")
                del exp[oid]
                gone.add(oid)
        for oid in obs:
            if oid not in exp:
                if oid in gone:
                    fail("returned_after_gone", i, f"object {oid} is stored again after it was deleted or collected",
                         "absent", list(obs[oid]))
                else:
                    fail("unknown_object", i, f"an object with identifier {oid} that nobody added is stored", None, list(obs[oid]))
                exp[oid] = obs[oid]
        if must_collect and not explicit:
            last_gc = now     # the reactive maintenance counts its interval from its own last run
        # ---- registrations --------------------------------------------------------------
        if t["provs"] != sorted(reg_p):
            cls = "registry_changed" if k not in ("reg_prov", "dereg_prov") else "provider_registry_wrong"
            fail(cls, i, f"provider registrations after {k} differ from the accepted (de)registrations", sorted(reg_p), t["provs"])
            reg_p = set(t["provs"])
        if t["conss"] != sorted(reg_c):
            cls = "registry_changed" if k not in ("reg_cons", "dereg_cons") else "consumer_registry_wrong"
            fail(cls, i, f"consumer registrations after {k} differ from the accepted (de)registrations", sorted(reg_c), t["conss"])
            reg_c = set(t["conss"])
        prev = t
    return fails


def _chunks(flat):
    return [tuple(flat[i:i + 9]) for i in range(0, len(flat), 9)]


def _registration_oracle(fail, i, o, out, role):
    """what holds for a registration under every reading of the interface: an application with one of the 21 ITS-AIDs
    that lists its own identifier among the permissions is accepted; an identifier outside 1..21 or an empty
    permission list is refused (the special cases DENM / SPATEM / MAPEM with foreign permissions are left to the model)"""
    valid = isinstance(o["aid"], int) and 1 <= o["aid"] <= 21
    if out == [0]:
        if not valid or not o["perms"]:
            fail("invalid_registration_accepted", i, f"{role} registration with an invalid ITS-AID or without permissions "
                 f"was accepted", "refused", out)
    elif valid and o["aid"] in o["perms"]:
        fail("registration_refused", i, f"{role} registration of a valid ITS-AID that holds the permission for its own "
             f"identifier was refused", [0], out)


# --------------------------------------------------------------------------------------------
# generation

AIDS = (2, 1, 16, 3, 6, 20, 21)           # CAM, DENM, VAM, POI, IVIM, MCM("payload"), PAM
BAD_AIDS = (0, 22, 36, -1)
TYPES = (2, 2, 2, 1, 1, 16, 16, 3, 6, 14, 21, 0)
ADVANCES = (0, 1, 250, 499, 500, 501, 999, 1000, 1001, 1500, 2000, 2500, 5000, 10000, 60000)
VALIDITIES = (0, 0, 1, 1, 2, 3, 5, 10, 50, 600, 100000)
# audit round, style "wide": every ITS-AID and data object type, location variants, long validities and clock advances
AIDS_W = tuple(range(1, 22))
TYPES_W = tuple(range(0, 22))
ADVANCES_W = ADVANCES + (60000, 600000, 3600000, 86400000, 10 ** 8, 2 ** 32, 5 * 10 ** 9)
VALIDITIES_W = (0, 1, 2, 3, 59, 60, 600, 3600, 86400, 100000, 4294967, 4294968, 5 * 10 ** 6, 2 ** 31, 10 ** 9)
SHAPES_W = ({}, {}, {"rect": [20, 30, 900]}, {"ell": [7, 5, {"direction": 7200}]}, {"rect": [1, 2, {"direction": 0}], "ell": [3, 4, 3601]},
            {"circle": False, "rect": [5, 5, 0]}, {"circle": False}, {"circle": False, "ell": [9, 8, {"direction": 21600}]})


def gen_case(rng, n, style="mixed"):
    """mostly-valid sequence: the generator tracks which applications it has (probably) registered and
    which identifiers are (probably) live, and aims most operations at them; the rest is a malformed /
    unregistered / unknown-id stream"""
    rd = rng.choice((4, 4, 1, 1, 0, 2, 3, 5, 6, 7))
    cfg = {"lat": rng.choice((413800000, 0, -337654321)), "lon": rng.choice((21100000, 0, 1512345678)),
           "alt": rng.choice((1000, 0, 25000)), "rd": rd}
    t0 = T0_UTC_MS + rng.choice((0, 1, 500, 999, rng.randrange(1000)))
    now = its_ms(t0)
    ops = []
    g_p, g_c = set(), set()      # generator's guess of the registries
    g_live = []                  # generator's guess of live identifiers
    g_types = {}                 # generator's guess of the type stored under an identifier (style "wide")
    g_next = 0
    wide = style == "wide"
    tok = SHAPED_TOK if wide else 100
    thr = 20001 if rd == 7 else RD_T[rd]
    far_only = style in ("far", "wide")
    aids = AIDS_W if wide else AIDS
    types_pool = TYPES_W if wide else TYPES
    advances = ADVANCES_W if wide else ADVANCES

    def perms_of(aid):
        other = rng.choice(AIDS_W)
        return rng.choice(([aid], [aid], [aid, other], [other, aid], [other], [], [aid, 99], [0], [other, other]))

    def validity_and_ts():
        """(validity, timestamp): besides the short ones, long validities that lapse only after a long advance, the
        timestamp 0 (validity chosen so that the object lapses around the current time) and very old timestamps"""
        x = rng.random()
        if x < 0.15:
            return (now // 1000) + rng.choice((-2, -1, 0, 1, 2, 60)), 0
        if x < 0.3:
            age = rng.choice((10 ** 7, 86400000, 3600000))
            return age // 1000 + rng.choice((-1, 0, 1, 5)), now - age + rng.choice((0, -1, 1, 999))
        return rng.choice(VALIDITIES_W), now + rng.choice((0, 0, -1, -999, -1000, -1001, 1, 999, 2000, -60000))

    def position():
        mode = rng.random()
        if far_only:
            mode = 0.9 if rd != 7 else 0.05
        if mode < 0.2:
            dlat, dlon = rng.choice(((0, 0), (1, 0), (3, 4), (0, thr - 1), (thr - 1, 0), (thr // 2, thr // 2)))
        elif mode < 0.4:
            dlat, dlon = rng.choice(((thr, 0), (0, thr), (thr + 1, 0), (0, -thr), (-thr, 0), (thr * 3 // 5, thr * 4 // 5)))
        else:
            dlat, dlon = rng.choice(((50000, 0), (0, 70000), (1000000, -2000000), (-30000, 30000), (12345678, 1)))
        alt = cfg["alt"] + rng.choice((0, 0, 1, 12, 13, 14, 15, 16, 17, 100, -1, -20, 5000, -5000))
        return cfg["lat"] + dlat, cfg["lon"] + dlon, alt

    def pick_id():
        if g_live and rng.random() < 0.8:
            return rng.choice(g_live)
        return rng.randrange(-1, g_next + 2) if rng.random() < 0.8 else rng.choice((-5, 10 ** 6))

    for _ in range(n):
        x = rng.random()
        if len(ops) < 4 and x < 0.8:
            aid = rng.choice(aids if wide else AIDS[:3])
            kind = rng.choice(("reg_prov", "reg_cons"))
            ops.append({"op": kind, "aid": aid, "perms": [aid]})
            (g_p if kind == "reg_prov" else g_c).add(aid)
            continue
        if x < 0.05:
            aid = rng.choice(aids + BAD_AIDS)
            perms = rng.choice(([aid], [aid, 2], [2], [], [1, 16], [5]))
            perms = [p for p in perms if 1 <= p <= 21]
            if wide:
                perms = perms_of(aid)
            ops.append({"op": "reg_prov", "aid": aid, "perms": perms})
            if 1 <= aid <= 21 and perms and (aid in perms or aid == 1):
                g_p.add(aid)
        elif x < 0.07:
            aid = rng.choice(tuple(sorted(g_p)) + aids[:2] + BAD_AIDS[:1]) if wide else rng.choice(tuple(g_p) + AIDS[:2] + BAD_AIDS[:1])
            ops.append({"op": "dereg_prov", "aid": aid})
            g_p.discard(aid)
        elif x < 0.11:
            aid = rng.choice(aids + BAD_AIDS)
            perms = rng.choice(([aid], [aid, 16], [2], [], [4]))
            perms = [p for p in perms if 1 <= p <= 21]
            if wide:
                perms = perms_of(aid)
            ops.append({"op": "reg_cons", "aid": aid, "perms": perms})
            if 1 <= aid <= 21 and perms and (aid in perms or aid in (1, 4, 5)):
                g_c.add(aid)
        elif x < 0.125:
            aid = rng.choice(tuple(sorted(g_c)) + aids[:2] + BAD_AIDS[:1]) if wide else rng.choice(tuple(g_c) + AIDS[:2] + BAD_AIDS[:1])
            ops.append({"op": "dereg_cons", "aid": aid})
            g_c.discard(aid)
        elif x < 0.45:
            lat, lon, alt = position()
            tok += 1
            aid = rng.choice(tuple(sorted(g_p) if wide else g_p)) if g_p and rng.random() < 0.85 else rng.choice(AIDS[:4] + (36,))
            ops.append({"op": "add", "aid": aid,
                        "ts": now + rng.choice((0, 0, 0, -1, -999, -1000, -1001, -5000, 1, 999, 2000, -60000)),
                        "lat": lat, "lon": lon, "alt": alt,
                        "extra": {"smc": rng.choice((0, 7, 4095)), "smo": rng.choice((0, 900, 3601)),
                                  "smic": rng.choice((1, 9, 4094)), "ac": rng.choice((0, 3, 15)),
                                  "radius": rng.choice((0, 100, 2000)), "rd": rng.randrange(8), "td": rng.randrange(4)},
                        "val": rng.choice(VALIDITIES), "typ": rng.choice(types_pool), "tok": tok})
            if wide:
                ops[-1]["val"], ops[-1]["ts"] = validity_and_ts()
                ops[-1]["extra"].update(rng.choice(SHAPES_W))
            if aid in g_p:
                g_live.append(g_next)
                g_types[g_next] = ops[-1]["typ"]
                g_next += 1
                if len(g_live) > 40:
                    g_live.pop(0)
        elif x < 0.56:
            tok += 1
            aid = rng.choice(tuple(sorted(g_p) if wide else g_p)) if g_p and rng.random() < 0.8 else rng.choice(AIDS[:4] + (36,))
            ops.append({"op": "update", "aid": aid, "id": pick_id(), "typ": rng.choice(types_pool), "tok": tok})
            if wide and g_types and rng.random() < 0.7:       # mostly an update with a message of the stored type
                ops[-1]["typ"] = g_types.get(ops[-1]["id"], ops[-1]["typ"])
        elif x < 0.64:
            aid = rng.choice(tuple(sorted(g_p) if wide else g_p)) if g_p and rng.random() < 0.8 else rng.choice(AIDS[:4] + (36,))
            oid = pick_id()
            ops.append({"op": "delete", "aid": aid, "id": oid})
            if oid in g_live:
                g_live.remove(oid)
        elif x < 0.82:
            types = rng.choice(([2], [1], [16], [2, 16], [1, 2, 16], [1, 2, 16], [3, 6, 14, 21], list(range(1, 22)),
                                list(range(1, 22)), [], [2, 99], [0]))
            if wide:
                t1, t2 = rng.choice(TYPES_W[1:]), rng.choice(TYPES_W[1:])
                types = rng.choice(([t1], [t1], [t1, t2], list(range(1, 22)), [t1, 22], [], [t2, t1, t1]))
            aid = rng.choice(tuple(sorted(g_c) if wide else g_c)) if g_c and rng.random() < 0.85 else rng.choice(AIDS[:4] + (36,))
            ops.append({"op": "request", "aid": aid,
                        "prio": rng.choice((None, None, None, None, 0, 7, 255, 256, -2)), "types": types})
        elif x < 0.95:
            ms = rng.choice(advances)
            ops.append({"op": "advance", "ms": ms})
            now += ms
        else:
            ops.append({"op": "maintain"})
    return {"cfg": cfg, "t0_utc_ms": t0, "ops": ops}


# --------------------------------------------------------------------------------------------
# one case: implementation, oracle, model, correspondence

def known_classes(ctx):
    return {k.get("class") for k in ctx.known}


def impl_failure_classes(case):
    return {f[0] for f in oracle(case, exec_impl(case))}


def check_cases(ctx, cases, label):
    traces = [exec_impl(c) for c in cases]
    flats = None
    if ctx.model.available:
        flats = ctx.model.batch((1, encode_case(c)) for c in cases)
    for ci, (case, tr) in enumerate(zip(cases, traces)):
        ctx.count(len(case["ops"]), label)
        for o in case["ops"]:
            ctx.dist["op_" + o["op"]] = ctx.dist.get("op_" + o["op"], 0) + 1
        fails = oracle(case, tr)
        reported = set()
        for (cls, i, detail, expected, observed) in fails:
            if cls in reported:
                continue
            reported.add(cls)
            small = case
            if cls not in known_classes(ctx) and len(case["ops"]) > 6:
                ops = shrink_ops(case["ops"][:i + 1], lambda cand: cls in impl_failure_classes(dict(case, ops=cand)))
                small = dict(case, ops=ops)
                again = [f for f in oracle(small, exec_impl(small)) if f[0] == cls]
                if again:
                    (_, i, detail, expected, observed) = again[0]
            ctx.property_failure(cls, {"case": small, "op_index": i}, detail, expected, observed)
        # non-trivial: operations that changed the store or returned data
        prev = {}
        for i, t in enumerate(tr):
            if t["store"] != prev or (case["ops"][i]["op"] == "request" and len(t["out"]) > 1):
                ctx.nontriv((label, ci, ctx.evaluations, i))
            prev = t["store"]
        if flats is None:
            continue
        try:
            mtr = decode_model(flats[ci], len(case["ops"]))
        except Exception as e:
            ctx.mismatch("model output decodes", {"case": case}, str(e), None)
            continue
        mfails = oracle(case, mtr)
        unexpected = [f for f in mfails if f[0] not in known_classes(ctx)]
        if unexpected:
            ctx.mismatch("property oracle accepts the model's own trace", {"case": case}, [list(map(str, f)) for f in unexpected[:3]], None,
                         "the Python oracle rejects behaviour that the theorems allow: oracle or model is wrong")
        repaired = (not fails) and mfails and not unexpected
        for i, (a, b) in enumerate(zip(mtr, tr)):
            diff = [f for f in ("out", "store", "next", "provs", "conss") if a[f] != b[f]]
            if diff:
                if repaired:
                    ctx.notes.append("the implementation no longer shows a recorded known finding (model still does)")
                    break
                f = diff[0]
                ctx.mismatch(f"LDM {f} after each operation = Ldm.step", {"case": case, "op_index": i, "op": case["ops"][i]},
                             _short(a[f]), _short(b[f]), f"first difference at operation {i} in field {f}")
                break
    if cases:
        c0 = cases[0]
        ctx.sample({"ops": c0["ops"][:6], "n_ops": len(c0["ops"]), "cfg": c0["cfg"],
                    "responses": [t["out"][:10] for t in traces[0][:6]]})


def _short(x):
    s = json.dumps(x, default=str, sort_keys=True)
    return s if len(s) < 1500 else s[:1500] + "..."


def boundary_cases():
    """hand-written sequences for the boundaries the property names"""
    cfg = {"lat": 413800000, "lon": 21100000, "alt": 1000, "rd": 4}
    ex = {"smc": 1, "smo": 3, "smic": 2, "ac": 0, "radius": 100, "rd": 1, "td": 0}
    t0 = T0_UTC_MS
    now = its_ms(t0)

    def add(aid, typ, tok, val, ts=None, far=True, dts=0):
        return {"op": "add", "aid": aid, "ts": (now if ts is None else ts) + dts, "lat": cfg["lat"] + (5000000 if far else 0),
                "lon": cfg["lon"], "alt": cfg["alt"], "extra": ex, "val": val, "typ": typ, "tok": tok}
    reg = [{"op": "reg_prov", "aid": 2, "perms": [2]}, {"op": "reg_cons", "aid": 2, "perms": [2]},
           {"op": "reg_prov", "aid": 1, "perms": [1]}]
    req = {"op": "request", "aid": 2, "prio": None, "types": [1, 2, 16]}
    cases = []
    # validity 0 s .. : expiry boundary, one-second truncation, explicit and reactive maintenance
    for val in (0, 1, 2):
        for adv in (0, 999, 1000, 1001, 1999, 2000, 2001, 3001):
            cases.append({"cfg": cfg, "t0_utc_ms": t0, "ops": reg + [add(2, 2, 11, val), req, {"op": "advance", "ms": adv},
                                                                     {"op": "maintain"}, req, add(2, 2, 12, 50), req]})
            cases.append({"cfg": cfg, "t0_utc_ms": t0 + 400, "ops": reg + [add(2, 2, 11, val, ts=now + 400), {"op": "advance", "ms": adv},
                                                                           add(1, 1, 13, 5, ts=now + 400 + adv), req]})
    # update / delete / duplicates (delete by id must not remove an equal twin)
    twin = add(2, 2, 21, 50)
    cases.append({"cfg": cfg, "t0_utc_ms": t0, "ops": reg + [twin, dict(twin), dict(twin), {"op": "delete", "aid": 2, "id": 1}, req,
                                                             {"op": "delete", "aid": 2, "id": 1}, {"op": "delete", "aid": 2, "id": 0}, req,
                                                             {"op": "update", "aid": 2, "id": 2, "typ": 2, "tok": 22}, req,
                                                             {"op": "update", "aid": 2, "id": 2, "typ": 1, "tok": 23}, req,
                                                             {"op": "advance", "ms": 1500}, add(2, 16, 24, 1), req]})
    # types and unfiltered selection
    cases.append({"cfg": cfg, "t0_utc_ms": t0, "ops": reg + [add(2, 2, 31, 50), add(1, 1, 32, 50), add(2, 16, 33, 50), add(2, 3, 34, 50),
                                                             add(2, 0, 35, 50)] +
                  [{"op": "request", "aid": 2, "prio": p, "types": ts} for ts in ([2], [1], [16], [3], [2, 16], [], [22], list(range(1, 22)))
                   for p in (None, 0, 255, 256)]})
    # registration gating
    cases.append({"cfg": cfg, "t0_utc_ms": t0, "ops": [add(2, 2, 41, 50), req, {"op": "reg_prov", "aid": 2, "perms": []},
                                                       {"op": "reg_prov", "aid": 22, "perms": [2]}, {"op": "reg_prov", "aid": 2, "perms": [16]},
                                                       add(2, 2, 42, 50), {"op": "reg_prov", "aid": 2, "perms": [16, 2]}, add(2, 2, 43, 50),
                                                       {"op": "reg_cons", "aid": 16, "perms": [2]}, {"op": "request", "aid": 16, "prio": None, "types": [2]},
                                                       {"op": "reg_cons", "aid": 4, "perms": [2]}, {"op": "request", "aid": 4, "prio": None, "types": [2]},
                                                       {"op": "dereg_prov", "aid": 2}, add(2, 2, 44, 50), {"op": "dereg_prov", "aid": 2},
                                                       {"op": "dereg_cons", "aid": 4}, {"op": "request", "aid": 4, "prio": None, "types": [2]}]})
    return cases


def boundary_cases_audit():
    """audit round: sequences for the clauses and range ends the first generators did not reach - every data object
    type and every ITS-AID (valid, invalid, the ends 0 / 1 / 21 / 22), permission lists, location variants (rectangle,
    ellipse, no circle, Direction objects), the far end of long validity periods, the timestamp 0, persistence across
    deregistration / re-registration, and updates between messages with different key sets"""
    cfg = {"lat": 413800000, "lon": 21100000, "alt": 1000, "rd": 4}
    ex = {"smc": 1, "smo": 3, "smic": 2, "ac": 0, "radius": 100, "rd": 1, "td": 0}
    t0 = T0_UTC_MS
    now = its_ms(t0)
    tok = [SHAPED_TOK]

    def add(aid, typ, val, ts=None, extra=None, shape=None):
        tok[0] += 1
        if shape is not None:
            while tok[0] % 4 != shape:
                tok[0] += 1
        return {"op": "add", "aid": aid, "ts": now if ts is None else ts, "lat": cfg["lat"] + 5000000, "lon": cfg["lon"],
                "alt": cfg["alt"], "extra": dict(ex, **(extra or {})), "val": val, "typ": typ, "tok": tok[0]}

    def req(types, aid=2):
        return {"op": "request", "aid": aid, "prio": None, "types": list(types)}
    reg = [{"op": "reg_prov", "aid": 2, "perms": [2]}, {"op": "reg_cons", "aid": 2, "perms": [2]}]
    maintain = {"op": "maintain"}
    cases = []
    # a. one object of every data object type (and an untyped one); every single-type request, the ends 0 and 22
    ops = list(reg) + [add(2, t, 1000) for t in range(0, 22)]
    ops += [req([t]) for t in range(0, 23)] + [req(range(1, 22)), req([21, 1]), req([20, 21, 22]), req([])]
    ops += [{"op": "update", "aid": 2, "id": t, "typ": t, "tok": SHAPED_TOK + 400 + t} for t in range(0, 22)] + [req(range(1, 22))]
    cases.append({"cfg": cfg, "t0_utc_ms": t0, "ops": ops})
    # b. every application identifier from -1 to 23 as provider and as consumer, permission lists
    for aid in range(-1, 24):
        other = 7 if aid != 7 else 8
        ops = [{"op": "reg_prov", "aid": aid, "perms": []}, {"op": "reg_cons", "aid": aid, "perms": []},
               add(aid, 2, 1000), req([2], aid),
               {"op": "reg_prov", "aid": aid, "perms": [other]}, {"op": "reg_cons", "aid": aid, "perms": [other]},
               add(aid, 2, 1000), req([2], aid),
               {"op": "reg_prov", "aid": aid, "perms": [other, aid]}, {"op": "reg_cons", "aid": aid, "perms": [other, aid, 99]},
               add(aid, 2, 1000), add(aid, 1, 1000), req([2], aid), req([1, 2], aid),
               {"op": "dereg_prov", "aid": aid}, {"op": "dereg_cons", "aid": aid}, add(aid, 2, 1000), req([2], aid),
               {"op": "reg_prov", "aid": aid, "perms": [aid]}, {"op": "reg_cons", "aid": aid, "perms": [aid]},
               add(aid, 16, 1000), req([1, 2, 16], aid), {"op": "dereg_prov", "aid": aid}, {"op": "dereg_prov", "aid": aid},
               {"op": "dereg_cons", "aid": aid}, {"op": "dereg_cons", "aid": aid}]
        cases.append({"cfg": cfg, "t0_utc_ms": t0, "ops": ops})
    # c. location variants
    ops = list(reg)
    for shp in SHAPES_W:
        ops += [add(2, 2, 1000, extra=shp), req([2])]
    ops += [{"op": "update", "aid": 2, "id": 3, "typ": 2, "tok": SHAPED_TOK + 500}, req([2]), {"op": "advance", "ms": 1500}, maintain, req([2])]
    cases.append({"cfg": cfg, "t0_utc_ms": t0, "ops": ops})
    # d. the far end of long validity periods: kept through the last valid second, collected in the next one
    for val in (59, 600, 3600, 86400, 100000, 4294967, 4294968, 5 * 10 ** 6, 2 ** 31):
        for reactive in (False, True):
            gc = add(2, 1, 10 ** 10) if reactive else maintain
            ops = list(reg) + [add(2, 2, val), req([2]), {"op": "advance", "ms": val * 1000 - 1000}, dict(gc), req([2]),
                               {"op": "advance", "ms": 1000}, dict(gc, tok=tok[0] + 7) if reactive else maintain, req([2]),
                               {"op": "advance", "ms": 999}, maintain, req([2]), {"op": "advance", "ms": 1}, maintain, req([2]),
                               add(2, 2, val), req([2])]
            cases.append({"cfg": cfg, "t0_utc_ms": t0, "ops": ops})
    # e. the timestamp 0 (a value, not "no timestamp"): the object lapses when validity seconds have passed since 0
    for d in (-1, 0, 1, 2):
        val = now // 1000 + d
        ops = list(reg) + [add(2, 2, val, ts=0), req([2]), maintain, req([2])]
        for _ in range(3):
            ops += [{"op": "advance", "ms": 1000}, maintain, req([2])]
        cases.append({"cfg": cfg, "t0_utc_ms": t0, "ops": ops})
        cases.append({"cfg": cfg, "t0_utc_ms": t0 + 300, "ops": list(reg) + [add(2, 2, val, ts=0), {"op": "advance", "ms": 1000},
                                                                             add(2, 1, 50, ts=now + 1300), req([1, 2]),
                                                                             {"op": "advance", "ms": 1000}, add(2, 1, 50, ts=now + 2300), req([1, 2])]})
    # f. objects survive the deregistration and the re-registration of their provider and of the consumer
    ops = list(reg) + [add(2, 2, 1000), add(2, 16, 1000), {"op": "dereg_prov", "aid": 2}, req([2, 16]), add(2, 2, 1000),
                       {"op": "reg_prov", "aid": 2, "perms": [2]}, req([2, 16]), add(2, 2, 1000), req([2, 16]),
                       {"op": "dereg_cons", "aid": 2}, req([2, 16]), {"op": "reg_cons", "aid": 2, "perms": [2]}, req([2, 16]),
                       {"op": "reg_prov", "aid": 2, "perms": [2]}, {"op": "reg_cons", "aid": 2, "perms": [2]}, req([2, 16]),
                       {"op": "advance", "ms": 2000}, maintain, req([2, 16])]
    cases.append({"cfg": cfg, "t0_utc_ms": t0, "ops": ops})
    # g. an update replaces the whole message: between every pair of message shapes
    ops = list(reg)
    k = 0
    for s1 in range(4):
        for s2 in range(4):
            a = add(2, 2, 1000, shape=s1)
            u = add(2, 2, 0, shape=s2)
            ops += [a, {"op": "update", "aid": 2, "id": k, "typ": 2, "tok": u["tok"]}, req([2])]
            k += 1
    cases.append({"cfg": cfg, "t0_utc_ms": t0, "ops": ops})
    return cases


def run(ctx):
    ctx.rule = ("seeded operation sequences (register/deregister provider and consumer, add, update, delete, unfiltered "
                "request, clock advance, explicit maintenance; 10-400 operations) over application ids CAM/DENM/VAM/POI/"
                "IVIM/MCM/PAM and invalid ones, message types CAM/DENM/VAM/POI/IVIM/CPM/PAM/untyped, validity 0 s .. 100000 s, "
                "objects inside, on the edge of and far outside the LDM's relevance area; style 'wide': all 21 ITS-AIDs and data object "
                "types, permission lists, locations with rectangle / ellipse / no circle, validity up to 10^9 s, timestamp 0 and very "
                "old timestamps, clock advances up to 5*10^9 ms, messages with different key sets; executed on a Factory-built LDM "
                "(Dictionary back-end, reactive maintenance) and on the extracted model; responses, store, next id and both "
                "registries compared after every operation; evaluations = operations executed; non-trivial = an operation "
                "that changed the store or a request that returned data, distinct by (sequence, position)")
    # 1. witnesses of open known findings, corpus
    import glob
    import os
    for k in ctx.known:
        check_cases(ctx, [k["witness"]], "known_witness")
    for f in sorted(glob.glob(os.path.join(common.VERIF, "corpus", "C12", "*.json"))):
        check_cases(ctx, [json.load(open(f))], "corpus")
    # 2. boundaries
    check_cases(ctx, boundary_cases(), "boundary")
    check_cases(ctx, boundary_cases_audit(), "boundary_audit")
    # 3. seeded sequences
    rng = ctx.rng
    if ctx.tier == "quick":
        plan = [(150, (10, 60), "mixed"), (100, (60, 200), "mixed"), (40, (200, 400), "mixed"), (100, (30, 200), "far"),
                (100, (20, 120), "wide")]
    else:
        plan = [(1500, (10, 60), "mixed"), (1000, (60, 200), "mixed"), (400, (200, 400), "mixed"), (1000, (30, 300), "far"),
                (1000, (20, 300), "wide")]
    for count, (lo, hi), style in plan:
        for start in range(0, count, 50):
            cases = [gen_case(rng, rng.randrange(lo, hi + 1), style) for _ in range(min(50, count - start))]
            check_cases(ctx, cases, f"seq_{style}_{lo}_{hi}")
    ctx.exhaustive = False


def replay(ctx, data):
    common.use_repo_sources()
    f = data.get("failure") or (data.get("broken") or [{}])[-1].get("first")
    print(json.dumps(f, default=str)[:3000])
    ctx.model = common.Model(MODEL_NAME)
    case = f["input"]["case"]
    check_cases(ctx, [case], "replay")
    if f.get("kind") == "property_failure":
        hits = [r for r in ctx.failures + list(ctx.known_hits.values()) if r["class"] == f["class"]]
    else:
        hits = ctx.mismatches
    print("REPRODUCED" if hits else "NOT REPRODUCED")
    for r in hits[:3]:
        print(json.dumps(r, default=str)[:2000])
    return 1 if hits else 0
