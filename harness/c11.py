"""C11 - Facility messages faithfully encode the sensor input they were built from."""
from __future__ import annotations

import glob
import json
import logging
import math
import os
from fractions import Fraction
from types import SimpleNamespace

from . import common
from .stack import VCLOCK, FakeTimer
from .c10 import (Btp, _Shim, patch_env, cam_coder, vam_coder, tpv_of, its_of_utc_ms, _vtime, _phase, _real_threading,
                  _real_random, _real_time)

PROP = "C11"
COQ_TARGETS = ["Properties/C11", "Extract/ExC11"]
MODEL_ML = "c11_model.ml"
MODEL_NAME = "c11"
TRUSTED_BASE = [
    "Coq 8.16.1 kernel (coqc); vm_compute only in the examples; no native_compute",
    "extraction (ExtrOcamlBasic only; Z/positive/Q stay Coq datatypes) + ocaml/driver_body.ml + OCaml 4.13.1",
    "hand-written model coq/theories/Model/FieldMap.v (ranges and special codes copied from the ETSI CDD), tied to the code by differential execution (this harness)",
    "asn1tools (UPER) as compiled by the repository's own coders is the decoder of the check; dateutil parses the report time",
    "Python harness harness/c11.py, harness/c10.py (environment), harness/stack.py",
]
ASSUMPTIONS = [
    "the model is tied to the CAM/VAM/DENM builders by execution on the same reports, not by proof",
    "int(x * k) of the code is a float product; the model truncates the exact rational product. Inputs whose exact product lies within 1e-12 (relative, at least 1e-9 absolute) of an integer without being one are not generated (there the two may legitimately differ by one unit; the float product is within 1.2e-16 relative of the exact one)",
    "report values are finite doubles (gpsd JSON cannot carry NaN/inf); `time` is present in every report",
    "the DENM of the collision-risk request kind carries an event position that the caller supplies already in data-element units; the harness supplies the units its own oracle expects",
    "messages are captured at the BTP service access point (BTPDataRequest.data), i.e. exactly what is handed to the lower layers",
]
EXPLANATION = ("theorems for every rational input: each mapping stays in the range of its data element, is exact to the "
               "resolution inside the range and saturates at the outOfRange code beyond it; generation time "
               "reconstruction from generationDeltaTime for every message younger than 65.536 s. Correspondence: reports "
               "over the full ranges and all subsets of optional keys through the real CAM / VAM / DENM pipelines, "
               "decoded with the repository's coders and compared field by field with the model and with an "
               "independent oracle written from the CDD")

OPTIONAL = ("altHAE", "speed", "track", "epx", "epy", "epv", "epd")
ALT_CONF = ["alt-000-01", "alt-000-02", "alt-000-05", "alt-000-10", "alt-000-20", "alt-000-50", "alt-001-00",
            "alt-002-00", "alt-005-00", "alt-010-00", "alt-020-00", "alt-050-00", "alt-100-00", "alt-200-00",
            "outOfRange", "unavailable"]
ALT_CONF_BOUND = [0.01, 0.02, 0.05, 0.1, 0.2, 0.5, 1, 2, 5, 10, 20, 50, 100, 200]
SCALE = {"lat": 10**7, "lon": 10**7, "altHAE": 100, "speed": 100, "track": 10, "epx": 100, "epy": 100, "epd": 10}


# --------------------------------------------------------------------------- input generation

def ambiguous(x: float, k: int) -> bool:
    """exact product within 1e-12 (relative; at least 1e-9 absolute) of an integer without being that integer.
    The code's float product x * k is correctly rounded: it differs from the exact product by at most 2^-53
    (1.2e-16) relative, so truncation of the two can differ only inside a band four orders of magnitude narrower
    than this one. (Audit round: the band was 1e-9 relative, i.e. more than half a unit for |lat|, |lon| > 50 degrees -
    beyond +-50 degrees only values with an exactly integral product were generated.)"""
    p = Fraction(x) * k
    n = round(p)
    return p != n and abs(p - n) < max(Fraction(1, 10**9), Fraction(1, 10**12) * abs(p))


def pick(rng, lo, hi, specials, k, amb=True):
    """a double in [lo, hi]: uniform, or near a special value (boundary of the data element), never ambiguous"""
    for _ in range(100):
        r = rng.random()
        if r < 0.45:
            x = rng.uniform(lo, hi)
        elif r < 0.60:
            x = round(rng.uniform(lo, hi), rng.choice([0, 1, 2, 3]))
        else:
            s = rng.choice(specials)
            x = s + rng.choice([0, 0, 1, -1, 0.5, -0.5, 0.25, 1.5, -1.5, 3, -3, 100, -100]) / k
            if rng.random() < 0.3:
                x = s + rng.uniform(-2, 2) / k
        x = float(min(max(x, lo), hi))
        if amb and ambiguous(x, k):
            continue
        return x
    return float(lo)


def gen_report(rng, ts, keys=None, wide=False):
    """wide=False: inside the ranges named by the property; wide=True: also beyond (out-of-range stream)"""
    rep = {"ts": ts}
    rep["lat"] = pick(rng, -90.0, 90.0, [-90.0, 90.0, 0.0, 41.387304, -1e-7, 1e-7], 10**7)
    rep["lon"] = pick(rng, -180.0, 180.0, [-180.0, 180.0, 0.0, 2.112485, 179.9999999], 10**7)
    if keys is None:
        keys = [k for k in OPTIONAL if rng.random() < 0.75]
    for k in keys:
        if k == "altHAE":
            lo, hi = (-5000.0, 20000.0) if wide else (-1000.0, 10000.0)
            rep[k] = pick(rng, lo, hi, [-1000.0, -999.99, 0.0, 6130.0, 6130.01, 7999.99, 8000.0, 8000.01, 10000.0, 163.5], 100)
        elif k == "speed":
            lo, hi = (0.0, 500.0) if wide else (0.0, 200.0)
            rep[k] = pick(rng, lo, hi, [0.0, 0.011, 163.81, 163.82, 163.83, 200.0, 30.0], 100)
        elif k == "track":
            rep[k] = pick(rng, 0.0, 360.0, [0.0, 359.9, 359.96, 360.0, 180.0, 0.05, 359.99], 10)
        elif k in ("epx", "epy"):
            hi = 900.0 if wide else 400.0
            rep[k] = pick(rng, 0.0, hi, [0.0, 0.01, 0.005, 40.93, 40.94, 40.95, 40.96, 50.0, 8.754, 10.597, 81.91, 81.92, 400.0], 100)
        elif k == "epv":
            # the class bounds are compared as they are (x < 0.01 ...): no scaling, nothing ambiguous
            rep[k] = pick(rng, 0.0, 400.0, [float(b) for b in ALT_CONF_BOUND] + [0.0, 31.97, 250.0, 400.0], 1000, amb=False)
        elif k == "epd":
            rep[k] = pick(rng, 0.0, 400.0, [0.0, 0.05, 0.1, 12.4, 12.5, 12.6, 12.75, 25.6, 360.0], 10)
    if rng.random() < 0.04:
        del rep["lat"], rep["lon"]
    if rng.random() < 0.03:
        # JSON numbers without a fraction arrive as Python ints ("speed": 0, "track": 90)
        for k in list(rep):
            if k != "ts" and rng.random() < 0.6:
                rep[k] = int(rep[k])
    return rep


# --------------------------------------------------------------------------- oracle (from the CDD, not from the model)

def near(dec, val, k, tol=1.0 + 1e-6):
    return abs(dec - val * k) < tol


def oracle_fields(rep, d, flavour):
    """d: decoded {"lat","lon","alt","altconf","major","minor","orient","heading","hconf","speed","gdt"} (keys
    present depend on the message); returns a list of (field, detail, expected, observed)"""
    bad = []

    def chk(field, ok, exp, obs):
        if not ok:
            bad.append((field, exp, obs))

    if "gdt" in d:
        chk("generationDeltaTime", d["gdt"] == its_of_utc_ms(rep["ts"]) % 65536, its_of_utc_ms(rep["ts"]) % 65536, d["gdt"])
    for key, f, lim, unav in (("lat", "lat", 900000000, 900000001), ("lon", "lon", 1800000000, 1800000001)):
        if f in d:
            if key in rep:
                chk(f, abs(d[f]) <= lim and near(d[f], rep[key], 10**7), f"{rep[key]} deg in 1e-7 deg", d[f])
            else:
                chk(f, d[f] == unav, unav, d[f])
    if "alt" in d:
        if "altHAE" in rep:
            a = rep["altHAE"]
            if a <= -1000.0:
                ok = d["alt"] == -100000
            elif a >= 8000.0:
                ok = d["alt"] == 800000
            elif a > 7999.99:
                ok = d["alt"] in (799999, 800000)
            else:
                ok = -100000 <= d["alt"] < 800000 and near(d["alt"], a, 100)
            chk("altitudeValue", ok, f"{a} m in 0.01 m (outOfRange beyond -1000 / 8000 m)", d["alt"])
        else:
            chk("altitudeValue", d["alt"] == 800001, 800001, d["alt"])
    if "altconf" in d:
        if "epv" in rep:
            e = rep["epv"]
            i = ALT_CONF.index(d["altconf"]) if d["altconf"] in ALT_CONF else -1
            if e > 200:
                ok = i == 14
            elif e == 200:
                ok = i in (13, 14)
            else:
                ok = 0 <= i <= 13 and e <= ALT_CONF_BOUND[i] and (i == 0 or e >= ALT_CONF_BOUND[i - 1])
            chk("altitudeConfidence", ok, f"class for {e} m", d["altconf"])
        else:
            chk("altitudeConfidence", d["altconf"] == "unavailable", "unavailable", d["altconf"])
    if "major" in d:
        if "epx" in rep and "epy" in rep:
            if flavour == "cam":
                want = (max(rep["epx"], rep["epy"]), min(rep["epx"], rep["epy"]))
            else:
                want = (rep["epx"], rep["epy"])
            for name, e, dec in (("semiMajor", want[0], d["major"]), ("semiMinor", want[1], d["minor"])):
                if e >= 40.94:
                    ok = dec == 4094
                elif e > 40.93:
                    ok = dec in (4093, 4094)
                elif e < 0.01:
                    ok = dec == 1
                else:
                    ok = 1 <= dec <= 4093 and near(dec, e, 100)
                chk(name, ok, f"{e} m in 0.01 m (4094 beyond 40.93 m, never 0)", dec)
        else:
            chk("semiMajor", d["major"] == 4095 and d["minor"] == 4095, [4095, 4095], [d["major"], d["minor"]])
    if "heading" in d:
        if "track" in rep:
            h = d["heading"]
            ok = 0 <= h <= 3599 and abs((h - rep["track"] * 10 + 1800) % 3600 - 1800) < 1.0 + 1e-6
            chk("headingValue", ok, f"{rep['track']} deg in 0.1 deg, never 3600", h)
        else:
            chk("headingValue", d["heading"] == 3601, 3601, d["heading"])
    if "hconf" in d:
        if "epd" in rep:
            e = rep["epd"]
            if e > 12.5:
                ok = d["hconf"] == 126
            elif e < 0.1:
                ok = d["hconf"] == 1
            else:
                ok = 1 <= d["hconf"] <= 125 and near(d["hconf"], e, 10)
            chk("headingConfidence", ok, f"{e} deg in 0.1 deg (126 beyond 12.5, at least 1)", d["hconf"])
        else:
            chk("headingConfidence", d["hconf"] == 127, 127, d["hconf"])
    if "speed" in d:
        if "speed" in rep:
            v = rep["speed"]
            if v >= 163.82:
                ok = d["speed"] == 16382
            elif v > 163.81:
                ok = d["speed"] in (16381, 16382)
            else:
                ok = 0 <= d["speed"] <= 16381 and near(d["speed"], v, 100)
            chk("speedValue", ok, f"{v} m/s in 0.01 m/s (16382 beyond 163.81)", d["speed"])
        else:
            chk("speedValue", d["speed"] == 16383, 16383, d["speed"])
    return bad


# --------------------------------------------------------------------------- model

def model_args(rep):
    a = []
    for k in ("lat", "lon", "altHAE", "speed", "track", "epx", "epy", "epv", "epd"):
        if k in rep:
            f = Fraction(rep[k])
            a += [1, f.numerator, f.denominator]
        else:
            a += [0, 0, 1]
    return a + [its_of_utc_ms(rep["ts"])]


MODEL_FIELDS = ("lat", "lon", "alt", "speed", "heading", "camMajor", "camMinor", "vamMajor", "vamMinor", "altconf", "hconf", "gdt")


def model_view(res, flavour):
    m = dict(zip(MODEL_FIELDS, res))
    v = {"lat": m["lat"], "lon": m["lon"], "alt": m["alt"], "speed": m["speed"], "heading": m["heading"],
         "altconf": ALT_CONF[m["altconf"]], "hconf": m["hconf"], "gdt": m["gdt"]}
    v["major"], v["minor"] = (m["camMajor"], m["camMinor"]) if flavour == "cam" else (m["vamMajor"], m["vamMinor"])
    return v


# --------------------------------------------------------------------------- pipelines

class LogCatch(logging.Handler):
    def __init__(self):
        super().__init__()
        self.records = []

    def emit(self, record):
        msg = record.getMessage()
        if record.exc_info and record.exc_info[1] is not None:
            msg += f" [{type(record.exc_info[1]).__name__}: {record.exc_info[1]}]"
        self.records.append(msg)


_logcatch = LogCatch()


def attach_log():
    lg = logging.getLogger("ca_basic_service")
    if _logcatch not in lg.handlers:
        lg.addHandler(_logcatch)
    lg.propagate = False
    for n in ("vru_basic_service", "denm_service", "flexstack"):
        lg = logging.getLogger(n)
        lg.propagate = False
        if not lg.handlers:
            lg.addHandler(logging.NullHandler())


def cam_view(data):
    d = cam_coder().decode(data)
    p = d["cam"]["camParameters"]
    rp = p["basicContainer"]["referencePosition"]
    hf = p["highFrequencyContainer"][1]
    e = rp["positionConfidenceEllipse"]
    return d, {"gdt": d["cam"]["generationDeltaTime"], "lat": rp["latitude"], "lon": rp["longitude"],
               "alt": rp["altitude"]["altitudeValue"], "altconf": rp["altitude"]["altitudeConfidence"],
               "major": e["semiMajorAxisLength"], "minor": e["semiMinorAxisLength"], "orient": e["semiMajorAxisOrientation"],
               "heading": hf["heading"]["headingValue"], "hconf": hf["heading"]["headingConfidence"],
               "speed": hf["speed"]["speedValue"], "stationType": p["basicContainer"]["stationType"],
               "stationId": d["header"]["stationId"]}


def vam_view(data):
    d = vam_coder().decode(data)
    p = d["vam"]["vamParameters"]
    rp = p["basicContainer"]["referencePosition"]
    hf = p["vruHighFrequencyContainer"]
    e = rp["positionConfidenceEllipse"]
    return d, {"gdt": d["vam"]["generationDeltaTime"], "lat": rp["latitude"], "lon": rp["longitude"],
               "alt": rp["altitude"]["altitudeValue"], "altconf": rp["altitude"]["altitudeConfidence"],
               "major": e["semiMajorAxisLength"], "minor": e["semiMinorAxisLength"], "orient": e["semiMajorAxisOrientation"],
               "heading": hf["heading"]["value"], "hconf": hf["heading"]["confidence"],
               "speed": hf["speed"]["speedValue"], "stationType": p["basicContainer"]["stationType"],
               "stationId": d["header"]["stationId"]}


_denm_coder = []


def denm_coder():
    if not _denm_coder:
        from flexstack.facilities.decentralized_environmental_notification_service.denm_coder import DENMCoder
        _denm_coder.append(DENMCoder())
    return _denm_coder[0]


def denm_view(data):
    d = denm_coder().decode(data)
    m = d["denm"]["management"]
    ep = m["eventPosition"]
    e = ep["positionConfidenceEllipse"]
    return d, {"lat": ep["latitude"], "lon": ep["longitude"], "alt": ep["altitude"]["altitudeValue"],
               "referenceTime": m["referenceTime"], "detectionTime": m["detectionTime"], "stationType": m["stationType"],
               "stationId": d["header"]["stationId"], "seq": m["actionId"]["sequenceNumber"],
               "ep_nested": [ep["altitude"]["altitudeConfidence"], e["semiMajorConfidence"], e["semiMinorConfidence"],
                             e["semiMajorOrientation"]]}


def canonical(coder, name, data):
    """valid UPER: decodes, and the decoded value re-encodes to the same octets"""
    d = coder.asn_coder.decode(name, data)
    return coder.asn_coder.encode(name, d) == data


SPECIALS = [None,
            ("publicTransportContainer", {"embarkationStatus": True}),
            ("specialTransportContainer", {"specialTransportType": (b"\xa0", 4), "lightBarSirenInUse": (b"\x80", 2)}),
            ("roadWorksContainerBasic", {"lightBarSirenInUse": (b"\x00", 2)}),
            ("rescueContainer", {"lightBarSirenInUse": (b"\x80", 2)}),
            ("emergencyContainer", {"lightBarSirenInUse": (b"\xc0", 2)}),
            ("safetyCarContainer", {"lightBarSirenInUse": (b"\x40", 2)})]


def vehicle_of(case):
    """static vehicle data of a CAM case (defaults = the values used before the audit round)"""
    v = {"length": 45, "length_conf": "unavailable", "width": 20, "direction": "forward", "lights": 0}
    v.update(case.get("vehicle") or {})
    return v


def special_of(case):
    return SPECIALS[case.get("special", 0) % len(SPECIALS)]


def expected_path(rep, t, hist, cyclic=False):
    """path history a CAM sent at time t from report rep can carry: the positions of the earlier CAMs of this
    activation, newest first, relative to the current position in 1e-7 degree, up to the first one outside the
    DeltaLatitude / DeltaLongitude range, at most 23 points; age in 10 ms (1..65534).
    Longitude is cyclic: two points on either side of the 180 degree meridian are a few metres and 360 degrees of
    coordinate difference apart. The offset of such a point is either taken as the difference of the coordinates
    (then it is out of range and the history ends there: cyclic=False) or the short way round (cyclic=True, the offset
    a receiver adds to the reference position to find the point) - see `path_diff`.
    Returns (points as (dlat, dlon, dt) exact rationals, sure) - sure = no point sits at a range end"""
    if "lat" not in rep or "lon" not in rep:
        return [], True
    pts, sure = [], True
    for (hlat, hlon, ht) in reversed(hist):
        dlat = (Fraction(hlat) - Fraction(rep["lat"])) * 10**7
        dlon = (Fraction(hlon) - Fraction(rep["lon"])) * 10**7
        if cyclic:
            dlon = (dlon + 1_800_000_000) % 3_600_000_000 - 1_800_000_000
        edge = any(abs(abs(d) - lim) < 2 for d in (dlat, dlon) for lim in (131071, 131072, 131071.5))
        if edge:
            sure = False
        if not (-131071.5 <= dlat <= 131072.5 and -131071.5 <= dlon <= 131072.5):
            break
        pts.append((dlat, dlon, Fraction(t - ht, 10)))
        if len(pts) >= 23:
            break
    return pts, sure


def path_diff(got, want, sure):
    """got: decoded (deltaLatitude, deltaLongitude, pathDeltaTime) triples; None when they are the points `want`"""
    bad = None
    if sure and len(got) != len(want):
        bad = f"{len(got)} path points, {len(want)} earlier CAM positions are within the delta range"
    for n_, (g, w) in enumerate(zip(got, want)):
        dt = min(65534, max(1, round(w[2])))
        if abs(g[0] - w[0]) > 1 or abs(g[1] - w[1]) > 1 or abs(g[2] - dt) > 1 or not (1 <= g[2] <= 65534) \
                or not (-131071 <= g[0] <= 131072) or not (-131071 <= g[1] <= 131072):
            bad = bad or (f"path point {n_}: decoded (dLat, dLon, dt) = {g}, the CAM sent {float(w[2]) * 10:.0f} ms "
                          f"earlier was at ({float(w[0]):.1f}, {float(w[1]):.1f}) 1e-7 deg from here")
    return bad


def run_cam_case(case):
    """case: {"kind":"cam","t0":ms,"station_type":n,"role":n,"reports":[rep...], "mode":"restart"|"run"}
    -> per report: {"sent": [payload], "log": [...], "err": ...}"""
    box = [0.0]
    ctm = patch_env(box)
    attach_log()
    _phase[0] = 0.25
    FakeTimer.reset()
    VCLOCK.set_ms(case["t0"])
    btp = Btp()
    veh = vehicle_of(case)
    vd = ctm.VehicleData(station_id=case.get("station_id", 1234567), station_type=case["station_type"],
                         drive_direction=veh["direction"], vehicle_role=case["role"],
                         vehicle_length={"vehicleLengthValue": veh["length"], "vehicleLengthConfidenceIndication": veh["length_conf"]},
                         vehicle_width=veh["width"], exterior_lights=bytes([veh["lights"]]),
                         special_vehicle_data=special_of(case))
    mgr = ctm.CAMTransmissionManagement(btp, cam_coder(), vd)
    out = []
    hist = []       # (lat, lon, time) of the CAMs of this activation that carried a position (what a path history holds)

    def note_cams(n0, rep_now):
        """times of the CAMs sent since n0 and the path each of them can refer to"""
        times, hists = [], []
        for (t, _, _) in btp.sent[n0:]:
            times.append(t)
            hists.append(list(hist))
            if "lat" in rep_now and "lon" in rep_now:
                hist.append((rep_now["lat"], rep_now["lon"], t))
                del hist[:-40]
        return times, hists

    def fire_until(limit_ms, stop_on_cam_from=None):
        errs = []
        while True:
            pend = [x for x in FakeTimer.registry if not x[2].cancelled and not x[2].fired]
            if not pend or min(pend)[0] > limit_ms:
                break
            due, _, tm = min(pend)
            FakeTimer.registry = [x for x in FakeTimer.registry if x[2] is not tm]
            VCLOCK.set_ms(max(VCLOCK.ms, due))
            try:
                tm.fire()
            except Exception as e:
                errs.append(f"{type(e).__name__}: {e}")
                # the real Timer thread dies here; the code has already rescheduled (finally) or not:
            if stop_on_cam_from is not None and len(btp.sent) > stop_on_cam_from:
                break
        return errs

    mgr.start()
    if case.get("mode") == "drive":
        # a drive: reports at their own cadence, the timer running in between; every CAM belongs to the report that
        # was the latest when it was sent
        period = case["period"]
        last_cam_t = None
        for k, rep in enumerate(case["reports"]):
            mgr.location_service_callback(tpv_of(rep))
            n0 = len(btp.sent)
            _logcatch.records.clear()
            errs = fire_until(VCLOCK.ms + period - 1)
            times, hists = note_cams(n0, rep)
            VCLOCK.set_ms(case["t0"] + (k + 1) * period)
            if times:
                last_cam_t = times[-1]
            out.append({"sent": [x[2] for x in btp.sent[n0:]], "ports": [x[1] for x in btp.sent[n0:]], "times": times,
                        "hist": hists, "log": list(_logcatch.records), "err": errs, "pending": len(FakeTimer.pending()),
                        "quiet_ms": VCLOCK.ms - (last_cam_t if last_cam_t is not None else case["t0"])})
        mgr.stop()
        return out
    prev_rep = None
    for rep in case["reports"]:
        if case.get("mode") == "restart":
            mgr.stop()
            VCLOCK.advance(50)
            mgr.location_service_callback(tpv_of(rep))
            mgr.start()
            hist.clear()
        else:
            nb = len(btp.sent)
            fire_until(VCLOCK.ms + 1000)
            if prev_rep is not None:
                note_cams(nb, prev_rep)
            VCLOCK.set_ms(max(VCLOCK.ms, rep["ts"] and VCLOCK.ms))
            mgr.location_service_callback(tpv_of(rep))
        prev_rep = rep
        n0 = len(btp.sent)
        _logcatch.records.clear()
        errs = fire_until(VCLOCK.ms + 1300, stop_on_cam_from=n0)
        times, hists = note_cams(n0, rep)
        out.append({"sent": [x[2] for x in btp.sent[n0:]], "ports": [x[1] for x in btp.sent[n0:]], "times": times, "hist": hists,
                    "first_of_activation": case.get("mode") == "restart",
                    "log": list(_logcatch.records), "err": errs, "pending": len(FakeTimer.pending())})
    mgr.stop()
    return out


VRU_PROFILES = ("pedestrian", "bicyclistAndLightVruVehicle", "motorcyclist", "animal")     # bit 0..3 of VruClusterProfiles


def drive_cluster(cm, state, rep, leave_reason=None, breakup_reason=None):
    """bring a real VBSClusteringManager into the named clustering state through its public API; leave_reason /
    breakup_reason: index into the members of ClusterLeaveReason / ClusterBreakupReason (audit round: every member,
    not only safetyCondition / notProvided)"""
    from flexstack.facilities.vru_awareness_service.vru_clustering import ClusterLeaveReason, ClusterBreakupReason
    lr = list(ClusterLeaveReason)[leave_reason % len(ClusterLeaveReason)] if leave_reason is not None else ClusterLeaveReason.SAFETY_CONDITION
    br = list(ClusterBreakupReason)[breakup_reason % len(ClusterBreakupReason)] if breakup_reason is not None else ClusterBreakupReason.NOT_PROVIDED
    lat, lon = rep.get("lat", 41.0), rep.get("lon", 2.0)

    def nearby_vam(sid, cluster_id=None):
        v = {"header": {"protocolVersion": 3, "messageId": 16, "stationId": sid},
             "vam": {"generationDeltaTime": 0, "vamParameters": {
                 "basicContainer": {"stationType": 1, "referencePosition": {
                     "latitude": int(lat * 1e7), "longitude": int(lon * 1e7),
                     "positionConfidenceEllipse": {"semiMajorAxisLength": 100, "semiMinorAxisLength": 100,
                                                   "semiMajorAxisOrientation": 0},
                     "altitude": {"altitudeValue": 0, "altitudeConfidence": "unavailable"}}},
                 "vruHighFrequencyContainer": {"heading": {"value": 0, "confidence": 10},
                                               "speed": {"speedValue": 100, "speedConfidence": 10},
                                               "longitudinalAcceleration": {"longitudinalAccelerationValue": 0,
                                                                            "longitudinalAccelerationConfidence": 102}}}}}
        if cluster_id is not None:
            v["vam"]["vamParameters"]["vruClusterInformationContainer"] = {
                "vruClusterInformation": {"clusterId": cluster_id, "clusterCardinalitySize": 3}}
        return v

    def upd():
        cm.update(lat, lon, 1.0, 0.0)

    if state == "standalone":
        return
    if state == "idle":
        cm.set_vru_role_off()
    elif state == "join_notify":
        cm.initiate_join(17)
        VCLOCK.advance(700)
    elif state == "join_notify_expiring":      # less than a quarter second of the notification time is left
        cm.initiate_join(17)
        VCLOCK.advance(2700)
    elif state == "join_cancelled":
        cm.initiate_join(18)
        VCLOCK.advance(400)
        cm.cancel_join()
    elif state == "join_failed":
        cm.initiate_join(19)
        VCLOCK.advance(3000)
        upd()
        VCLOCK.advance(500)
        upd()
    elif state in ("passive", "leave_notify", "leader_lost"):
        cm.initiate_join(21)
        VCLOCK.advance(3000)
        upd()
        cm.on_received_vam(nearby_vam(900, cluster_id=21))
        if state == "leave_notify":
            cm.trigger_leave_cluster(lr)
        elif state == "leader_lost":
            VCLOCK.advance(2000)
            upd()
    elif state in ("leader", "leader_breakup", "leader_breakup_expiring"):
        for sid in (901, 902, 903):
            cm.on_received_vam(nearby_vam(sid))
        cm.try_create_cluster(lat, lon)
        if state in ("leader_breakup", "leader_breakup_expiring"):
            cm.trigger_breakup_cluster(br)
            VCLOCK.advance(500 if state == "leader_breakup" else 2700)


CLUSTER_STATES = ("none", "standalone", "idle", "join_notify", "join_notify_expiring", "join_cancelled", "join_failed",
                  "passive", "leave_notify", "leader_lost", "leader", "leader_breakup", "leader_breakup_expiring")
EXPECT_STATE = {"standalone": "VRU-ACTIVE-STANDALONE", "idle": "VRU-IDLE", "join_notify": "VRU-ACTIVE-STANDALONE",
                "join_notify_expiring": "VRU-ACTIVE-STANDALONE", "leader_breakup_expiring": "VRU-ACTIVE-CLUSTER-LEADER",
                "join_cancelled": "VRU-ACTIVE-STANDALONE", "join_failed": "VRU-ACTIVE-STANDALONE", "passive": "VRU-PASSIVE",
                "leave_notify": "VRU-ACTIVE-STANDALONE", "leader_lost": "VRU-ACTIVE-STANDALONE",
                "leader": "VRU-ACTIVE-CLUSTER-LEADER", "leader_breakup": "VRU-ACTIVE-CLUSTER-LEADER"}


def norm(x):
    """decoded asn1tools values and the builder's dicts in one shape (CHOICE tuples and BIT STRING tuples kept)"""
    if isinstance(x, dict):
        return {k: norm(v) for k, v in x.items()}
    if isinstance(x, (list, tuple)):
        return [norm(v) for v in x]
    if isinstance(x, (bytes, bytearray)):
        return bytes(x).hex()
    return x


def run_vam_case(case):
    """case: {"kind":"vam","t0":ms,"station_type":n,"cluster":state,"reports":[rep...]}"""
    from flexstack.utils import time_service
    import flexstack.facilities.vru_awareness_service.vam_transmission_management as vtm
    from flexstack.facilities.vru_awareness_service.vru_clustering import VBSClusteringManager
    attach_log()
    _phase[0] = 0.25
    time_service.TimeService.time = staticmethod(_vtime)
    vtm.TimeService.time = staticmethod(_vtime)
    VCLOCK.set_ms(case["t0"])
    btp = Btp()
    cm = None
    info = {}
    if case["cluster"] != "none":
        import flexstack.facilities.vru_awareness_service.vru_clustering as vc
        vc.random = _Shim(_real_random, randint=lambda a, b: 77)
        cm = VBSClusteringManager(own_station_id=77, own_vru_profile=VRU_PROFILES[case.get("profile", 0) % 4],
                                  time_fn=lambda: VCLOCK.ms / 1000)
        drive_cluster(cm, case["cluster"], case["reports"][0], case.get("leave_reason"), case.get("breakup_reason"))
        info["state"] = cm.state.value
    mgr = vtm.VAMTransmissionManagement(btp, vam_coder(), vtm.DeviceDataProvider(station_id=77, station_type=case["station_type"]),
                                        clustering_manager=cm)
    out = []
    for rep in case["reports"]:
        VCLOCK.advance(150)
        n0 = len(btp.sent)
        err = None
        exp = {}
        if cm is not None:
            exp = {"gate": cm.should_transmit_vam(), "info": cm.get_cluster_information_container(),
                   "op": cm.get_cluster_operation_container()}
        try:
            mgr.location_service_callback(tpv_of(rep))
        except Exception as e:
            err = f"{type(e).__name__}: {e}"
        out.append({"sent": [x[2] for x in btp.sent[n0:]], "ports": [x[1] for x in btp.sent[n0:]], "err": err, "exp": exp})
    return out, info


class SyncThread:
    def __init__(self, target=None, args=(), kwargs=None, daemon=None):
        self.target, self.args, self.kwargs = target, args, kwargs or {}

    def start(self):
        self.target(*self.args, **self.kwargs)

    def join(self, timeout=None):
        return None


def run_denm_case(case):
    """case: {"kind":"denm","t0":ms,"station_type":n,"request":"eva"|"crw","reports":[rep...]}"""
    from flexstack.utils import time_service
    import flexstack.facilities.decentralized_environmental_notification_service.denm_transmission_management as dtm
    import flexstack.facilities.decentralized_environmental_notification_service.den_service as dsm
    from flexstack.facilities.decentralized_environmental_notification_service.den_service import \
        DecentralizedEnvironmentalNotificationService
    dsm.DENMCoder = denm_coder      # compiling the ASN.1 takes seconds: the service gets the shared coder instance
    from flexstack.facilities.ca_basic_service.cam_transmission_management import VehicleData
    import flexstack.applications.road_hazard_signalling_service.emergency_vehicle_approaching_service as eva
    from flexstack.applications.road_hazard_signalling_service.service_access_point import DENRequest
    from flexstack.facilities.local_dynamic_map import ldm_classes as lc
    attach_log()
    _phase[0] = 0.25
    time_service.TimeService.time = staticmethod(_vtime)
    for m in (dtm, eva, lc):
        if hasattr(m, "TimeService"):
            m.TimeService.time = staticmethod(_vtime)
    dtm.threading = _Shim(_real_threading, Thread=SyncThread, Timer=FakeTimer)
    dtm.time = _Shim(_real_time, sleep=lambda s: VCLOCK.advance(int(round(s * 1000))), time=_vtime)
    VCLOCK.set_ms(case["t0"])

    class BtpStub(Btp):
        def register_indication_callback_btp(self, port, callback):
            pass

    btp = BtpStub()
    vd = VehicleData(station_id=case.get("station_id", 99), station_type=case["station_type"], drive_direction="forward",
                     vehicle_length={"vehicleLengthValue": 45, "vehicleLengthConfidenceIndication": "unavailable"},
                     vehicle_width=20)
    den = DecentralizedEnvironmentalNotificationService(btp, vd)
    out = []
    for rep in case["reports"]:
        VCLOCK.advance(500)
        n0 = len(btp.sent)
        err = None
        meta = {"now_its": its_of_utc_ms(VCLOCK.ms)}
        try:
            if case["request"] == "eva":
                svc = eva.EmergencyVehicleApproachingService(den, duration=2000)
                meta["detection"] = svc.detection_time
                svc.trigger_denm_sending(tpv_of(rep))
            else:
                want = expected_codes_for_request(rep)
                pos = lc.ReferencePosition(
                    latitude=want["lat"], longitude=want["lon"],
                    position_confidence_ellipse=lc.PositionConfidenceEllipse(4095, 4095, 3601),
                    altitude=lc.Altitude(altitude_value=want["alt"], altitude_confidence="unavailable"))
                meta["detection"] = its_of_utc_ms(rep["ts"])
                req = DENRequest.with_collision_risk_warning(lc.TimestampIts(its_of_utc_ms(rep["ts"])), pos)
                den.denm_transmission_management.send_collision_risk_warning_denm(req)
        except Exception as e:
            err = f"{type(e).__name__}: {e}"
        out.append({"sent": [x[2] for x in btp.sent[n0:]], "ports": [x[1] for x in btp.sent[n0:]], "err": err, "meta": meta,
                    "times": [x[0] for x in btp.sent[n0:]]})
    return out


def run_denm_overlap_case(case):
    """case: {"kind":"denm","request":"eva_overlap","t0":ms,"station_type":n,"duration":T,"interval":i,
    "gaps":[ms from one trigger to the next...],"reports":[rep...],"nested":[[altitudeConfidence, semiMajor, semiMinor,
    orientation] per report]}.  ONE EmergencyVehicleApproachingService is triggered once per report while the
    repetitions of the earlier events are still running (deterministic virtual-time thread runner of C17). Every
    DENM handed to BTP is attributed to the trigger whose thread produced it."""
    from flexstack.utils import time_service
    import flexstack.facilities.decentralized_environmental_notification_service.denm_transmission_management as dtm
    import flexstack.facilities.decentralized_environmental_notification_service.den_service as dsm
    from flexstack.facilities.decentralized_environmental_notification_service.den_service import \
        DecentralizedEnvironmentalNotificationService
    dsm.DENMCoder = denm_coder
    from flexstack.facilities.ca_basic_service.cam_transmission_management import VehicleData
    import flexstack.applications.road_hazard_signalling_service.emergency_vehicle_approaching_service as eva
    from flexstack.facilities.local_dynamic_map import ldm_classes as lc
    from .c17_sched import VSched
    attach_log()
    _phase[0] = 0.25
    time_service.TimeService.time = staticmethod(_vtime)
    for m in (dtm, eva, lc):
        if hasattr(m, "TimeService"):
            m.TimeService.time = staticmethod(_vtime)
    sched = VSched()
    dtm.threading = _Shim(_real_threading, Thread=sched.thread_factory(), Timer=FakeTimer)
    dtm.time = _Shim(_real_time, sleep=sched.sleep, time=_vtime)
    VCLOCK.set_ms(case["t0"])
    captured = []       # (virtual ms, trigger index, port, payload)

    class BtpStub:
        def btp_data_request(self, request):
            cur = sched.current
            captured.append((VCLOCK.ms, cur.tag if cur is not None else None, request.destination_port, bytes(request.data)))

        def register_indication_callback_btp(self, port, callback):
            pass

    vd = VehicleData(station_id=case.get("station_id", 99), station_type=case["station_type"], drive_direction="forward",
                     vehicle_length={"vehicleLengthValue": 45, "vehicleLengthConfidenceIndication": "unavailable"},
                     vehicle_width=20)
    den = DecentralizedEnvironmentalNotificationService(BtpStub(), vd)
    svc = eva.EmergencyVehicleApproachingService(den, duration=case["duration"])
    svc.denm_interval = case["interval"]
    errs, metas = [], []
    t = case["t0"]
    crashed = None
    try:
        for k, rep in enumerate(case["reports"]):
            if k:
                t += case["gaps"][(k - 1) % len(case["gaps"])]
            sched.run_until(t)
            nested = (case.get("nested") or [None])[k % len(case.get("nested") or [None])]
            if nested is not None:
                # the application's own confidence data for this event (public attribute of the service)
                svc.event_position["altitude"]["altitudeConfidence"] = nested[0]
                svc.event_position["positionConfidenceEllipse"] = {"semiMajorConfidence": nested[1], "semiMinorConfidence": nested[2],
                                                                   "semiMajorOrientation": nested[3]}
            metas.append({"detection": svc.detection_time, "nested": nested if nested is not None else ["unavailable", 4095, 4095, 3601],
                          "t": t})
            sched.next_tag = k
            err = None
            try:
                svc.trigger_denm_sending(tpv_of(rep))
                sched.run_until(t)
            except Exception as e:
                err = f"{type(e).__name__}: {e}"
            errs.append(err)
        if not sched.run_all(t + case["duration"] + case["interval"] + 1000):
            crashed = "a repetition thread is still running after the duration of its event"
    except Exception as e:
        crashed = f"a repetition thread raised {type(e).__name__}: {e}"
    left = sched.abandon()
    out = []
    for k, rep in enumerate(case["reports"]):
        mine = [c for c in captured if c[1] == k]
        err = errs[k] if k < len(errs) else None
        if crashed and k == len(case["reports"]) - 1:
            err = crashed
        out.append({"sent": [c[3] for c in mine], "ports": [c[2] for c in mine], "times": [c[0] for c in mine], "err": err,
                    "meta": dict(metas[k] if k < len(metas) else {}, now_its=None),
                    "stray": [c[0] for c in captured if c[1] is None] if k == 0 else [], "left": left if k == 0 else 0})
    return out


def expected_codes_for_request(rep):
    """event position in data-element units as the CDD defines them (used to build the collision-risk request)"""
    w = {"lat": int(Fraction(rep["lat"]) * 10**7) if "lat" in rep else 900000001,
         "lon": int(Fraction(rep["lon"]) * 10**7) if "lon" in rep else 1800000001}
    if "altHAE" not in rep:
        w["alt"] = 800001
    elif rep["altHAE"] <= -1000.0:
        w["alt"] = -100000
    elif rep["altHAE"] >= 8000.0:
        w["alt"] = 800000
    else:
        w["alt"] = int(Fraction(rep["altHAE"]) * 100)
    return w


# --------------------------------------------------------------------------- checking one case

def check_cases(ctx, cases, tag):
    reqs, pend = [], []
    for case in cases:
        kind = case["kind"]
        info = {}
        if kind == "cam":
            obs = run_cam_case(case)
        elif kind == "vam":
            obs, info = run_vam_case(case)
        elif case.get("request") == "eva_overlap":
            obs = run_denm_overlap_case(case)
        else:
            obs = run_denm_case(case)
        for i, (rep, o) in enumerate(zip(case["reports"], obs)):
            one = dict(case)
            one["reports"] = case["reports"][:i + 1] if kind == "cam" and case.get("mode") != "restart" else [rep]
            if case.get("request") == "eva_overlap":
                one["reports"] = case["reports"]        # the later triggers are part of the input of this event
            inp = {"case": one}
            ctx.count(1, f"{kind}_{tag}" + (f"_{case['cluster']}" if kind == "vam" and tag != "rand" else ""))
            views = check_one(ctx, kind, case, rep, o, info, inp)
            for (flavour, view) in views:
                reqs.append((1, model_args(rep)))
                pend.append((flavour, view, rep, inp))
                ctx.nontriv((kind, json.dumps(rep, sort_keys=True), case.get("station_type"), case.get("cluster")))
    if ctx.model.available and reqs:
        for (flavour, view, rep, inp), res in zip(pend, ctx.model.batch(reqs)):
            mv = model_view(res, "cam" if flavour == "denm" else flavour)
            diff = {k: (mv[k], view[k]) for k in view if k in mv and mv[k] != view[k]}
            if diff:
                ctx.mismatch(f"{flavour.upper()} fields decoded from the payload = FieldMap.report_codes", inp,
                             {k: v[0] for k, v in diff.items()}, {k: v[1] for k, v in diff.items()})
    if pend:
        flavour, view, rep, _ = pend[len(pend) // 2]
        ctx.sample({"message": flavour, "report": {k: v for k, v in rep.items()}, "decoded": view}, cap=9)


def check_one(ctx, kind, case, rep, o, info, inp):
    """oracle on one report's observation; returns [(flavour, decoded view)] for the model comparison"""
    views = []
    port = {"cam": 2001, "vam": 2018, "denm": 2002}[kind]
    if kind == "vam":
        state = case["cluster"]
        if state != "none" and info.get("state") != EXPECT_STATE[state]:
            ctx.mismatch("harness: clustering state reached through the public API", inp, EXPECT_STATE[state], info.get("state"))
        gate = state not in ("idle", "passive")
        if o["err"]:
            cls = "vam_generation_failed"
            op = (o.get("exp") or {}).get("op") or {}
            zero = any(isinstance(v, dict) and 0 in (v.get("joinTime"), v.get("breakupTime")) for v in op.values())
            if state.startswith("leader") and "EncodeError" in o["err"] and \
                    ("clusterBoundingBoxShape" in o["err"] or "clusterProfiles" in o["err"]):
                cls = "vam_cluster_information_container_shape_D30"
            elif zero and state.startswith(("join_notify", "leader_breakup")):
                cls = "vam_cluster_operation_time_zero"
            ctx.property_failure(cls, inp, f"VAM generation raised in clustering state {state}: {o['err']}", "VAM", o["err"])
            return views
        if not gate:
            if o["sent"]:
                ctx.property_failure("vam_sent_while_passive", inp, f"VAM sent in clustering state {state}", 0, len(o["sent"]))
            return views
    elif o["err"]:
        ctx.property_failure(f"{kind}_generation_failed", inp, f"{kind.upper()} generation raised: {o['err']}", kind.upper(), o["err"])
        if not o["sent"]:
            return views
    want_n = 2 if (kind == "denm" and case["request"] == "eva") else 1
    if kind == "cam" and case.get("mode") == "drive":
        # several reports per CAM or several CAMs per report: what must not happen is a stall (T_GenCamMax plus one
        # check period and one report period without a CAM)
        want_n = 0
        k = len(inp["case"]["reports"]) - 1
        quiet = o.get("quiet_ms", 0)
        if quiet > 1000 + 100 + case["period"]:
            extra = "; ".join(o.get("log", [])[:2])
            ctx.property_failure("cam_generation_failed", inp, f"no CAM for {quiet} ms during the drive (report {k})"
                                 + (f" ({extra})" if extra else ""), "CAM", None)
    overlap = kind == "denm" and case["request"] == "eva_overlap"
    if overlap:
        want_n = -(-case["duration"] // case["interval"])
        if o.get("stray") or o.get("left"):
            ctx.property_failure("denm_generation_failed", inp, "DENMs outside any trigger / repetition threads left over",
                                 [0, 0], [len(o.get("stray") or []), o.get("left")])
        if len(o["sent"]) > want_n:
            ctx.property_failure("denm_repetition_count", inp, f"{len(o['sent'])} DENMs for one trigger, expected {want_n}",
                                 want_n, len(o["sent"]))
    if len(o["sent"]) < want_n:
        extra = "; ".join(o.get("log", [])[:2])
        ctx.property_failure(f"{kind}_generation_failed", inp,
                             f"{len(o['sent'])} {kind.upper()}(s) handed to BTP for this report, expected {want_n}"
                             + (f" ({extra})" if extra else ""), want_n, len(o["sent"]))
        if not o["sent"]:
            return views
    for j, data in enumerate(o["sent"]):
        if o["ports"][j] != port:
            ctx.property_failure(f"{kind}_port", inp, f"sent to BTP port {o['ports'][j]}", port, o["ports"][j])
        try:
            if kind == "cam":
                full, view = cam_view(data)
                ok = canonical(cam_coder(), "CAM", data)
            elif kind == "vam":
                full, view = vam_view(data)
                ok = canonical(vam_coder(), "VAM", data)
            else:
                full, view = denm_view(data)
                ok = canonical(denm_coder(), "DENM", data)
        except Exception as e:
            ctx.property_failure(f"{kind}_invalid_uper", inp, f"payload does not decode with the repository's coder: "
                                 f"{type(e).__name__}: {str(e)[:160]}", "decodable", data.hex()[:80])
            continue
        if not ok:
            ctx.property_failure(f"{kind}_invalid_uper", inp, "payload is not the UPER encoding of the value it decodes to",
                                 "canonical", data.hex()[:80])
        for (field, exp, obs) in oracle_fields(rep, view, "cam" if kind == "cam" else "vam"):
            ctx.property_failure(f"{kind}_field_{field}", inp, f"{field}: decoded {obs}, report gives {exp}", exp, obs)
        # (the emergency-vehicle request overwrites the management container's stationType with its own
        #  rhs_vehicle_type = 0; that is what the service intends, see design/C11.md)
        want_st = 0 if (kind == "denm" and case["request"] in ("eva", "eva_overlap")) else case["station_type"]
        if view["stationType"] != want_st:
            ctx.property_failure(f"{kind}_station_type", inp, "stationType differs from the configured one",
                                 want_st, view["stationType"])
        if kind == "denm":
            meta = o["meta"]
            sent_its = its_of_utc_ms(o["times"][j])
            if view["referenceTime"] != sent_its:
                ctx.property_failure("denm_reference_time", inp, "referenceTime is not the ITS time at which the DENM was built",
                                     sent_its, view["referenceTime"])
            if view["detectionTime"] != meta["detection"]:
                ctx.property_failure("denm_detection_time", inp, "detectionTime differs from the request", meta["detection"],
                                     view["detectionTime"])
            if overlap:
                # every repetition carries the nested members (altitude confidence, confidence ellipse) its OWN
                # trigger was made with, whatever later triggers of the same application wrote meanwhile
                if view["ep_nested"] != list(meta["nested"]):
                    ctx.property_failure("denm_field_eventPositionConfidence", inp,
                                         f"repetition {j} of the event: altitude confidence / confidence ellipse differ "
                                         "from those of its own trigger", list(meta["nested"]), view["ep_nested"])
                ctx.count(1, "denm_overlap_repetition")
        if kind == "cam":
            lf = full["cam"]["camParameters"].get("lowFrequencyContainer")
            if lf is not None:
                roles = ["default", "publicTransport", "specialTransport", "dangerousGoods", "roadWork", "rescue",
                         "emergency", "safetyCar", "agriculture", "commercial", "military", "roadOperator", "taxi",
                         "uvar", "rfu1", "rfu2"]    # VehicleRole of ETSI TS 102 894-2 V2.x
                if lf[1]["vehicleRole"] != roles[case["role"]]:
                    ctx.property_failure("cam_vehicle_role", inp, "vehicleRole differs from the configured one",
                                         roles[case["role"]], lf[1]["vehicleRole"])
                veh = vehicle_of(case)
                if norm(lf[1]["exteriorLights"]) != norm((bytes([veh["lights"]]), 8)):
                    ctx.property_failure("cam_vehicle_data", inp, "exteriorLights differ from the configured ones",
                                         norm((bytes([veh["lights"]]), 8)), norm(lf[1]["exteriorLights"]))
                if "hist" in o and j < len(o["hist"]):
                    # path history: the positions of the earlier CAMs relative to this one
                    want, sure = expected_path(rep, o["times"][j], o["hist"][j])
                    got = [(q["pathPosition"]["deltaLatitude"], q["pathPosition"]["deltaLongitude"], q["pathDeltaTime"])
                           for q in lf[1]["pathHistory"]]
                    bad = path_diff(got, want, sure)
                    if "lon" in rep and any(abs(Fraction(h[1]) - Fraction(rep["lon"])) > 180 for h in o["hist"][j]):
                        # an earlier CAM was sent from the other side of the 180 degree meridian: a history that ends
                        # there (offset = coordinate difference, out of range) and one that goes on with the offsets
                        # taken the short way round both consist of positions this station reported; anything else
                        # (a wrapped coordinate difference in the message) is neither
                        want_c, sure_c = expected_path(rep, o["times"][j], o["hist"][j], cyclic=True)
                        if want_c != want:
                            ctx.count(1, "cam_path_history_across_180")
                            if bad and path_diff(got, want_c, sure_c) is None:
                                bad, want = None, want_c
                    if bad:
                        ctx.property_failure("cam_path_history", inp, bad, [[float(a), float(b), float(c)] for a, b, c in want][:4],
                                             got[:4])
                    if want:
                        ctx.count(1, "cam_path_history_points_%s" % ("1-5" if len(want) <= 5 else "6-22" if len(want) < 23 else "23"))
            # static vehicle data in the high-frequency container
            hf = full["cam"]["camParameters"]["highFrequencyContainer"][1]
            veh = vehicle_of(case)
            got_v = [hf["driveDirection"], hf["vehicleLength"]["vehicleLengthValue"],
                     hf["vehicleLength"]["vehicleLengthConfidenceIndication"], hf["vehicleWidth"]]
            want_v = [veh["direction"], veh["length"], veh["length_conf"], veh["width"]]
            if got_v != want_v:
                ctx.property_failure("cam_vehicle_data", inp, "drive direction / vehicle length / width differ from the "
                                     "configured vehicle data", want_v, got_v)
            # special vehicle container: only for a role other than default, then the configured one
            sv = full["cam"]["camParameters"].get("specialVehicleContainer")
            if sv is not None and (case["role"] == 0 or norm(sv) != norm(special_of(case))):
                ctx.property_failure("cam_special_vehicle_container", inp, "special vehicle container differs from the "
                                     "configured one (none for the default role)", norm(special_of(case)) if case["role"] else None, norm(sv))
            if sv is None and case["role"] != 0 and special_of(case) is not None and lf is not None and o.get("first_of_activation"):
                ctx.property_failure("cam_special_vehicle_container", inp, "the first CAM of a special vehicle lacks its "
                                     "special vehicle container", norm(special_of(case)), None)
            if sv is not None:
                ctx.count(1, "cam_special_vehicle_container")
            # extension containers: two-wheeler container exactly for cyclist / moped / motorcycle; all decodable
            ids = []
            for ec in full["cam"]["camParameters"].get("extensionContainers") or []:
                ids.append(ec["containerId"])
                try:
                    cam_coder().decode_extension_container(ec["containerId"], ec["containerData"])
                except Exception as e:
                    ctx.property_failure("cam_extension_container", inp, f"extension container {ec['containerId']} does not "
                                         f"decode: {type(e).__name__}", "decodable", ec["containerData"].hex())
            if (1 in ids) != (case["station_type"] in (2, 3, 4)) or any(i_ not in (1, 3) for i_ in ids) or len(set(ids)) != len(ids):
                ctx.property_failure("cam_extension_container", inp, "extension containers: two-wheeler container (1) exactly for "
                                     "station types 2-4, besides it only the very-low-frequency container (3)",
                                     [1] if case["station_type"] in (2, 3, 4) else [], ids)
            if ids:
                ctx.count(1, "cam_extension_containers_" + "+".join(str(i_) for i_ in sorted(ids)))
        if kind == "vam" and case["cluster"] != "none":
            p = full["vam"]["vamParameters"]
            exp = o["exp"]
            got_op = norm(p.get("vruClusterOperationContainer"))
            if got_op != norm(exp["op"]):
                ctx.property_failure("vam_cluster_operation_container", inp,
                                     f"cluster operation container in state {case['cluster']} differs from what the "
                                     "clustering manager supplied", norm(exp["op"]), got_op)
            # the identifier in a leave indication is the identifier of the cluster the scenario joined (independent of what
            # the manager supplies): 21 after a completed join, 18 / 19 after a cancelled / failed join
            want_leave = {"leave_notify": 21, "leader_lost": 21, "join_cancelled": 18, "join_failed": 19}.get(case["cluster"])
            li = (p.get("vruClusterOperationContainer") or {}).get("clusterLeaveInfo")
            if want_leave is not None and li is not None and li.get("clusterId") != want_leave:
                ctx.property_failure("vam_leave_cluster_id", inp, f"clusterLeaveInfo in state {case['cluster']} names another "
                                     "cluster than the one the station had joined", want_leave, li.get("clusterId"))
            gi = p.get("vruClusterInformationContainer")
            if (gi is None) != (exp["info"] is None):
                ctx.property_failure("vam_cluster_information_container", inp, "cluster information container presence",
                                     norm(exp["info"]), norm(gi))
            elif gi is not None:
                g = gi["vruClusterInformation"]
                e = exp["info"]["vruClusterInformation"]
                shape = g.get("clusterBoundingBoxShape")
                radius = shape[1].get("radius") if isinstance(shape, (tuple, list)) else None
                want_bits = [bytes([0x80 >> (case.get("profile", 0) % 4)]).hex(), 4]
                if norm(g.get("clusterProfiles")) != want_bits:
                    ctx.property_failure("vam_cluster_information_container", inp, "clusterProfiles is not the bit of the "
                                         "leader's own VRU profile (" + VRU_PROFILES[case.get("profile", 0) % 4] + ")",
                                         want_bits, norm(g.get("clusterProfiles")))
                if g.get("clusterId") != e.get("clusterId") or g.get("clusterCardinalitySize") != e.get("clusterCardinalitySize") \
                        or not (1 <= g.get("clusterId", 0) <= 255) or g.get("clusterCardinalitySize", 0) < 1 \
                        or radius is None or radius < 1:
                    ctx.property_failure("vam_cluster_information_container", inp, "cluster information differs from the "
                                         "clustering manager's (id 1..255, cardinality >= 1, radius >= 1)", norm(e), norm(g))
        if j == 0 or overlap:
            views.append((kind, {k: view[k] for k in view if k in ("gdt", "lat", "lon", "alt", "altconf", "major", "minor",
                                                                     "heading", "hconf", "speed")}))
    return views


# --------------------------------------------------------------------------- gdt reconstruction at a receiver

def check_gdt_reconstruct(ctx, pairs):
    """pairs: (generation utc ms T, age ms). A CAM generated at T is received when the clock reads T + age."""
    from flexstack.facilities.ca_basic_service.cam_reception_management import CAMReceptionManagement
    import flexstack.facilities.ca_basic_service.cam_reception_management as crm
    from flexstack.facilities.ca_basic_service.cam_transmission_management import CooperativeAwarenessMessage
    crm.TimeService.time = staticmethod(_vtime)
    _phase[0] = 0.25

    class R:
        def register_indication_callback_btp(self, port, callback):
            self.port = port

    got = []
    rx = CAMReceptionManagement(cam_coder(), R())
    rx.add_application_callback(got.append)
    # the VRU service reconstructs the generation time of received VAMs the same way (its receiver hands the VAM with
    # its utc_timestamp to the LDM adapter)
    import flexstack.facilities.vru_awareness_service.vam_reception_management as vrm
    from flexstack.facilities.vru_awareness_service.vam_transmission_management import VAMMessage
    vrm.TimeService.time = staticmethod(_vtime)

    class VamSink:
        def add_provider_data_to_ldm(self, vam):
            got.append(vam)

    vrx = vrm.VAMReceptionManagement(vam_coder(), R(), vru_basic_service_ldm=VamSink())
    reqs, keep = [], []
    for n_, (T, age) in enumerate(pairs):
        via_vam = bool(n_ % 3 == 2) if not isinstance(age, dict) else False
        VCLOCK.set_ms(T + age)
        got.clear()
        if via_vam:
            vam = VAMMessage()
            vam.fullfill_with_tpv_data(tpv_of({"ts": T, "lat": 41.0, "lon": 2.0}))
            vrx.reception_callback(SimpleNamespace(data=vam_coder().encode(vam.vam)))
        else:
            cam = CooperativeAwarenessMessage()
            cam.fullfill_with_tpv_data(tpv_of({"ts": T, "lat": 41.0, "lon": 2.0}))
            data = cam_coder().encode(cam.cam)
            rx.reception_callback(SimpleNamespace(data=data))
        ctx.count(1, ("gdt_reconstruct" if age < 65536 else "gdt_reconstruct_older_than_65s") + ("_vam" if via_vam else ""))
        inp = {"gdt_reconstruct": {"generated_utc_ms": T, "age_ms": age, "message": "vam" if via_vam else "cam"}}
        if len(got) != 1:
            ctx.property_failure("cam_reception_failed", inp, "the received message was not delivered to the application / LDM adapter", 1, len(got))
            continue
        ts = got[0].get("utc_timestamp")
        if age < 65536 and ts != T:
            ctx.property_failure("gdt_reconstruct", inp, f"generation time reconstructed as {ts} for a CAM generated at {T}, "
                                 f"{age} ms old", T, ts)
        reqs.append((2, [its_of_utc_ms(T + age), its_of_utc_ms(T) % 65536]))
        keep.append((inp, its_of_utc_ms(int(ts)) if ts is not None else None))
        ctx.nontriv(("gdt", T, age))
    if ctx.model.available:
        for (inp, impl), res in zip(keep, ctx.model.batch(reqs)):
            if res != [impl]:
                ctx.mismatch("GenerationDeltaTime.as_timestamp_in_certain_point = FieldMap.gdt_reconstruct (ITS ms)", inp, res, [impl])
    ctx.sample({"gdt_reconstruct": pairs[len(pairs) // 2]}, cap=10)


# --------------------------------------------------------------------------- entry points

def subsets(keys):
    for m in range(1 << len(keys)):
        yield [k for i, k in enumerate(keys) if m >> i & 1]


def t0_of(rng):
    return 1_600_000_000_000 + rng.randrange(0, 300_000_000_000)


def seq_ts(rng, reps):
    """give the reports of one case increasing time stamps (150 ms .. 2.5 s apart, so that the VRU service, whose
    minimum gap is measured on them, sends one VAM per report), starting anywhere relative to the gdt wrap"""
    t = t0_of(rng)
    for r in reps:
        r["ts"] = t
        t += rng.choice([150, 1000, 2500])
    return reps


def rand_vehicle(rng):
    return {"length": rng.choice([1, 42, 45, 1022, 1023, rng.randrange(1, 1024)]),
            "length_conf": rng.choice(["unavailable", "noTrailerPresent", "trailerPresentWithKnownLength"]),
            "width": rng.choice([1, 18, 20, 61, 62, rng.randrange(1, 63)]),
            "direction": rng.choice(["forward", "backward", "unavailable"]),
            "lights": rng.choice([0, 0x80, 0x01, 0xff, rng.randrange(256)])}


# Where a drive takes place. The property quantifies over latitude -90..90 and longitude -180..180, and the path history
# relates the reports of ONE drive to each other: neighbouring points of the earth need not have neighbouring coordinates
# (the longitude jumps by 360 degrees at the 180 degree meridian, all longitudes meet at the poles) and the offsets change
# sign at the equator and at the Greenwich meridian. A region names the line / point the drive is laid across:
# (name, latitude of the crossing or None = anywhere, longitude of the crossing or None = anywhere)
DRIVE_REGIONS = (("inland", None, None), ("antimeridian", None, 180.0), ("anywhere", None, None), ("equator", 0.0, None),
                 ("antimeridian", None, -180.0), ("pole", 90.0, None), ("greenwich", None, 0.0), ("pole", -90.0, None))


def wrap_position(lat, lon, track=0.0):
    """coordinates as a GNSS daemon reports them: over a pole the latitude turns back, the longitude jumps to the
    opposite meridian and the course reverses; the longitude stays within -180..180"""
    if lat > 90.0:
        lat, lon, track = 180.0 - lat, lon + 180.0, track + 180.0
    elif lat < -90.0:
        lat, lon, track = -180.0 - lat, lon + 180.0, track + 180.0
    while lon > 180.0:
        lon -= 360.0
    while lon < -180.0:
        lon += 360.0
    return lat, lon, track


def drive_track(lat, lon, track, turn, speed, period, n):
    """the true positions of n reports of a drive starting at (lat, lon)"""
    pts = []
    for _ in range(n):
        pts.append((lat, lon, track % 360.0))
        d = speed * period / 1000
        lat += d * math.cos(math.radians(track)) / 111194.9
        lon += d * math.sin(math.radians(track)) / (111194.9 * max(1e-3, math.cos(math.radians(min(90.0, abs(lat))))))
        track += turn * period / 1000
        lat, lon, track = wrap_position(lat, lon, track)
    return pts


def gen_drive(rng, quick, region=None):
    """a vehicle driving along a straight or slowly turning course: reports at a fixed cadence, positions a few metres
    to a few tens of metres apart, long enough for the path history of the low-frequency container to fill up and -
    for the fast ones - to run out of the DeltaLatitude / DeltaLongitude range (1.4 km). The drive lies anywhere in
    the coordinate range of the property; drives of a region other than "inland" / "anywhere" are laid so that they
    cross the line of that region (DRIVE_REGIONS) somewhere in their middle, in either direction; a standing or slow
    station there is moved across it by the noise of its receiver"""
    name, lat_x, lon_x = region if region is not None else rng.choice(DRIVE_REGIONS)
    period = rng.choice([100, 200, 500, 1000, 1000])
    n = rng.choice([25, 40, 60]) if quick else rng.choice([40, 90, 200])
    if name == "inland":
        lat = rng.choice([0.0, 41.387304, -33.9, 59.33, 69.65, -54.8]) + rng.randrange(-1000, 1000) / 1e4
        lon = rng.choice([2.112485, -70.6, 18.06, 100.0, -120.0, 0.0]) + rng.randrange(-1000, 1000) / 1e4
    else:
        lat = rng.uniform(-89.0, 89.0)
        lon = rng.uniform(-180.0, 180.0)
    speed = rng.choice([0.0, 1.5, 8.0, 14.0, 30.0, 62.0, 85.0])
    track = rng.choice([0.0, 90.0, 180.0, 270.0, float(rng.randrange(0, 360))])
    turn = rng.choice([0.0, 0.0, 2.0, -5.0])
    noise = rng.choice([0.0, 0.0, 0.0, 3e-7, 4e-6])      # receiver noise, degrees (a few centimetres / decimetres)
    if lat_x is not None or lon_x is not None:
        # across the line: not parallel to it, and a station that does not move is moved across by its noise
        for _ in range(20):
            c = math.cos(math.radians(track)) if lat_x is not None else math.sin(math.radians(track))
            if abs(c) > 0.3:
                break
            track = float(rng.randrange(0, 360))
        if speed == 0.0:
            noise = rng.choice([3e-7, 4e-6])
        # lay the drive so that report number m is on the line: run it once from a point of the line and move the
        # start back by what it has covered by then
        m = rng.randrange(n // 4, max(n // 4 + 1, 3 * n // 4))
        if lon_x is not None:
            p = drive_track(lat, lon_x, track, turn, speed, period, m + 1)[m]
            lon = wrap_position(lat, lon_x - ((p[1] - lon_x + 180.0) % 360.0 - 180.0))[1]
        elif abs(lat_x) == 90.0:
            # towards the pole and over it (the course of the model is a loxodrome: it ends in the pole)
            if math.cos(math.radians(track)) * lat_x < 0:
                track = (track + 180.0) % 360.0
            lat = math.copysign(90.0 - min(5.0, m * speed * period / 1000 * abs(math.cos(math.radians(track))) / 111194.9), lat_x)
        else:
            p = drive_track(lat_x, lon, track, turn, speed, period, m + 1)[m]
            lat = lat_x - (p[0] - lat_x)
    t = t0_of(rng)
    reps = []
    def clear_of_integers(x, k, towards_zero=False):
        """the nearest double whose exact scaled value is not within rounding distance of an integer (see `ambiguous`);
        coordinates move towards zero (they stay inside their range)"""
        for _ in range(50):
            if not ambiguous(x, k):
                break
            x += (-math.copysign(1.3, x) if towards_zero else 1.3) / (k * 7)
        return x
    for k, (plat, plon, ptrack) in enumerate(drive_track(lat, lon, track, turn, speed, period, n)):
        if noise:
            plat, plon, _ = wrap_position(max(-90.0, min(90.0, plat + rng.uniform(-noise, noise))),
                                          plon + rng.uniform(-noise, noise))
        rep = {"ts": t + k * period, "lat": clear_of_integers(plat, 10**7, True), "lon": clear_of_integers(plon, 10**7, True),
               "track": clear_of_integers(ptrack, 10), "speed": speed}
        if rng.random() < 0.5:
            rep["altHAE"] = 120.5
        if rng.random() < 0.03:
            del rep["lat"], rep["lon"]         # a report without a fix in the middle of the drive
        reps.append(rep)
    return {"kind": "cam", "t0": t, "station_type": rng.randrange(16), "role": rng.randrange(16), "mode": "drive",
            "period": period, "reports": reps, "vehicle": rand_vehicle(rng), "special": rng.randrange(len(SPECIALS)),
            "region": name}


def gen_overlap(rng):
    """overlapping events of ONE emergency-vehicle application: 2-5 triggers, each with its own position, altitude,
    altitude confidence and confidence ellipse, the next one arriving while the earlier ones are still repeated"""
    n = rng.randrange(2, 6)
    reps = []
    for _ in range(n):
        r = gen_report(rng, 0, keys=["altHAE"] + [k for k in ("speed", "track") if rng.random() < 0.5])
        if "lat" not in r:
            r["lat"], r["lon"] = 41.5, 2.25
        reps.append(r)
    seq_ts(rng, reps)
    interval = rng.choice([100, 250, 500, 1000])
    duration = interval * rng.choice([2, 3, 5]) + rng.choice([0, 0, 1, -1])
    gaps = [rng.choice([0, 1, interval // 2, interval, interval + 1, max(1, duration - 1), rng.randrange(1, duration)])
            for _ in range(n - 1)]
    nested = None
    if rng.random() < 0.7:
        nested = [[rng.choice(ALT_CONF), rng.choice([0, 1, 100, 4094, 4095]), rng.choice([0, 1, 50, 4094, 4095]),
                   rng.choice([0, 900, 3600, 3601])] for _ in range(n)]
    return {"kind": "denm", "t0": t0_of(rng), "station_type": rng.randrange(16), "request": "eva_overlap",
            "interval": interval, "duration": duration, "gaps": gaps, "nested": nested, "reports": reps}


def run_case(ctx, case, tag):
    if "gdt_reconstruct" in case:
        g = case["gdt_reconstruct"]
        # (position 2 of a batch goes through the VAM receiver)
        pairs = [(g["generated_utc_ms"], g["age_ms"])]
        if g.get("message") == "vam":
            pairs = pairs * 3
        check_gdt_reconstruct(ctx, pairs)
    else:
        check_cases(ctx, [case], tag)


def run(ctx):
    ctx.rule = ("one evaluation = one position report taken through a real pipeline (CAMTransmissionManagement with its timer, "
                "VAMTransmissionManagement with a real clustering manager, EmergencyVehicleApproachingService -> DEN service, "
                "collision-risk request) to the BTP request, decoded with the repository's coder, checked against the CDD "
                "oracle and compared field by field with the model; or one received CAM whose generation time is "
                "reconstructed. Reports: uniform over the property's ranges, values at and around every boundary of the data "
                "elements (half-unit offsets), every subset of the 7 optional keys, all station types / roles / clustering "
                "states, an out-of-range stream; drives (consecutive reports = neighbouring positions) laid over the whole "
                "coordinate range and across its seams (180 degree meridian, poles, equator, Greenwich). Non-trivial = a message was produced and decoded; distinct by "
                "(message kind, report, station configuration)")
    rng = ctx.rng
    quick = ctx.tier == "quick"
    for k in ctx.known:
        run_case(ctx, k["witness"], "known")
    for f in sorted(glob.glob(os.path.join(common.VERIF, "corpus", "C11", "*.json"))):
        run_case(ctx, json.load(open(f)), "corpus")
    # every subset of optional keys, through all three message kinds
    cases = []
    allsub = list(subsets(OPTIONAL))
    for rounds in range(1 if quick else 4):
        reps = seq_ts(rng, [gen_report(rng, 0, keys=s) for s in allsub])
        cases.append({"kind": "cam", "t0": t0_of(rng), "station_type": 5, "role": 0, "mode": "restart", "reports": reps})
        cases.append({"kind": "vam", "t0": t0_of(rng), "station_type": 1, "cluster": "standalone", "reports": reps})
        cases.append({"kind": "denm", "t0": t0_of(rng), "station_type": 10, "request": "eva", "reports": reps[::4]})
    check_cases(ctx, cases, "subsets")
    # all station types / roles
    cases = []
    for st in range(16):
        reps = seq_ts(rng, [gen_report(rng, 0) for _ in range(2 if quick else 6)])
        cases.append({"kind": "cam", "t0": t0_of(rng), "station_type": st, "role": (st * 7 + 3) % 16,
                      "mode": rng.choice(["run", "restart"]), "reports": reps, "vehicle": rand_vehicle(rng), "special": st})
        cases.append({"kind": "cam", "t0": t0_of(rng), "station_type": (st + 5) % 16, "role": st, "mode": "run", "reports": reps[:2],
                      "vehicle": rand_vehicle(rng), "special": st + 3})
        cases.append({"kind": "vam", "t0": t0_of(rng), "station_type": st, "cluster": "none", "reports": reps})
        cases.append({"kind": "denm", "t0": t0_of(rng), "station_type": st, "request": rng.choice(["eva", "crw"]), "reports": reps[:2]})
    check_cases(ctx, cases, "stations")
    # all clustering states
    cases = []
    for state in CLUSTER_STATES:
        for _ in range(1 if quick else 4):
            reps = seq_ts(rng, [gen_report(rng, 0) for _ in range(3 if quick else 8)])
            cases.append({"kind": "vam", "t0": t0_of(rng), "station_type": rng.choice([1, 2, 0]), "cluster": state, "reports": reps})
    # every VRU profile as the leader's own, every leave / break-up reason (audit round)
    for k in range(4 if quick else 12):
        reps = seq_ts(rng, [gen_report(rng, 0) for _ in range(2)])
        cases.append({"kind": "vam", "t0": t0_of(rng), "station_type": 1, "cluster": rng.choice(["leader", "leader_breakup"]),
                      "profile": k, "breakup_reason": rng.randrange(6), "reports": reps})
    for k in range(9):
        reps = seq_ts(rng, [gen_report(rng, 0) for _ in range(2)])
        cases.append({"kind": "vam", "t0": t0_of(rng), "station_type": 1, "cluster": "leave_notify", "profile": k,
                      "leave_reason": k, "reports": reps})
    for k in range(6):
        reps = seq_ts(rng, [gen_report(rng, 0) for _ in range(2)])
        cases.append({"kind": "vam", "t0": t0_of(rng), "station_type": 1, "cluster": "leader_breakup", "profile": k,
                      "breakup_reason": k, "reports": reps})
    check_cases(ctx, cases, "cluster")
    # random reports in range and the out-of-range stream
    n = 3000 if quick else 100000
    cases = []
    for i in range(n // 20):
        wide = i % 5 == 4
        reps = seq_ts(rng, [gen_report(rng, 0, wide=wide) for _ in range(20)])
        cases.append({"kind": "cam", "t0": t0_of(rng), "station_type": rng.randrange(16), "role": rng.randrange(16),
                      "mode": "run" if i % 2 else "restart", "reports": reps})
        cases.append({"kind": "vam", "t0": t0_of(rng), "station_type": rng.randrange(16), "cluster": rng.choice(["none", "standalone", "join_notify"]),
                      "reports": reps[:12]})
        cases.append({"kind": "denm", "t0": t0_of(rng), "station_type": rng.randrange(16), "request": "eva" if i % 2 else "crw",
                      "reports": reps[:6]})
    check_cases(ctx, cases, "rand")
    # drives: path history of the low-frequency container, static vehicle data, special-vehicle and extension containers
    # (seed C11-11) laid anywhere in the coordinate range and across its seams: every region of DRIVE_REGIONS in turn
    check_cases(ctx, [gen_drive(rng, quick, DRIVE_REGIONS[i % len(DRIVE_REGIONS)]) for i in range(16 if quick else 120)], "drive")
    # overlapping events of one emergency-vehicle application: every repetition against its own trigger
    check_cases(ctx, [gen_overlap(rng) for _ in range(25 if quick else 400)], "overlap")
    # generation time reconstruction
    pairs = []
    for _ in range(40 if quick else 400):
        T = t0_of(rng)
        if rng.random() < 0.5:
            T += 65536 - its_of_utc_ms(T) % 65536 - rng.choice([0, 1, 2, 500, 65535])    # generated just before a wrap
        for age in (0, 1, 999, 32768, 65535, rng.randrange(65536), rng.randrange(65536)):
            pairs.append((T, age))
        pairs.append((T, 65536 + rng.randrange(3000)))
    check_gdt_reconstruct(ctx, pairs)
    ctx.exhaustive = False


def replay(ctx, data):
    common.use_repo_sources()
    f = data.get("failure")
    if f is None:
        for b in data.get("broken", []):
            if b.get("kind") == "correspondence":
                f = b["first"]
    if f is None:
        print(json.dumps(data.get("broken"), default=str)[:2000])
        print("NOT REPRODUCED (the replay names a broken proof, not an input)")
        return 0
    ctx.model = common.Model(MODEL_NAME)
    ctx.known = []
    print(json.dumps({k: v for k, v in f.items() if k != "input"}, default=str)[:1500])
    inp = f["input"]
    run_case(ctx, inp["case"] if "case" in inp else inp, "replay")
    bad = ctx.failures or ctx.mismatches
    print("REPRODUCED" if bad else "NOT REPRODUCED")
    for r in (ctx.failures + ctx.mismatches)[:4]:
        print(json.dumps({k: v for k, v in r.items() if k != "input"}, default=str)[:1200])
    return 1 if bad else 0
