"""C13 - LDM queries return exactly the matching objects, identically on both back-ends."""
from __future__ import annotations

import fractions
import functools
import json
import math
import re

from . import common
from .ldm_common import (LdmUnderTest, T0_UTC_MS, its_ms, make_location, location_dict, cjson, canon, type_of_message)
from .stack import VCLOCK

PROP = "C13"
COQ_TARGETS = ["Properties/C13", "Extract/ExC13"]
MODEL_ML = "c13_model.ml"
MODEL_NAME = "c13"
TRUSTED_BASE = [
    "Coq 8.16.1 kernel (coqc); vm_compute only in the examples; no native_compute",
    "extraction (ExtrOcamlBasic only; Z/positive stay Coq datatypes) + ocaml/driver_body.ml + OCaml 4.13.1",
    "hand-written model coq/theories/Model/LdmFilter.v (JSON-like values, path lookup, comparison operators, and/or, "
    "stable ordering), tied to both database back-ends by differential execution (this harness)",
    "Python harness harness/c13.py, harness/ldm_common.py, harness/stack.py; tinydb's JSON storage in a directory under /tmp/ldm_*",
]
ASSUMPTIONS = [
    "the model is tied to IF.LDM.4 request_data_objects of Factory-built LDMs (Dictionary and TinyDB back-ends) by "
    "execution on the same stores and requests, not by proof",
    "reference values are scalars (int, str, bool, finite float); a float reference value enters the model as its exact "
    "rational value (float.as_integer_ratio()) plus the text Python's str() gives for it (the shortest-repr algorithm is "
    "not modelled; nan / inf are outside the domain); messages contain ints, strings, bools, dictionaries, lists and "
    "CHOICE pairs, no bytes and no floats",
    "ordering attributes are names whose values, where present, are all numbers or all strings (sorted() raises "
    "TypeError on mixed kinds and on dictionaries; outside the property's domain)",
    "a Filter with two statements and no logical operator is outside the domain (the back-ends read it as 'or' and 'and')",
    "TinyDB numbers containers from 1, the Dictionary from 0: histories address the k-th added object by the identifier "
    "each back-end returned",
]
EXPLANATION = ("theorems: a request returns exactly the stored objects whose type is selected and whose filter is true "
               "(a missing attribute or an incomparable value makes a comparison false), as a sorted, stable permutation "
               "of the matching objects; and/or and like characterised; correspondence: both back-ends against the model "
               "and against each other on seeded stores and requests")

OPS = ["==", "!=", ">", "<", ">=", "<=", "like", "notlike"]
MISSING = object()


# --------------------------------------------------------------------------------------------
# message dictionaries (shapes of the CAM / DENM / VAM dictionaries of the stack; no bytes)

def gen_cam(rng, sid):
    hf = {"heading": {"headingValue": rng.choice((0, 900, 1800, 3601)), "headingConfidence": rng.choice((1, 127))},
          "speed": {"speedValue": rng.choice((0, 100, 1389, 16383)), "speedConfidence": 127},
          "driveDirection": rng.choice(("forward", "backward", "unavailable")),
          "vehicleLength": {"vehicleLengthValue": rng.choice((42, 1023)), "vehicleLengthConfidenceIndication": "unavailable"},
          "vehicleWidth": rng.choice((18, 25, 62)),
          "curvatureCalculationMode": "unavailable"}
    params = {"basicContainer": {"stationType": rng.choice((0, 5, 6, 15)),
                                 "referencePosition": {"latitude": 413800000 + rng.randrange(-500, 500) * 1000,
                                                       "longitude": 21100000 + rng.randrange(-500, 500) * 1000,
                                                       "positionConfidenceEllipse": {"semiMajorAxisLength": 4095,
                                                                                     "semiMinorAxisLength": rng.choice((10, 4095)),
                                                                                     "semiMajorAxisOrientation": 3601},
                                                       "altitude": {"altitudeValue": rng.choice((0, 12000, 800001)),
                                                                    "altitudeConfidence": rng.choice(("unavailable", "alt-000-01"))}}},
              "highFrequencyContainer": ("basicVehicleContainerHighFrequency", hf)}
    if rng.random() < 0.5:
        params["lowFrequencyContainer"] = ("basicVehicleContainerLowFrequency",
                                           {"vehicleRole": rng.choice(("default", "emergency", "publicTransport")),
                                            "pathHistory": [{"pathPosition": {"deltaLatitude": rng.randrange(-100, 100), "deltaLongitude": 5},
                                                             "pathDeltaTime": rng.randrange(1, 100)} for _ in range(rng.randrange(0, 3))]})
    if rng.random() < 0.25:
        params["specialVehicleContainer"] = rng.choice((("emergencyContainer", {"lightBarSirenInUse": [1, 0]}),
                                                        ("publicTransportContainer", {"embarkationStatus": rng.random() < 0.5})))
    return {"header": {"protocolVersion": 2, "messageId": 2, "stationId": sid},
            "cam": {"generationDeltaTime": rng.choice((0, 1, 1000, 65535, sid % 65536)), "camParameters": params}}


def gen_denm(rng, sid):
    mgmt = {"actionId": {"originatingStationId": sid, "sequenceNumber": rng.randrange(0, 4)},
            "detectionTime": 600000000000 + rng.randrange(0, 5) * 1000,
            "referenceTime": 600000000000 + rng.randrange(0, 5) * 1000,
            "eventPosition": {"latitude": 413800000 + rng.randrange(-5, 5) * 100000, "longitude": 21100000,
                              "positionConfidenceEllipse": {"semiMajorConfidence": 4095, "semiMinorConfidence": 4095,
                                                            "semiMajorOrientation": 3601},
                              "altitude": {"altitudeValue": 800001, "altitudeConfidence": "unavailable"}},
            "relevanceDistance": rng.choice(("lessThan50m", "lessThan100m", "lessThan1000m")),
            "relevanceTrafficDirection": "allTrafficDirections",
            "validityDuration": rng.choice((0, 30, 600, 86400)),
            "stationType": rng.choice((0, 5, 15))}
    if rng.random() < 0.3:
        mgmt["termination"] = rng.choice(("isCancellation", "isNegation"))
    denm = {"management": mgmt}
    if rng.random() < 0.6:
        denm["situation"] = {"informationQuality": rng.randrange(0, 8),
                             "eventType": {"ccAndScc": rng.choice((("accident2", 1), ("roadworks3", 4), ("hazardousLocation-SurfaceCondition9", 0)))}}
        if rng.random() < 0.3:
            denm["situation"]["linkedCause"] = {"ccAndScc": ("trafficCondition1", 2)}
    if rng.random() < 0.4:
        denm["location"] = {"eventSpeed": {"speedValue": rng.choice((0, 500, 16383)), "speedConfidence": 127},
                            "traces": [[{"pathPosition": {"deltaLatitude": 1, "deltaLongitude": 2}}]],
                            "roadType": rng.choice(("urban-NoStructuralSeparationToOppositeLanes", "nonUrban-WithStructuralSeparationToOppositeLanes"))}
    if rng.random() < 0.3:
        denm["alacarte"] = {"lanePosition": rng.randrange(-1, 4), "externalTemperature": rng.randrange(-10, 40),
                            "stationaryVehicle": {"stationarySince": "lessThan1Minute", "numberOfOccupants": rng.randrange(0, 5)}}
    return {"header": {"protocolVersion": 2, "messageId": 1, "stationId": sid}, "denm": denm}


def gen_vam(rng, sid):
    params = {"basicContainer": {"stationType": rng.choice((1, 2, 15)),
                                 "referencePosition": {"latitude": 413800000 + rng.randrange(-500, 500) * 1000,
                                                       "longitude": 21100000 + rng.randrange(-500, 500) * 1000,
                                                       "positionConfidenceEllipse": {"semiMajorAxisLength": 4095, "semiMinorAxisLength": 4095,
                                                                                     "semiMajorAxisOrientation": 3601},
                                                       "altitude": {"altitudeValue": 800001, "altitudeConfidence": "unavailable"}}},
              "vruHighFrequencyContainer": {"heading": {"value": rng.choice((0, 900, 3601)), "confidence": 127},
                                            "speed": {"speedValue": rng.choice((0, 100, 16383)), "speedConfidence": 127},
                                            "longitudinalAcceleration": {"longitudinalAccelerationValue": rng.choice((-160, 0, 161)),
                                                                         "longitudinalAccelerationConfidence": 102}}}
    if rng.random() < 0.5:
        params["vruLowFrequencyContainer"] = {"profileAndSubprofile": rng.choice((("pedestrian", "ordinary-pedestrian"), ("bicyclistAndLightVruVehicle", "bicyclist"))),
                                              "sizeClass": rng.choice(("low", "medium", "high")),
                                              "exteriorLights": {"vehicular": [0, 1], "vruSpecific": [1]}}
    if rng.random() < 0.3:
        params["vruClusterInformationContainer"] = {"vruClusterInformation": {"clusterId": rng.randrange(0, 5),
                                                                              "clusterBoundingBoxShape": ("circular", {"radius": rng.randrange(1, 20)}),
                                                                              "clusterCardinalitySize": rng.randrange(2, 9)}}
    if rng.random() < 0.2:
        params["vruMotionPredictionContainer"] = {"safeDistance": [{"subjectStation": sid + 1, "safeDistanceIndicator": rng.random() < 0.5}]}
    return {"header": {"protocolVersion": 3, "messageId": 16, "stationId": sid},
            "vam": {"generationDeltaTime": rng.choice((0, 1, 1000, sid % 65536)), "vamParameters": params}}


def gen_other(rng, sid):
    typ = rng.choice((3, 14, 21))
    from .ldm_common import type_names
    return {"header": {"protocolVersion": 2, "messageId": typ, "stationId": sid},
            type_names()[typ]: {"generationDeltaTime": sid % 65536, "payload": {"value": rng.randrange(0, 10), "label": rng.choice(("a", "ab", "b"))}}}


def gen_kinds(rng, sid, typ=None):
    """audit round: a message of any of the 21 types (or an untyped one) whose attributes hold the value kinds the
    CAM / DENM / VAM shapes above never hold - null, the empty string, booleans and negative numbers at dictionary
    level, empty lists and dictionaries - and whose header may come after the body"""
    from .ldm_common import type_names
    if typ is None:
        typ = rng.choice(tuple(range(0, 22)))
    name = type_names().get(typ, "unknownMessage")
    body = {"generationDeltaTime": rng.choice((0, sid % 65536)),
            "note": rng.choice((None, None, "", "", "abc", "b", "None", "1", "x10", "1.0", "True", "False0", "-1.5")),
            "flag": rng.choice((True, False, False, None, 0, 1)),
            "delta": rng.choice((-5, -1, 0, 0, 3)),
            "items": rng.choice(([], [], [1, 2], ["a", ""], [None], [0])),
            "box": rng.choice(({}, {}, {"inner": rng.choice((0, "", None, -2))})),
            "payload": {"value": rng.randrange(-2, 3), "label": rng.choice(("", "a", "ab"))}}
    for k in rng.sample(sorted(body), rng.randrange(0, 3)):
        del body[k]
    header = {"protocolVersion": 2, "messageId": typ, "stationId": sid}
    if rng.random() < 0.3:
        return {name: body, "header": header}
    return {"header": header, name: body}


MSG_GENS = {2: gen_cam, 1: gen_denm, 16: gen_vam}


def gen_message(rng, typ, sid):
    if typ == "kinds":
        return gen_kinds(rng, sid)
    if isinstance(typ, tuple):           # ("kinds", type id): an update that keeps the type of the stored message
        return gen_kinds(rng, sid, typ[1])
    return MSG_GENS.get(typ, gen_other)(rng, sid)


# --------------------------------------------------------------------------------------------
# history on both back-ends, expected store

CFG = {"lat": 0, "lon": 0, "alt": 0, "rd": 4}          # objects are stored far away from the LDM's own position


SHAPES = ({}, {}, {}, {"rect": [20, 30, 900]}, {"ell": [7, 5, {"direction": 7200}]}, {"circle": False, "rect": [5, 5, {"direction": 0}]},
          {"circle": False})


def gen_history(rng, n_add, style="plain"):
    """adds by registered providers, some updates (same type) and deletes; everything far from the LDM position.
    style "plain": valid for a long time, so that maintenance (C12) does not interfere.
    style "audit": also messages of every type with null / empty / boolean / negative values and the header last,
    locations with rectangle / ellipse / no circle, short validity periods with clock advances and explicit maintenance
    (objects lapse and are collected on both back-ends), updates and deletes of identifiers that were never handed out"""
    audit = style == "audit"
    hist = []
    live = []
    sid = 1000
    for k in range(n_add):
        typ = rng.choice((2, 2, 2, 1, 1, 16, 16, 0x3))
        if audit and rng.random() < 0.45:
            typ = "kinds"
        sid += rng.choice((1, 1, 2, 7))
        msg = gen_message(rng, typ, sid if rng.random() < 0.9 else 1001)
        hist.append({"op": "add", "k": k, "aid": rng.choice((1, 2, 16)), "dts": rng.choice((0, -1, -500, 250)),
                     "lat": 413800000 + rng.randrange(-3, 3) * 100000, "lon": 21100000 + rng.randrange(-3, 3) * 100000,
                     "alt": rng.choice((0, 1000, 12000)),
                     "extra": {"smc": rng.choice((0, 7)), "smo": rng.choice((0, 900)), "smic": rng.choice((1, 9)), "ac": rng.choice((0, 3)),
                               "radius": rng.choice((0, 100)), "rd": rng.randrange(8), "td": rng.randrange(4)},
                     "val": rng.choice((600, 1000, 100000)), "msg": msg})
        if audit:
            hist[-1]["extra"].update(rng.choice(SHAPES))
            if rng.random() < 0.35:
                hist[-1]["val"] = rng.choice((0, 1, 2, 3, 5))
        live.append(k)
        x = rng.random()
        if x < 0.12 and live:
            t = rng.choice(live)
            old = next(h for h in hist if h["op"] == "add" and h["k"] == t)
            cur_typ = type_of_message(old["msg"])
            sid += 1
            new_typ = cur_typ if rng.random() < 0.8 else 1
            if audit and (cur_typ not in MSG_GENS or rng.random() < 0.3):
                new_typ = ("kinds", new_typ)
            hist.append({"op": "update", "k": t, "aid": 2, "msg": gen_message(rng, new_typ, sid)})
        elif x < 0.22 and live:
            t = rng.choice(live)
            live.remove(t)
            hist.append({"op": "delete", "k": t, "aid": 2})
        elif x < 0.3:
            hist.append({"op": "advance", "ms": rng.choice((1, 400, 1000, 2500))})
        elif audit and x < 0.42:
            hist.append({"op": "advance", "ms": rng.choice((999, 1000, 1001, 2000, 3000, 6000, 601000))})
        elif audit and x < 0.5:
            hist.append({"op": "maintain"})
        elif audit and x < 0.54:
            sid += 1
            hist.append({"op": rng.choice(("update", "delete")), "k": 900 + k, "aid": 2, "msg": gen_message(rng, 2, sid)})
    return hist


class HistoryRunner:
    """a Factory-built LDM with one back-end on which a history is executed piece by piece (audit round: requests
    are also made between the operations of a history, not only after the last one)"""

    def __init__(self, backend, t0):
        from flexstack.facilities.local_dynamic_map.ldm_classes import (
            RegisterDataProviderReq, RegisterDataConsumerReq, TimeValidity, GeometricArea, AccessPermission)
        self.lut = LdmUnderTest(CFG, backend, t0)
        for aid in (1, 2, 16):
            self.lut.if3.register_data_provider(RegisterDataProviderReq(aid, (AccessPermission(aid),), TimeValidity(0)))
        self.lut.if4.register_data_consumer(RegisterDataConsumerReq(2, (AccessPermission.CAM,), GeometricArea(None, None, None)))
        self.ids = {}
        self.resp = []

    def run(self, hist):
        from flexstack.facilities.local_dynamic_map.ldm_classes import (
            AddDataProviderReq, UpdateDataProviderReq, DeleteDataProviderReq, TimestampIts, TimeValidity)
        lut, ids, resp = self.lut, self.ids, self.resp
        for h in hist:
            try:
                if h["op"] == "add":
                    r = lut.if3.add_provider_data(AddDataProviderReq(h["aid"], TimestampIts(its_ms(VCLOCK.ms) + h["dts"]),
                                                                     make_location(h["lat"], h["lon"], h["alt"], h["extra"]),
                                                                     _copy(h["msg"]), TimeValidity(h["val"])))
                    ids[h["k"]] = r.data_object_id
                    resp.append("added" if r.data_object_id is not None and r.data_object_id >= 0 else "refused")
                elif h["op"] == "update":
                    r = lut.if3.update_provider_data(UpdateDataProviderReq(h["aid"], ids.get(h["k"], -1), TimestampIts(its_ms(VCLOCK.ms)),
                                                                           make_location(0, 0, 0, dict(smc=0, smo=0, smic=0, ac=0, radius=0, rd=0, td=0)),
                                                                           _copy(h["msg"]), TimeValidity(0)))
                    resp.append(int(r.result))
                elif h["op"] == "delete":
                    r = lut.if3.delete_provider_data(DeleteDataProviderReq(h["aid"], ids.get(h["k"], -1), TimestampIts(its_ms(VCLOCK.ms))))
                    resp.append(int(r.result))
                elif h["op"] == "advance":
                    VCLOCK.advance(h["ms"])
                    resp.append(None)
                elif h["op"] == "maintain":
                    lut.ldm.ldm_maintenance.collect_trash()
                    resp.append(None)
            except Exception as e:
                resp.append("EXC " + type(e).__name__)
        return self


def run_history(backend, hist, t0):
    """returns (LdmUnderTest, responses, ids of the k-th add)"""
    r = HistoryRunner(backend, t0).run(hist)
    return r.lut, r.resp, r.ids


def _copy(x):
    """deep copy that keeps tuples (the Dictionary back-end stores the very object it is given)"""
    if isinstance(x, dict):
        return {k: _copy(v) for k, v in x.items()}
    if isinstance(x, tuple):
        return tuple(_copy(v) for v in x)
    if isinstance(x, list):
        return [_copy(v) for v in x]
    return x


def expected_store(hist, t0):
    """the containers the history leaves behind, in insertion order - from the interface description: an update
    replaces the message of a stored object when the new message has the same (known) type; an object whose validity
    has lapsed (timestamp + validity before the current second) is gone once maintenance has run - explicitly, or inside
    an addition when at least one second has passed since the LDM was created / since the last such run"""
    now = its_ms(t0)
    last_gc = now
    store = {}

    def collect():
        trunc = now // 1000 * 1000
        for k in [k for k, r in store.items() if r["timeValidity"] * 1000 + r["timestamp"] < trunc]:
            del store[k]
    for h in hist:
        if h["op"] == "add":
            store[h["k"]] = {"application_id": h["aid"], "timestamp": now + h["dts"],
                             "location": location_dict(h["lat"], h["lon"], h["alt"], h["extra"]),
                             "dataObject": h["msg"], "timeValidity": h["val"]}
            if now - last_gc >= 1000:
                collect()
                last_gc = now
        elif h["op"] == "update":
            if h["k"] in store and type_of_message(store[h["k"]]["dataObject"]) == type_of_message(h["msg"]) != 0:
                store[h["k"]] = dict(store[h["k"]], dataObject=h["msg"])
        elif h["op"] == "delete":
            store.pop(h["k"], None)
        elif h["op"] == "advance":
            now += h["ms"]
        elif h["op"] == "maintain":
            collect()
    return list(store.values())


# --------------------------------------------------------------------------------------------
# specification of a request, written from the property text (independent of the model)

def spec_attr(msg, path):
    v = msg
    for k in path.split("."):
        if isinstance(v, dict) and k in v:
            v = v[k]
        else:
            return MISSING
    return v


def _num(x):
    return isinstance(x, (int, bool))


def _refnum(x):
    """a reference value that is a number: int, bool or (finite) float - compared by exact value"""
    return isinstance(x, (int, bool)) or (isinstance(x, float) and math.isfinite(x))


def spec_compare(v, op, ref):
    """is `v op ref` true? comparisons between values that cannot be compared are not true.
    Numbers (a bool is a number; a float reference value stands for its exact value) compare by value, strings by code
    points; `like` on a string looks for the text of the reference value - str(1) = "1", str(True) = "True",
    str(1.0) = "1.0" - so the answer depends on the type of the reference value there, and nowhere else"""
    if _refnum(ref) and not isinstance(ref, (int, bool)):
        if op in ("==", "!=", ">", "<", ">=", "<="):
            if not _num(v):
                return op == "!="
            a, b = fractions.Fraction(int(v)), fractions.Fraction(ref)
            return {"==": a == b, "!=": a != b, ">": a > b, "<": a < b, ">=": a >= b, "<=": a <= b}[op]
        if isinstance(v, str):
            found = str(ref) in v
        elif isinstance(v, (list, tuple)):
            found = any(spec_compare(e, "==", ref) for e in v)
        else:
            found = False
        return found if op == "like" else not found
    if op in ("==", "!="):
        if _num(v) and _num(ref):
            eq = int(v) == int(ref)
        elif isinstance(v, str) and isinstance(ref, str):
            eq = v == ref
        else:
            eq = False
        return eq if op == "==" else not eq
    if op in (">", "<", ">=", "<="):
        if _num(v) and _num(ref):
            a, b = int(v), int(ref)
        elif isinstance(v, str) and isinstance(ref, str):
            a, b = [ord(c) for c in v], [ord(c) for c in ref]
        else:
            return False
        return {">": a > b, "<": a < b, ">=": a >= b, "<=": a <= b}[op]
    if isinstance(v, str):
        found = str(ref) in v
    elif isinstance(v, (list, tuple)):
        found = any(spec_compare(e, "==", ref) for e in v)
    else:
        found = False
    return found if op == "like" else not found


def spec_stmt(rec, st):
    v = spec_attr(rec["dataObject"], st["path"])
    return False if v is MISSING else spec_compare(v, st["op"], st["ref"])


def spec_filter(rec, flt):
    if flt is None:
        return True
    a = spec_stmt(rec, flt["s1"])
    if flt.get("s2") is None:
        return a
    b = spec_stmt(rec, flt["s2"])
    return (a and b) if flt["lop"] == "and" else (a or b)


def spec_find(name, d):
    """value of the first key called `name` met in a walk over nested dictionaries"""
    for k, v in d.items():
        if k == name:
            return v
        if isinstance(v, dict):
            r = spec_find(name, v)
            if r is not MISSING:
                return r
    return MISSING


def spec_key(rec, name):
    v = spec_find(name, rec)
    return None if v is MISSING or v is None else v


def spec_query(store, q):
    """indices of the expected result in the expected order"""
    idx = [i for i, rec in enumerate(store)
           if type_of_message(rec["dataObject"]) in q["types"] and spec_filter(rec, q["filter"])]

    def cmp(i, j):
        for o in q["orders"] or []:
            a, b = spec_key(store[i], o["name"]), spec_key(store[j], o["name"])
            if a is None and b is None:
                continue
            if a is None:
                return 1
            if b is None:
                return -1
            a, b = (int(a) if _num(a) else a), (int(b) if _num(b) else b)
            if a == b:
                continue
            lt = a < b
            if o["desc"]:
                lt = not lt
            return -1 if lt else 1
        return 0
    return sorted(idx, key=functools.cmp_to_key(cmp))      # sorted() is stable


def order_kinds_ok(store, q):
    """all present values of every ordering attribute are numbers, or all strings"""
    for o in q["orders"] or []:
        kinds = set()
        for rec in store:
            v = spec_key(rec, o["name"])
            if v is not None:
                kinds.add("n" if _num(v) else "s" if isinstance(v, str) else "x")
        if "x" in kinds or len(kinds) > 1:
            return False
    return True


# --------------------------------------------------------------------------------------------
# request generation

def all_paths(msg, prefix=""):
    out = []
    if isinstance(msg, dict):
        for k, v in msg.items():
            p = prefix + k
            out.append((p, v))
            out += all_paths(v, p + ".")
    return out


ORDER_NAMES = ["stationId", "generationDeltaTime", "stationType", "latitude", "timestamp", "timeValidity", "speedValue",
               "informationQuality", "sequenceNumber", "detectionTime", "application_id", "messageId", "protocolVersion",
               "termination", "sizeClass", "roadType", "lanePosition", "clusterId", "value", "relevanceDistance",
               "altitudeValue", "vehicleRole", "noSuchAttribute", "validityDuration", "embarkationStatus", "radius",
               "cam.generationDeltaTime", "safeDistanceIndicator",
               "note", "flag", "delta", "label", "inner", "rectangle", "aSemiAxis", "azimuthAngle", "circle"]
BAD_PATHS = ["", "cam", "cam.", ".cam", "cam..generationDeltaTime", "header.stationId.x", "header.nosuch", "nosuch.path",
             "cam.camParameters.highFrequencyContainer.speed.speedValue", "dataObject.header.stationId", "timeValidity",
             "cam.camParameters.lowFrequencyContainer.vehicleRole", "denm.situation.eventType.ccAndScc.accident2",
             "vam.vamParameters.vruLowFrequencyContainer.profileAndSubprofile.pedestrian", "Header.stationId"]


FLOAT_REFS = (0.0, 1.0, -1.0, 2.0, 0.5, 2.5, -0.5, 100.0, 1000.5, 1e16, 9007199254740993.0, -0.0, 0.1, 1e-3)


def retype(rng, ref):
    """a reference value of another type that Python's == and hash() do not tell from `ref` (1, True and 1.0; 0, False
    and 0.0; n and float(n)) or whose text is the same ("1" and 1); ref itself when there is none"""
    if isinstance(ref, bool):
        return rng.choice((int(ref), float(ref), str(ref)))
    if isinstance(ref, int):
        alt = [str(ref)]
        if float(ref) == ref:
            alt += [float(ref)] * 2
        if ref in (0, 1):
            alt += [bool(ref)] * 2
        return rng.choice(alt)
    if isinstance(ref, float):
        alt = [str(ref)]
        if ref.is_integer():
            alt += [int(ref)] * 2
            if ref in (0.0, 1.0):
                alt += [bool(ref)] * 2
        return rng.choice(alt)
    for conv in (int, float):
        try:
            v = conv(ref)
            if _refnum(v) and str(v) == ref:
                return v
        except ValueError:
            pass
    return {"True": True, "False": False}.get(ref, ref)


def gen_ref(rng, pool_values, v_example):
    """reference value of matching or non-matching type (a float is a non-matching type for every attribute of the
    messages; it compares by value with the integers)"""
    numbered = [v for v in pool_values if isinstance(v, str) and any(c in "0123456789" for c in v)]
    if numbered and rng.random() < 0.2:
        # a number whose text occurs in a stored string (like 100 matches "lessThan100m"): a reference value of non-matching
        # type that matches nevertheless - as an int, or retyped (1 / True / 1.0 / "1")
        runs = re.findall(r"[0-9]+", rng.choice(numbered))
        run = rng.choice(runs)
        ref = int(rng.choice((run, run, run[0], run[-1])))
        return retype(rng, ref) if rng.random() < 0.4 else ref
    ref = _gen_ref(rng, pool_values)
    if rng.random() < 0.1:
        if isinstance(ref, (int, bool)) and rng.random() < 0.75:
            return float(ref) + rng.choice((0.0, 0.0, 0.0, 0.5, -0.5))
        return rng.choice(FLOAT_REFS)
    return ref


def _gen_ref(rng, pool_values):
    x = rng.random()
    scal = [v for v in pool_values if isinstance(v, (int, str, bool))]
    if scal and x < 0.55:
        return rng.choice(scal)
    if scal and x < 0.7:
        v = rng.choice(scal)
        if isinstance(v, bool):
            return not v
        if isinstance(v, int):
            return v + rng.choice((-1, 1, 10))
        return rng.choice((v[:-1], v + "x", v[1:], v[:3], v.upper(), ""))
    if x < 0.8:
        return rng.choice((0, 1, 2, 5, 15, -1, 3601, 16383, 1001, 600000000000))
    if x < 0.92:
        return rng.choice(("unavailable", "a", "", "forward", "lessThan50m", "basicVehicleContainerLowFrequency", "accident2", "pedestrian",
                           "1", "0", "True", "medium", "isCancellation", "1.0", "0.0", "False", "-1"))
    return rng.choice((True, False))


def gen_stmt(rng, paths):
    if paths and rng.random() < 0.88:
        p = rng.choice(sorted(paths))
        vals = paths[p]
        if rng.random() < 0.25:      # a value sitting inside a list / CHOICE at that path (for like)
            inner = [e for v in vals if isinstance(v, (list, tuple)) for e in v if isinstance(e, (int, str, bool))]
            vals = inner or vals
        ref = gen_ref(rng, vals, None)
    else:
        p = rng.choice(BAD_PATHS)
        ref = gen_ref(rng, [], None)
    return {"path": p, "op": rng.choice(OPS), "ref": ref}


def gen_request(rng, store):
    paths = {}
    for rec in store:
        for p, v in all_paths(rec["dataObject"]):
            paths.setdefault(p, []).append(v)
    x = rng.random()
    if x < 0.15:
        flt = None
    elif x < 0.6:
        flt = {"s1": gen_stmt(rng, paths), "lop": None, "s2": None}
    else:
        flt = {"s1": gen_stmt(rng, paths), "lop": rng.choice(("and", "or")), "s2": gen_stmt(rng, paths)}
    all_types = ([2], [1], [16], [1, 2, 16], [1, 2, 16], [2, 16], [1, 16], list(range(1, 22)), [3, 14, 21], [])
    types = rng.choice(all_types)
    if flt is not None and rng.random() < 0.7:
        root = {"cam": 2, "denm": 1, "vam": 16}.get(flt["s1"]["path"].split(".")[0])
        fitting = [t for t in all_types if root is None and len(t) > 1 or root in t]
        if fitting:
            types = rng.choice(fitting)
    y = rng.random()
    n = 0 if y < 0.45 else 1 if y < 0.75 else 2 if y < 0.93 else 3
    orders = None if (n == 0 and rng.random() < 0.7) else \
        [{"name": rng.choice(ORDER_NAMES), "desc": rng.random() < 0.5} for _ in range(n)]
    return {"types": types, "filter": flt, "orders": orders}


def gen_twin(rng, q, others):
    """a request that differs from q in ONE respect only, most often the type of a reference value (same value: 1 / True /
    1.0 / "1"), else the attribute path, the operator, the type selection or the ordering: an answer depends on the whole
    request, whichever requests were answered before"""
    t = json.loads(json.dumps(q))
    stmts = [t["filter"][k] for k in ("s1", "s2") if t["filter"].get(k)]
    st = rng.choice(stmts)
    x = rng.random()
    if x < 0.6:
        st["ref"] = retype(rng, st["ref"])
        if rng.random() < 0.5:
            st["op"] = rng.choice(("like", "notlike", st["op"]))
            for o in stmts:
                if o is not st and rng.random() < 0.5:
                    o["ref"] = retype(rng, o["ref"])
    elif x < 0.75:
        donors = [r["filter"]["s1"]["path"] for r in others if r["filter"] is not None]
        st["path"] = rng.choice(donors)
    elif x < 0.85:
        st["op"] = rng.choice(OPS)
    elif x < 0.93:
        t["types"] = rng.choice(([2], [1], [16], [1, 2, 16], list(range(1, 22))))
    else:
        t["orders"] = rng.choice((None, [{"name": "stationId", "desc": rng.random() < 0.5}]))
    return t


def with_twins(rng, reqs, n):
    """reqs plus n near-twins of some of its filtered requests, each somewhere after its original"""
    out = list(reqs)
    for _ in range(n):
        cand = [i for i, r in enumerate(out) if r["filter"] is not None]
        if not cand:
            break
        i = rng.choice(cand)
        out.insert(rng.choice((i + 1, i + 1, rng.randrange(i + 1, len(out) + 1))), gen_twin(rng, out[i], out))
    return out


# --------------------------------------------------------------------------------------------
# implementation and model

def impl_request(lut, q):
    from flexstack.facilities.local_dynamic_map.ldm_classes import (RequestDataObjectsReq, Filter, FilterStatement,
                                                                    ComparisonOperators, LogicalOperators, OrderTupleValue,
                                                                    OrderingDirection)

    def st(s):
        return FilterStatement(s["path"], ComparisonOperators(OPS.index(s["op"])), s["ref"])
    flt = None
    if q["filter"] is not None:
        f = q["filter"]
        if f["s2"] is None:
            flt = Filter(st(f["s1"]))
        else:
            flt = Filter(st(f["s1"]), LogicalOperators.AND if f["lop"] == "and" else LogicalOperators.OR, st(f["s2"]))
    orders = None if q["orders"] is None else [OrderTupleValue(o["name"], OrderingDirection(1 if o["desc"] else 0)) for o in q["orders"]]
    try:
        r = lut.if4.request_data_objects(RequestDataObjectsReq(2, tuple(q["types"]), None, orders, flt))
    except Exception as e:
        return ("EXC", type(e).__name__ + ": " + str(e)[:120])
    return (int(r.result), [cjson(d) for d in r.data_objects])


def to_indices(store_json, result_json):
    """positions of the returned containers in the expected store (multiset matching, in order); -1 = unknown"""
    used = set()
    out = []
    for rj in result_json:
        for i, sj in enumerate(store_json):
            if i not in used and sj == rj:
                used.add(i)
                out.append(i)
                break
        else:
            out.append(-1)
    return out


def enc_str(s):
    return [len(s)] + [ord(c) for c in s]


def enc_jv(x):
    if isinstance(x, bool):
        return [2, 1 if x else 0]
    if isinstance(x, int):
        return [0, x]
    if isinstance(x, str):
        return [1] + enc_str(x)
    if x is None:
        return [3]
    if isinstance(x, dict):
        out = [4, len(x)]
        for k, v in x.items():
            out += enc_str(str(k)) + enc_jv(v)
        return out
    if isinstance(x, (list, tuple)):
        out = [5, len(x)]
        for v in x:
            out += enc_jv(v)
        return out
    raise TypeError(type(x))


def enc_ref(r):
    if isinstance(r, bool):
        return [2, 1 if r else 0]
    if isinstance(r, int):
        return [0, r]
    if isinstance(r, float):
        num, den = r.as_integer_ratio()          # exact; raises for nan / inf (outside the domain)
        return [3, num, den] + enc_str(str(r))
    return [1] + enc_str(r)


def enc_stmt(s):
    comps = s["path"].split(".")
    out = [len(comps)]
    for c in comps:
        out += enc_str(c)
    return out + [OPS.index(s["op"])] + enc_ref(s["ref"])


def enc_request(q):
    out = [len(q["types"])] + list(q["types"])
    f = q["filter"]
    if f is None:
        out += [0]
    elif f["s2"] is None:
        out += [1] + enc_stmt(f["s1"])
    else:
        out += [2] + enc_stmt(f["s1"]) + [0 if f["lop"] == "and" else 1] + enc_stmt(f["s2"])
    orders = q["orders"] or []
    out += [len(orders)]
    for o in orders:
        out += enc_str(o["name"]) + [1 if o["desc"] else 0]
    return out


def enc_batch(store, reqs):
    out = [len(store)]
    for rec in store:
        out += [type_of_message(rec["dataObject"])] + enc_jv(rec)
    out += [len(reqs)]
    for q in reqs:
        out += enc_request(q)
    return out


def dec_answers(flat, n):
    out = []
    i = 0
    for _ in range(n):
        if i >= len(flat) or flat[i] < 0:
            raise ValueError("model could not decode the request batch")
        k = flat[i]
        out.append(flat[i + 1:i + 1 + k])
        i += 1 + k
    if i != len(flat):
        raise ValueError("model output has trailing data")
    return out


# --------------------------------------------------------------------------------------------
# one scenario: a history on both back-ends and a batch of requests

def check_scenario(ctx, scen, label):
    """scen: history, t0_utc_ms, requests (made after the whole history) and, optionally, mid = [{"at": n, "requests": [...]}]:
    requests made after the first n operations of the history (audit round)"""
    hist, reqs, t0 = scen["history"], scen["requests"], scen["t0_utc_ms"]
    stages = sorted(scen.get("mid") or [], key=lambda m: m["at"]) + [{"at": len(hist), "requests": reqs, "final": True}]
    runners = {}
    log_mark = len(REQUEST_LOG)
    try:
        for be in ("Dictionary", "TinyDB"):
            runners[be] = HistoryRunner(be, t0)
        luts = {be: r.lut for be, r in runners.items()}
        done = 0
        # the model's answers for every stage, from one driver process
        answers = [None] * len(stages)
        if ctx.model.available:
            todo = [(si, expected_store(hist[:min(st["at"], len(hist))], t0), st["requests"]) for si, st in enumerate(stages) if st["requests"]]
            try:
                for (si, _, rq), flat in zip(todo, ctx.model.batch((1, enc_batch(st_, rq)) for _, st_, rq in todo)):
                    try:
                        answers[si] = dec_answers(flat, len(rq))
                    except Exception as e:
                        ctx.mismatch("model decodes the request batch", {"history": hist[:stages[si]["at"]], "t0_utc_ms": t0}, str(e), None)
            except Exception as e:
                ctx.mismatch("model decodes the request batch", {"history": hist, "t0_utc_ms": t0}, str(e), None)
        for si, stage in enumerate(stages):
            at = max(done, min(stage["at"], len(hist)))
            for be in ("Dictionary", "TinyDB"):
                VCLOCK.set_ms(t0 + sum(h["ms"] for h in hist[:done] if h["op"] == "advance"))
                runners[be].run(hist[done:at])
            done = at
            prefix = hist[:at]
            store = expected_store(prefix, t0)
            store_json = [cjson(r) for r in store]
            info = {"history": prefix, "t0_utc_ms": t0}
            if si:          # a replay makes the requests of the earlier stages again (what they left behind may matter)
                info["mid"] = [{"at": st_["at"], "requests": st_["requests"]} for st_ in stages[:si] if st_["requests"]]
            resp = {be: r.resp for be, r in runners.items()}
            # ---- same history, same store on both back-ends --------------------------------
            if resp["Dictionary"] != resp["TinyDB"]:
                i = next(i for i, (a, b) in enumerate(zip(resp["Dictionary"], resp["TinyDB"])) if a != b)
                ctx.property_failure("backends_differ_history", dict(info, requests=[], op_index=i),
                                     f"the two back-ends answer operation {i} ({hist[i]['op']}) of the same history differently",
                                     resp["Dictionary"][i], resp["TinyDB"][i])
            for be in ("Dictionary", "TinyDB"):
                got = [cjson(d) for _, d in luts[be].items()]
                if got != store_json:
                    ctx.property_failure("store_differs_" + be, dict(info, requests=[]),
                                         f"the {be} back-end does not hold the containers the history leaves behind",
                                         len(store_json), len(got))
            if stage.get("final"):
                ctx.count(len(hist), label + "_history_ops")
                ctx.dist["history_expired"] = ctx.dist.get("history_expired", 0) + _n_expired(hist, t0)
            else:
                ctx.dist["mid_history_stages"] = ctx.dist.get("mid_history_stages", 0) + 1
            check_requests(ctx, luts, store, store_json, stage["requests"], info, label, answers[si], log_mark)
    finally:
        for r in runners.values():
            r.lut.close()


def _n_expired(hist, t0):
    """number of objects of a history that lapse and are collected (for the input distribution)"""
    alive = {h["k"] for h in hist if h["op"] == "add"}
    for h in hist:
        if h["op"] == "delete":
            alive.discard(h["k"])
    return max(0, len(alive) - len(expected_store(hist, t0)))


REQUEST_LOG = []        # every request made in this process, in order (what an earlier request leaves behind may matter)


def _stmts(q):
    f = q.get("filter")
    return [f[k] for k in ("s1", "s2") if f.get(k)] if f else []


def related(r, q):
    """r and q share a statement up to what Python's == (and hence a dictionary or memo key) cannot tell apart -
    operator and reference value equal, 1 == True == 1.0 - or up to the text of the reference value, or r == q"""
    if r == q:
        return True
    for a in _stmts(r):
        for b in _stmts(q):
            if a["op"] == b["op"] and (a["ref"] == b["ref"] or str(a["ref"]) == str(b["ref"])):
                return True
    return False


def _uniq(reqs):
    seen, out = set(), []
    for r in reqs:
        k = cjson(r)
        if k not in seen:
            seen.add(k)
            out.append(r)
    return out


def retyped_twin(r, q):
    """r holds a statement with the operator of a statement of q and a reference value that == (or str()) identifies
    with q's but that is of ANOTHER type"""
    for a in _stmts(r):
        for b in _stmts(q):
            if a["op"] == b["op"] and (a["ref"] == b["ref"] or str(a["ref"]) == str(b["ref"])) and type(a["ref"]) is not type(b["ref"]):
                return True
    return False


def replay_context(ctx, inp, info_mid, hist, reqs, qi, log_mark, for_mismatch=False, keep=related):
    """the requests that were answered before reqs[qi] and may have left something behind, added to the replay input as
    stages: related requests of earlier scenarios of this run (asked on the empty store, stage 0) and the preceding
    requests of the same stage (all of a short stage, the related ones of a long one)"""
    if len(ctx.mismatches if for_mismatch else ctx.failures) >= 10:        # only the first ones are written out
        return inp
    q = reqs[qi]
    # earlier stages of the scenario; of a long stage only the requests related to this one
    mid = [m if len(m["requests"]) <= 60 else dict(m, requests=[r for r in m["requests"] if related(r, q)])
           for m in info_mid or []]
    earlier = _uniq(r for r in REQUEST_LOG[:log_mark] if keep(r, q))
    if len(earlier) > 40:
        earlier = earlier[:20] + earlier[-20:]
    if earlier:
        mid.insert(0, {"at": 0, "requests": earlier})
    before = reqs[:qi] if len(reqs) <= 70 and keep is related else [r for r in reqs[:qi] if keep(r, q)]
    if before:
        mid.append({"at": len(hist), "requests": _uniq(before)})
    return dict(inp, mid=mid) if mid else inp


def failure_input(ctx, label, inp, info_mid, hist, reqs, qi, log_mark, cls=None, for_mismatch=False):
    """the replay input of a failing request: the request with the requests before it that may matter"""
    a = replay_context(ctx, inp, info_mid, hist, reqs, qi, log_mark, for_mismatch)
    if for_mismatch or cls is None or label == "replay" or ctx.failures:
        return a
    b = replay_context(ctx, inp, info_mid, hist, reqs, qi, log_mark, for_mismatch, keep=retyped_twin)
    return confirmed_context(ctx, cls, [a] + ([b] if b != a else []))


_CONFIRMED = []


def confirmed_context(ctx, cls, candidates):
    """The first failure of a run is the one written out as the replay. What an order-dependent failure needs of the
    requests answered before it cannot be known from inside this process (the state they left behind is still there), so
    the candidate contexts are tried in a fresh process each - at most once per run, a few seconds, on a failing tree
    only - and the first one on which the failure shows again is recorded; the fullest one if none does"""
    if _CONFIRMED or ctx.failures or any(k.get("class") == cls for k in ctx.known) or len(candidates) < 2:
        return candidates[0]
    _CONFIRMED.append(cls)
    import os
    import subprocess
    import sys
    import tempfile
    code = ("import sys, json; sys.path.insert(0, %r); from harness import common, c13; common.use_repo_sources(); "
            "sys.exit(3 if c13.replay(common.Ctx('C13', 'quick', 0), json.load(open(sys.argv[1]))) else 0)" % common.VERIF)
    for cand in candidates:
        fd, path = tempfile.mkstemp(prefix="c13_confirm_", suffix=".json", dir="/tmp")
        try:
            with os.fdopen(fd, "w") as f:
                json.dump({"failure": {"kind": "property_failure", "class": cls, "input": cand}}, f, default=str)
            r = subprocess.run([sys.executable, "-c", code, path], stdout=subprocess.DEVNULL, stderr=subprocess.DEVNULL, timeout=300)
            if r.returncode == 3:
                return cand
        except Exception:
            pass
        finally:
            os.unlink(path)
    return candidates[0]


def _ref_kind(r):
    return "bool" if isinstance(r, bool) else "int" if isinstance(r, int) else "float" if isinstance(r, float) else "str"


def check_requests(ctx, luts, store, store_json, reqs, info, label, model=None, log_mark=None):
    """model: the model's answers (store positions) to reqs on this store, or None"""
    hist, t0 = info["history"], info["t0_utc_ms"]
    log_mark = len(REQUEST_LOG) if log_mark is None else log_mark
    if True:
        if True:
            # ---- requests -----------------------------------------------------------------
            for qi, q in enumerate(reqs):
                kinds_ok = order_kinds_ok(store, q)
                want = spec_query(store, q) if kinds_ok else None
                inp = {"history": hist, "t0_utc_ms": t0, "requests": [q]}
                full = functools.partial(failure_input, ctx, label, inp, info.get("mid"), hist, reqs, qi, log_mark)   # on failure only
                got = {}
                for be in ("Dictionary", "TinyDB"):
                    code, data = impl_request(luts[be], q)
                    ctx.count(1, label + "_" + be)
                    if code == "EXC":
                        got[be] = ("EXC", data)
                        if kinds_ok:
                            ctx.property_failure("query_exception_" + be, full(cls="query_exception_" + be), f"request raised on the {be} back-end: {data}", want, data)
                        continue
                    idx = to_indices(store_json, data)
                    got[be] = idx
                    if not kinds_ok:
                        continue
                    if code != 0:
                        ctx.property_failure("query_refused_" + be, full(cls="query_refused_" + be), f"valid request refused with result {code}", 0, code)
                    elif sorted(idx) != sorted(want):
                        cls = "query_not_exact_" + be
                        if q["filter"] is None:
                            cls = "query_type_selection_" + be
                        ctx.property_failure(cls, full(cls=cls), f"the {be} back-end does not return exactly the stored objects of the requested "
                                             f"types for which the filter is true (store positions)", want, idx)
                    elif idx != want:
                        ctx.property_failure("query_not_ordered_" + be, full(cls="query_not_ordered_" + be), f"the {be} back-end returns the matching objects in "
                                             f"another order than requested", want, idx)
                    if model is not None and model[qi] != idx:
                        ctx.mismatch(f"{be} request_data_objects = LdmFilter.query", full(for_mismatch=True), model[qi], idx)
                if kinds_ok and got.get("Dictionary") != got.get("TinyDB"):
                    ctx.property_failure("backends_differ", full(cls="backends_differ"), "the two back-ends answer the same request differently",
                                         got.get("Dictionary"), got.get("TinyDB"))
                if kinds_ok:
                    if want:
                        ctx.nontriv(cjson(q) + str(len(store)) + str(want))
                    ctx.dist["flt_" + ("none" if q["filter"] is None else "2" if q["filter"]["s2"] else "1")] = \
                        ctx.dist.get("flt_" + ("none" if q["filter"] is None else "2" if q["filter"]["s2"] else "1"), 0) + 1
                    ctx.dist["result_" + ("empty" if not want else "all" if len(want) == len(store) else "some")] = \
                        ctx.dist.get("result_" + ("empty" if not want else "all" if len(want) == len(store) else "some"), 0) + 1
                    if q["filter"] is not None:
                        for s in (q["filter"]["s1"], q["filter"]["s2"]):
                            if s:
                                ctx.dist["op_" + s["op"]] = ctx.dist.get("op_" + s["op"], 0) + 1
                                ctx.dist["ref_" + _ref_kind(s["ref"])] = ctx.dist.get("ref_" + _ref_kind(s["ref"]), 0) + 1
                else:
                    ctx.dist["order_kinds_mixed_skipped"] = ctx.dist.get("order_kinds_mixed_skipped", 0) + 1
            REQUEST_LOG.extend(reqs)
            if reqs:
                ctx.sample({"store_size": len(store), "request": reqs[0], "expected_positions": spec_query(store, reqs[0]) if order_kinds_ok(store, reqs[0]) else None})


def gen_scenario(rng, n_add, n_req, style="plain"):
    t0 = T0_UTC_MS + rng.randrange(1000)
    hist = gen_history(rng, n_add, style)
    store = expected_store(hist, t0)
    # plus near-twins of some requests (same statement with the reference value in another type, ...) later in the list
    scen = {"history": hist, "t0_utc_ms": t0, "requests": with_twins(rng, [gen_request(rng, store) for _ in range(n_req)], max(2, n_req // 15))}
    if style == "audit" and len(hist) > 3:
        # requests between the operations of the history: what an earlier request returned must not leak into a later one
        cuts = sorted(set(rng.randrange(1, len(hist)) for _ in range(rng.choice((1, 1, 2)))))
        scen["mid"] = []
        for at in cuts:
            st = expected_store(hist[:at], t0)
            rq = with_twins(rng, [gen_request(rng, st) for _ in range(max(3, n_req // 6))], 1)
            # repeat some of the final requests early (same request before and after later operations)
            scen["mid"].append({"at": at, "requests": rq + scen["requests"][:max(3, n_req // 6)]})
        # the same requests immediately before and immediately after an update (nothing added or removed in between)
        upd = [i for i, h in enumerate(hist) if h["op"] == "update" and h["k"] < 900]
        if upd:
            u = rng.choice(upd)
            st = expected_store(hist[:u + 1], t0)
            rq = [gen_request(rng, st) for _ in range(max(4, n_req // 5))]
            scen["mid"] = [m for m in scen["mid"] if m["at"] not in (u, u + 1)]
            scen["mid"] += [{"at": u, "requests": rq}, {"at": u + 1, "requests": rq}]
    return scen


def boundary_scenarios(rng):
    """every operator x matching / non-matching reference type on a mandatory and an optional attribute, and/or
    with a missing side, all single type selections, order directions"""
    t0 = T0_UTC_MS
    hist = gen_history(rng, 12)
    store = expected_store(hist, t0)
    reqs = []
    for path, refs in (("header.stationId", (1001, 1003, "1003", True, "")),
                       ("cam.generationDeltaTime", (0, 1000, "x", False)),
                       ("denm.situation.informationQuality", (3, 0, "3")),
                       ("denm.management.relevanceDistance", ("lessThan50m", "lessThan", 50, "")),
                       ("vam.vamParameters.vruLowFrequencyContainer.sizeClass", ("medium", "m", 1)),
                       ("cam.camParameters.lowFrequencyContainer", ("basicVehicleContainerLowFrequency", "basic", 0)),
                       ("cam.camParameters.basicContainer", (0, "stationType"))):
        for op in OPS:
            for ref in refs:
                reqs.append({"types": [1, 2, 16], "filter": {"s1": {"path": path, "op": op, "ref": ref}, "lop": None, "s2": None}, "orders": None})
    a = {"path": "cam.generationDeltaTime", "op": "<=", "ref": 1000}
    b = {"path": "denm.management.stationType", "op": "!=", "ref": 5}
    c = {"path": "header.stationId", "op": ">", "ref": 1010}
    for s1, s2 in ((a, b), (b, a), (a, c), (c, a), (b, c)):
        for lop in ("and", "or"):
            for types in ([1, 2, 16], [2], [1]):
                reqs.append({"types": types, "filter": {"s1": s1, "lop": lop, "s2": s2}, "orders": [{"name": "stationId", "desc": True}]})
    for types in ([1], [2], [16], [3], [1, 2], [], list(range(1, 22))):
        reqs.append({"types": types, "filter": None, "orders": None})
        reqs.append({"types": types, "filter": None, "orders": []})
    for names in (("stationType",), ("stationType", "stationId"), ("generationDeltaTime", "stationType"), ("informationQuality", "timestamp"),
                  ("sizeClass", "stationId"), ("noSuchAttribute", "stationType")):
        for dirs in range(2 ** len(names)):
            reqs.append({"types": [1, 2, 16], "filter": None,
                         "orders": [{"name": n, "desc": bool(dirs >> i & 1)} for i, n in enumerate(names)]})
    return [{"history": hist, "t0_utc_ms": t0, "requests": reqs}]


def boundary_scenarios_audit():
    """audit round: a fixed store with null / empty-string / boolean / negative / empty-container values, a message whose
    header comes last, an untyped message and one message of each of the remaining types, locations with rectangle and
    ellipse; objects that lapse and are collected explicitly and inside an addition; every operator against reference
    values of every kind on these attributes; ordering by them; requests between the operations"""
    from .ldm_common import type_names
    t0 = T0_UTC_MS
    ex = {"smc": 1, "smo": 2, "smic": 3, "ac": 0, "radius": 10, "rd": 1, "td": 0}
    bodies = [{"note": None, "flag": False, "delta": -1, "items": [], "box": {}},
              {"note": "", "flag": True, "delta": 0, "items": [""], "box": {"inner": 0}},
              {"note": "abc", "flag": None, "delta": 3, "items": [None, 0], "box": {"inner": ""}},
              {"note": "b", "delta": -5, "items": [False, "abc"], "box": {"inner": None}},
              {"flag": 0, "note": "None", "box": {"inner": -2}},
              {"flag": 1, "note": "", "delta": 0}]
    hist = []
    k = 0

    def add(msg, val=100000, extra=None, dts=0):
        nonlocal k
        hist.append({"op": "add", "k": k, "aid": 2, "dts": dts, "lat": 413800000 + k * 100000, "lon": 21100000, "alt": 0,
                     "extra": dict(ex, **(extra or {})), "val": val, "msg": msg})
        k += 1
    for i, b in enumerate(bodies):
        msg = {"header": {"protocolVersion": 2, "messageId": 3, "stationId": 2000 + i}, "poi": dict(b, generationDeltaTime=i)}
        if i == 3:
            msg = {"poi": msg["poi"], "header": msg["header"]}
        add(msg, extra=SHAPES[3 + i % 3])
    add({"header": {"protocolVersion": 2, "messageId": 0, "stationId": 2050}, "unknownMessage": {"note": "abc", "delta": 1}})
    for typ in range(1, 22):
        add({"header": {"protocolVersion": 2, "messageId": typ, "stationId": 2100 + typ},
             type_names()[typ]: {"generationDeltaTime": typ, "note": "t%d" % typ, "delta": typ - 10}})
    mid_at = len(hist)
    # lapse and collection: explicitly, and inside an addition one second after the previous run
    add({"header": {"protocolVersion": 2, "messageId": 3, "stationId": 2200}, "poi": {"note": "short", "delta": 7}}, val=1)
    add({"header": {"protocolVersion": 2, "messageId": 3, "stationId": 2201}, "poi": {"note": "zero", "delta": 8}}, val=0)
    add({"header": {"protocolVersion": 2, "messageId": 3, "stationId": 2202}, "poi": {"note": "same-stamp", "delta": 9}}, val=600)
    hist.append({"op": "advance", "ms": 1000})
    mid2 = len(hist)
    hist.append({"op": "maintain"})
    mid3 = len(hist)
    hist.append({"op": "advance", "ms": 1000})
    add({"header": {"protocolVersion": 2, "messageId": 3, "stationId": 2203}, "poi": {"note": "late", "delta": 10}}, val=5)
    mid4 = len(hist)
    hist.append({"op": "update", "k": 1, "aid": 2, "msg": {"header": {"protocolVersion": 2, "messageId": 3, "stationId": 2001},
                                                         "poi": {"note": "updated", "flag": False}}})
    mid5 = len(hist)
    hist.append({"op": "update", "k": 3, "aid": 2, "msg": {"poi": {"note": "header last", "delta": -7},
                                                         "header": {"protocolVersion": 2, "messageId": 3, "stationId": 2003}}})
    hist.append({"op": "delete", "k": 0, "aid": 2})
    hist.append({"op": "delete", "k": 777, "aid": 2})
    hist.append({"op": "update", "k": 778, "aid": 2, "msg": hist[0]["msg"]})
    reqs = []
    refs = ("", "abc", "b", 0, 1, -1, False, True, "None", "0")
    for attr in ("note", "flag", "delta", "items", "box", "box.inner"):
        for op in OPS:
            for ref in refs:
                reqs.append({"types": [3], "filter": {"s1": {"path": "poi." + attr, "op": op, "ref": ref}, "lop": None, "s2": None}, "orders": None})
    for names in (("note",), ("flag",), ("delta",), ("inner",), ("note", "delta"), ("flag", "note"), ("azimuthAngle", "delta"), ("aSemiAxis",)):
        for dirs in range(2 ** len(names)):
            for types in ([3], list(range(1, 22))):
                reqs.append({"types": types, "filter": None, "orders": [{"name": n, "desc": bool(dirs >> i & 1)} for i, n in enumerate(names)]})
    for t in range(1, 22):
        reqs.append({"types": [t], "filter": None, "orders": None})
        reqs.append({"types": [t], "filter": {"s1": {"path": "header.messageId", "op": "==", "ref": t}, "lop": None, "s2": None}, "orders": None})
    few = reqs[::7]
    return [{"history": hist, "t0_utc_ms": t0, "requests": reqs,
             "mid": [{"at": mid_at, "requests": reqs}, {"at": mid2, "requests": few}, {"at": mid3, "requests": few},
                     {"at": mid4, "requests": reqs[::3]}, {"at": mid5, "requests": reqs[::3]}]}]


REF_FAMILIES = ((0, False, 0.0, "0", "0.0", "False"), (1, True, 1.0, "1", "1.0", "True"), (2, 2.0, 2.5, "2"),
                (-1, -1.0, -0.5, "-1"), (100, 100.0, 99.5), (1000, 1e3, "1000.0"), (600, 600.0, 0.5))


def boundary_scenarios_reftypes(rng, tier="quick"):
    """reference values of every type against attributes of every kind, in sequences: "reference values of matching and
    non-matching type" includes values that Python's == / hash() identify although they are of different types
    (0 = False = 0.0, 1 = True = 1.0, n = float(n)) and their texts ("1", "1.0", "True"). For ==, !=, <, <=, >, >= and
    for like / notlike on a list such values are interchangeable (C13_same_number_interchangeable); on a STRING
    like / notlike look for str(reference), which differs with the type. The store therefore holds strings that contain
    the text of one member of a family and not of another (lessThan100m, alt-000-01, "1.0", "True", ...) next to numbers,
    booleans and lists; every family is asked member after member on every attribute with every operator, in both orders,
    on one LDM pair and - second scenario - again on a fresh pair (what an answer to one member leaves behind, in the
    back-end or in the process, must not answer the next)"""
    t0 = T0_UTC_MS
    ex = {"smc": 1, "smo": 2, "smic": 3, "ac": 0, "radius": 10, "rd": 1, "td": 0}
    hist = []

    def add(msg):
        k = len(hist)
        hist.append({"op": "add", "k": k, "aid": 2, "dts": 0, "lat": 413800000 + k * 100000, "lon": 21100000, "alt": 0,
                     "extra": dict(ex), "val": 100000, "msg": msg})
    sid = 3000
    for dist, dur, iq in (("lessThan50m", 0, 0), ("lessThan100m", 1, 1), ("lessThan1000m", 600, 2), ("over10km", 100, 7)):
        sid += 1
        m = gen_denm(rng, sid)
        m["denm"]["management"].update(relevanceDistance=dist, validityDuration=dur)
        m["denm"]["situation"] = {"informationQuality": iq, "eventType": {"ccAndScc": ("accident2", 1)}}
        m["denm"]["alacarte"] = {"lanePosition": iq - 1, "stationaryVehicle": {"stationarySince": rng.choice(("lessThan1Minute", "equalOrGreater15Minutes")),
                                                                                "numberOfOccupants": iq}}
        add(m)
    for gdt, conf in ((0, "alt-000-01"), (1, "unavailable"), (2, "alt-200-00"), (1000, "alt-000-02")):
        sid += 1
        m = gen_cam(rng, sid)
        m["cam"]["generationDeltaTime"] = gdt
        m["cam"]["camParameters"]["basicContainer"]["referencePosition"]["altitude"]["altitudeConfidence"] = conf
        add(m)
    sid += 1
    add(gen_vam(rng, sid))
    notes = ("1", "0", "1.0", "0.0", "True", "False", "-1", "2.5", "x100y", "t2", "600.0", "", None, "abc", "-0.5e", "1000")
    flags = (True, False, 0, 1, None, 2, -1, True, False, 100, 1, 0, None, 600, 1000, True)
    items = ([1, 8], [True], [0], ["1"], [], [False, "0"], ["1.0", 2], [None], [100], [-1], ["True"], [1000, "x"], [600], [2], ["False"], [0, 1])
    for i, note in enumerate(notes):
        sid += 1
        add({"header": {"protocolVersion": 2, "messageId": 3, "stationId": sid},
             "poi": {"generationDeltaTime": i, "note": note, "flag": flags[i], "delta": (i % 5) - 2, "items": items[i]}})
    paths = ("denm.management.relevanceDistance", "denm.management.validityDuration", "denm.situation.informationQuality",
             "denm.alacarte.stationaryVehicle.stationarySince",
             "cam.camParameters.basicContainer.referencePosition.altitude.altitudeConfidence", "cam.generationDeltaTime",
             "poi.note", "poi.flag", "poi.items", "header.stationId", "poi.noSuchAttribute")
    types = [1, 2, 3, 16]

    def one(path, op, ref):
        return {"types": types, "filter": {"s1": {"path": path, "op": op, "ref": ref}, "lop": None, "s2": None}, "orders": None}
    fams = REF_FAMILIES if tier != "quick" else REF_FAMILIES[:4] + (REF_FAMILIES[4 + rng.randrange(3)],)
    forward, backward, mixed = [], [], []
    for path in paths:
        for op in OPS:
            for fam in fams:
                forward += [one(path, op, r) for r in fam]
    for fam in fams:          # the members in the opposite order; the text-sensitive operators and one of the others
        for op in ("notlike", "like", rng.choice(OPS[:6])):
            for path in paths:
                backward += [one(path, op, r) for r in reversed(fam)]
    # two statements: the same family member twice, and two members of a family in one filter
    for fam in fams:
        for _ in range(6 if tier == "quick" else 20):
            a, b = rng.choice(fam), rng.choice(fam)
            q = {"types": types, "filter": {"s1": {"path": rng.choice(paths[:9]), "op": rng.choice(("like", "notlike", "==", ">=")), "ref": a},
                                            "lop": rng.choice(("and", "or")),
                                            "s2": {"path": rng.choice(paths[:9]), "op": rng.choice(("like", "notlike", "!=", "<")), "ref": b}},
                 "orders": rng.choice((None, [{"name": "stationId", "desc": True}]))}
            mixed.append(q)
    shuffled = forward[::3] + mixed
    rng.shuffle(shuffled)
    return [{"history": hist, "t0_utc_ms": t0, "requests": forward + mixed, "mid": [{"at": len(hist) - 1, "requests": backward}]},
            {"history": hist, "t0_utc_ms": t0 + 1, "requests": shuffled}]


def check_dec_str(ctx):
    """str(needle) of the like operator: the model's decimal conversion against Python's"""
    if not ctx.model.available:
        return
    vals = list(range(-120, 1200)) + [10 ** k + d for k in range(3, 20) for d in (-1, 0, 1)] + [-(10 ** k) for k in range(3, 20)]
    res = ctx.model.batch((3, [v]) for v in vals)
    for v, r in zip(vals, res):
        if "".join(chr(c) for c in r) != str(v):
            ctx.mismatch("str(int) = LdmFilter.dec_str", {"n": v}, r, str(v))
    ctx.count(len(vals), "dec_str")


def run(ctx):
    ctx.rule = ("seeded histories (add / update / delete through IF.LDM.3, 1-25 stored CAM, DENM, VAM and other messages with and "
                "without optional containers) executed on a Factory-built LDM with the Dictionary and with the TinyDB back-end; "
                "requests with filters of one or two statements over every dotted path occurring in the stored messages (plus "
                "non-existing, malformed and into-CHOICE paths), all eight operators, reference values taken from the stored "
                "values, off-by-one, of other type, all type selections, 0-3 ordering attributes in both directions; style 'audit': "
                "messages of all 21 types and untyped ones with null / empty-string / boolean / negative / empty-container values and "
                "the header last, locations with rectangle / ellipse / no circle, validity 0-5 s with clock advances, explicit and "
                "reactive maintenance (objects lapse on both back-ends), operations on unknown identifiers, requests also between "
                "the operations of a history; reference values also finite floats (integral, fractional, beyond 2^53) and the texts of "
                "numbers / booleans, stored strings that contain such texts; request SEQUENCES in which a statement recurs with its "
                "reference value in another type that == / hash() identify (0 / False / 0.0, 1 / True / 1.0, n / float(n)) or with "
                "another path / operator / type selection (near-twins), adjacent, far apart, across stages and across LDM "
                "instances of one process (boundary_reftypes: every family x attribute kind x operator, both orders); each back-end "
                "is compared with the specification oracle, with the model and with the other back-end; evaluations = requests "
                "executed per back-end + history operations; non-trivial = request with a non-empty expected result, distinct by "
                "(request, store size, result)")
    import glob
    import os
    for k in ctx.known:
        check_scenario(ctx, k["witness"], "known_witness")
    for f in sorted(glob.glob(os.path.join(common.VERIF, "corpus", "C13", "*.json"))):
        check_scenario(ctx, json.load(open(f)), "corpus")
    rng = ctx.rng
    check_dec_str(ctx)
    for s in boundary_scenarios(rng):
        check_scenario(ctx, s, "boundary")
    for s in boundary_scenarios_audit():
        check_scenario(ctx, s, "boundary_audit")
    for s in boundary_scenarios_reftypes(rng, ctx.tier):
        check_scenario(ctx, s, "boundary_reftypes")
    n_scen = 120 if ctx.tier == "quick" else 1500
    for _ in range(n_scen):
        check_scenario(ctx, gen_scenario(rng, rng.choice((1, 3, 6, 10, 15, 25)), 60), "seeded")
    n_audit = 36 if ctx.tier == "quick" else 600
    for _ in range(n_audit):
        check_scenario(ctx, gen_scenario(rng, rng.choice((2, 4, 8, 12, 20, 30)), 30 if ctx.tier == "quick" else 40, "audit"), "seeded_audit")
    if ctx.tier != "quick":
        for _ in range(30):          # large stores
            check_scenario(ctx, gen_scenario(rng, rng.choice((60, 120, 200)), 40, "audit"), "seeded_audit_large")
    ctx.exhaustive = False


def replay(ctx, data):
    common.use_repo_sources()
    f = data.get("failure") or (data.get("broken") or [{}])[-1].get("first")
    print(json.dumps(f, default=str)[:3000])
    ctx.model = common.Model(MODEL_NAME)
    inp = f["input"]
    check_scenario(ctx, {"history": inp["history"], "t0_utc_ms": inp["t0_utc_ms"], "requests": inp.get("requests", []),
                         "mid": inp.get("mid")}, "replay")
    if f.get("kind") == "property_failure":
        hits = [r for r in ctx.failures + list(ctx.known_hits.values()) if r["class"] == f["class"]]
    else:
        hits = ctx.mismatches
    print("REPRODUCED" if hits else "NOT REPRODUCED")
    for r in hits[:3]:
        print(json.dumps(r, default=str)[:2000])
    return 1 if hits else 0
