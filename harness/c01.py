"""C01 - end-to-end payload delivery between stations through BTP and GeoNetworking."""
from __future__ import annotations

import json

from . import common
from . import router_sim as rs
from . import stack

PROP = "C01"
COQ_TARGETS = ["Properties/C01", "Extract/ExRouter"]
MODEL_ML = "router_model.ml"
MODEL_NAME = "router"
TRUSTED_BASE = [
    "Coq 8.16.1 kernel (coqc); no native_compute; vm_compute only in Examples",
    "extraction (ExtrOcamlBasic only) + ocaml/driver_body.ml + OCaml 4.13.1",
    "hand-written models Model/Wire.v, Model/Router.v, Model/Btp.v tied to the code by differential execution: every "
    "station of a 2-4 station network of real BTP+GN stacks is replayed on the extracted model event by event",
    "Python harness (fake broadcast ether, virtual clock, fake timers), independent geometric oracle",
]
ASSUMPTIONS = [
    "all stations hear each other (full mesh) or sit on a line; frames are delivered in FIFO order without loss",
    "security-on variants of the quantifier are exercised by the C03/C05 checks (sign-then-verify); here security is off",
    "requests use store-carry-forward = false (the SCF buffers are stubs in the implementation)",
    "geometric verdicts are harness-computed; receivers within 1e-6 of an area border are excluded from the verdict",
]
EXPLANATION = ("theorems: an SHB / GBC / GAC / GUC request of station A, received by station B (any state with a fresh duplicate "
               "window for A), yields exactly one indication whose payload is the request's BTP PDU and whose source position "
               "vector is A's ego vector; BTP demultiplexes to the destination port only, with the port info of the request; A "
               "ignores its own frame; outside the area nothing is delivered; the location-service exchange (request, reply, "
               "flush in request order) is proved step by step. Correspondence on networks of real stacks")

PORTS = [2001, 2002, 0, 65535, 4660]


class Net:
    def __init__(self, ctx, n, topo="mesh", alg="CBF", spread=800):
        self.ctx = ctx
        rng = ctx.rng
        rs.VCLOCK.set_ms(1_700_000_000_000 + rng.randrange(10 ** 8))
        quadrant = rng.choice([(413800000, 21100000), (-338688000, 1512093000), (-100, -100), (600000000, -1000000000),
                               (-899990000, 1799990000)])
        self.st = []
        for i in range(n):
            ego = (quadrant[0] + rng.randrange(-spread, spread + 1) + (i * 9000 if topo == "line" else 0),
                   quadrant[1] + rng.randrange(-spread, spread + 1))
            ego = (max(-899999999, min(899999999, ego[0])), max(-1799999999, min(1799999999, ego[1])))
            s = rs.Station(mid=0x0A0B0C0D4000 + i, st=rng.choice([5, 1, 12]), ego=ego, area_alg=alg,
                           mobile=rng.random() < 0.8)
            ports = rng.sample(PORTS, rng.choice([2, 3, 5]))
            s.attach_btp(ports)
            s.ports = ports
            self.st.append(s)
        stack.FakeTimer.reset()
        allpos = {(s.ego[4], s.ego[5]) for s in self.st} | {(0, 0)}
        for s in self.st:
            s.positions.update(allpos)
        self.links = {i: [j for j in range(n) if j != i and (topo == "mesh" or abs(i - j) == 1)] for i in range(n)}
        self.queue = []
        # a lossy ether eats the first few LS request frames at their origin (the retransmit timer recovers them); frames
        # that are being forwarded are never lost, so a lookup always succeeds within itsGnLocationServiceMaxRetrans
        self.lossy = rng.random() < 0.4
        self.ls_drops_left = rng.choice([1, 2, 3]) if self.lossy else 0

    def now(self):
        return rs.VCLOCK.its_ms()

    def tick(self, ms):
        """advance the clock; every station refreshes the timestamp of its ego position vector (a real station does so
        at least once per second, otherwise its peers would age it out of their location tables)"""
        rs.VCLOCK.advance(ms)
        for i, s in enumerate(self.st):
            pv = list(s.ego)
            pv[3] = self.now() % 2 ** 32
            self.do(i, {"ev": "ego", "pv": pv})

    def do(self, i, ev):
        s = self.st[i]
        obs = s.record(self.ctx, ev)
        for p in obs["sent"]:
            self.queue.append((i, p))
        return obs

    def pump(self, limit=4000, fire_ls=False):
        """deliver frames in flight (FIFO) and fire CBF timers when the ether is idle; a share of the LS request
        frames is lost on the air (the retransmit timer recovers them when fire_ls is set)"""
        steps = 0
        while steps < limit:
            steps += 1
            if self.queue:
                i, pkt = self.queue.pop(0)
                if len(pkt) > 10 and pkt[5] == 0x60 and pkt[3] == pkt[10] and self.ls_drops_left > 0 \
                        and self.ctx.rng.random() < 0.7:
                    self.ls_drops_left -= 1
                    self.ctx.count(1, "ls_request_frame_lost")
                    continue
                for j in self.links[i]:
                    self.do(j, rs.rx_event_from_octets(self.st[j], pkt, self.now(),
                                                       extra_dests=[(s.ego[4], s.ego[5]) for s in self.st]))
                continue
            pend = [(t.due, t.id, t) for t in stack.FakeTimer.pending()]
            fired = False
            for due, _, t in sorted(pend):
                for i, s in enumerate(self.st):
                    for kk, tt in list(s.router._cbf_buffer.items()):
                        if tt is t:
                            rs.VCLOCK.ms = max(rs.VCLOCK.ms, due)
                            self.do(i, {"ev": "cbf", "key": list(stack.addr_tuple(kk[0])) + [kk[1]]})
                            fired = True
                            break
                    if fired:
                        break
                if fired:
                    break
            if not fired and fire_ls:
                for i, s in enumerate(self.st):
                    for kk in list(s.router._ls_timers.keys()):
                        self.tick(1000)
                        self.do(i, {"ev": "ls", "sought": list(stack.addr_tuple(kk))})
                        fired = True
                        break
                    if fired:
                        break
            if not fired:
                break
        return steps

    def beacons(self):
        for i, s in enumerate(self.st):
            s.ll.sent.clear()
            s.router.gn_data_request_beacon()
            b = s.ll.sent.pop()
            for j in self.links[i]:
                self.do(j, rs.rx_event_from_octets(self.st[j], b, self.now()))


def mk_request(rng, kind, n_st, sender, net):
    payload_len = rng.choice([0, 1, 2, 5, 37, 255, 256, 900, 1394 if kind == "shb" else 1200])
    payload = bytes(rng.randrange(256) for _ in range(payload_len))
    btp_type = rng.choice([1, 2])
    p1 = rng.choice(PORTS)
    p2 = rng.choice([0, 1, 65535, 4660, 2001])
    q = {"req_ms": rng.choice([-1, -1, 1000, 50]), "req_hl": rng.choice([0, 1, 2, 5, 10, 255]), "scf": 0,
         "off": int(rng.random() < 0.2), "tcid": rng.randrange(64)}
    ev = {"ev": "btp", "gn": kind if kind in ("shb", "guc") else "geo", "btp_type": btp_type, "p1": p1, "p2": p2,
          "payload": payload, "r": q, "kind": kind}
    if kind in ("gbc", "gac"):
        ego = net.st[sender].ego
        shape = rng.choice([0, 1, 2])
        a, b = rng.choice([(30, 20), (200, 100), (1000, 500), (15, 15), (5, 3)])
        angle = rng.choice([0, 30, 45, 90, 135, 200, 270, 359])
        centre = (ego[4] + rng.randrange(-200, 201), ego[5] + rng.randrange(-200, 201))
        q.update(ht=4 if kind == "gbc" else 3, hst=shape, area=(centre[0], centre[1], a, b, angle))
        ev["area"] = (centre[0], centre[1], a, b, angle, shape)
        ev["dests"] = [centre]
    if kind == "guc":
        others = [j for j in range(n_st) if j != sender]
        if rng.random() < 0.85:
            d = rng.choice(others)
            ev["dest"] = (0, net.st[d].st, net.st[d].mid)
            ev["dest_idx"] = d
        else:
            ev["dest"] = (0, 5, 0x0A0B0C0D4FFF)      # nobody
            ev["dest_idx"] = None
        ev["dests"] = sorted({(s.ego[4], s.ego[5]) for s in net.st} | {(0, 0)})
    return ev


def repeat_of(rng, old, fresh):
    """A request that repeats an earlier one of the same station (an application that sends the same message again - a
    heartbeat, an empty payload, a retry - issues two requests, and the property owes a delivery to each of them).
    'exact': equal in every field; 'near': same payload, ports, transport and destination/area, but the parameters a receiver's
    handler cannot tell apart (traffic class, hop limit, lifetime) are those of the freshly drawn request; 'payload': only
    the payload octets are re-used, everything else is fresh (another port / transport of the same sender)."""
    how = rng.choice(["exact", "exact", "exact", "near", "payload"]) if fresh is not None else "exact"
    if how == "payload":
        ev = dict(fresh)
        ev["r"] = dict(fresh["r"])
        ev["payload"] = old["payload"]
    else:
        ev = dict(old)
        ev["r"] = dict(old["r"])
        if how == "near":
            for f in ("req_ms", "req_hl", "off", "tcid"):
                ev["r"][f] = fresh["r"][f]
    ev["repeat"] = how
    ev["repeat_of"] = old["rid"]
    return ev


def scenario(ctx, n_st, topo, alg, n_req, know_each_other, pileup=False):
    """pileup: station 0 issues all requests as GeoUnicast to station 1, which it does not know; between the requests it
    only hears beacons of a third station (every reception refreshes its location table), so that several requests wait for
    one location-service lookup; everything is delivered afterwards.
    In every scenario a share of the requests repeats an earlier request of the same station (see repeat_of): the quantifier
    ranges over all payloads and all request orders, so equal messages in one history belong to it."""
    rng = ctx.rng
    net = Net(ctx, n_st, topo, alg)
    if know_each_other:
        net.beacons()
    expected = []      # (receiver, sender, port, request id)
    requests = []
    for rid in range(n_req):
        sender = rng.randrange(n_st)
        kind = rng.choice(["shb", "shb", "gbc", "gac", "guc", "guc"])
        if topo == "line" and kind == "gac":
            kind = "gbc"
        if pileup:
            sender, kind = 0, "guc"
        ev = mk_request(rng, kind, n_st, sender, net)
        if pileup:
            ev["dest"], ev["dest_idx"] = (0, net.st[1].st, net.st[1].mid), 1
        if requests and rng.random() < (0.45 if pileup else 0.15):
            # repeat a request of this sender (preferably a recent one: it may still wait for its location lookup)
            mine = [e for (s0, e) in requests if s0 == sender]
            if mine:
                old = mine[-1] if rng.random() < 0.5 else rng.choice(mine)
                ev = repeat_of(rng, old, None if pileup and rng.random() < 0.5 else ev)
                kind = ev["kind"]
                ctx.count(1, f"req_repeated_{ev['repeat']}")
        ev["rid"] = rid
        requests.append((sender, ev))
        obs = net.do(sender, ev)
        ctx.count(1, f"req_{kind}_{'btpA' if ev['btp_type'] == 1 else 'btpB'}")
        if obs["err"]:
            ctx.property_failure("request_exception", _inp(ev, sender, net), "a transport-layer request raised", None, obs["err"])
        if pileup:
            # a beacon of the third station reaches everybody; the frames of the lookup stay in flight
            k3 = net.st[2]
            k3.ll.sent.clear()
            k3.router.gn_data_request_beacon()
            b = k3.ll.sent.pop()
            for j in net.links[2]:
                net.do(j, rs.rx_event_from_octets(net.st[j], b, net.now()))
            if rng.random() < 0.5:
                net.tick(rng.choice([20, 300, 999]))
            continue
        # sometimes let further requests pile up before anything is delivered (pending location lookups)
        if rng.random() < 0.6:
            net.pump()
        if rng.random() < 0.3:
            net.tick(rng.choice([20, 50, 300]))      # >= 20 ms: keeps the packet data rate below the B.2 limiter
    net.pump(fire_ls=True)
    # ------------------------------------------------------------------ oracle
    # Requests of one station that carry the same octets to the same port with the same port information cannot be told
    # apart by a handler. They form a group, and the handlers owe the group one delivery for EACH of its requests that is
    # due at that receiver (exactly once per request - a repeated message is delivered as often as it was handed over).
    # A request whose content is unique in the history is a group of one.
    groups = {}
    for sender, ev in requests:
        groups.setdefault((sender, ev["payload"], _port_key(ev)), []).append(ev)

    def want_of(sender, ev, j, r):
        """deliveries the property demands at station j for this request; None = no verdict"""
        kind = ev["kind"]
        if j == sender:
            want = 0
        elif kind == "shb":
            want = 1 if (j in net.links[sender]) else 0
        elif kind in ("gbc", "gac"):
            f = rs.f_value(ev["area"], r.ego[4], r.ego[5])
            if abs(f) < 1e-6:
                return None
            want = 1 if f >= 0 else 0
        else:
            want = 1 if ev.get("dest_idx") == j else 0
        if ev["p1"] not in r.ports:
            want = 0
        if topo == "line" and want and kind != "shb":
            # multi-hop: the receiver must be within the hop budget of the request (else no verdict)
            hl = ev["r"]["req_hl"] if ev["r"]["req_hl"] > 1 else 10
            if abs(sender - j) > hl:
                return None
        return want

    for (sender, payload, pkey), evs in groups.items():
        s = net.st[sender]
        for j, r in enumerate(net.st):
            got = [(p, i) for (p, i) in r.btp_deliveries if i.data == payload and _from(i, s) and _ind_port_key(i) == pkey]
            wants = [want_of(sender, ev, j, r) for ev in evs]
            if any(w is None for w in wants):
                continue
            want = sum(wants)
            inp = _inp(evs[0], sender, net, receiver=j)
            if len(evs) > 1:
                inp["equal_requests"] = [{"rid": e["rid"], "kind": e["kind"], "due": w} for e, w in zip(evs, wants)]
                ctx.count(1, "verdict_on_group_of_equal_requests")
            if len(got) != want:
                cls = "delivery_missing" if len(got) < want else ("delivered_twice" if want else "delivered_wrongly")
                ctx.property_failure(cls, inp, f"{len(got)} deliveries to the handler of port {pkey[0]} at station {j}, "
                                     f"expected {want}" + (f" (one for each of the {want} equal requests that are due there)"
                                                           if len(evs) > 1 else ""), want, len(got))
            kinds = sorted({e["kind"] for e in evs})
            for (p, i) in got:
                if p != pkey[0]:
                    ctx.property_failure("wrong_port", inp, "delivered to the handler of another port", pkey[0], p)
                pv = i.gn_source_position_vector
                if (pv.latitude, pv.longitude, stack.addr_tuple(pv.gn_addr)) != (s.ego[4], s.ego[5], (0, s.st, s.mid)):
                    ctx.property_failure("source_pv", inp, "indication does not carry the sender's position vector",
                                         [s.ego[4], s.ego[5]], [pv.latitude, pv.longitude])
                ht = i.gn_packet_transport_type.header_type.value
                if len(kinds) == 1 and ht != _HT[kinds[0]]:
                    ctx.property_failure("transport_type", inp, "indication reports another transport type", kinds[0], ht)
            if len(kinds) > 1 and len(got) == want:
                # equal content over several transports: the transport types reported must be those of the due requests
                exp_ht = sorted(_HT[e["kind"]] for e, w in zip(evs, wants) if w)
                got_ht = sorted(i.gn_packet_transport_type.header_type.value for (_, i) in got)
                if exp_ht != got_ht:
                    ctx.property_failure("transport_type", inp, "indications report other transport types", exp_ht, got_ht)
            for e, w in zip(evs, wants):
                if w:
                    ctx.nontriv(("c01", e["kind"], e["btp_type"], e["p1"], len(e["payload"]), j))
            if len(evs) > 1 and want > 1:
                ctx.nontriv(("c01-equal-requests", tuple(kinds), want, len(payload) > 0))
    # wrong-port / stray deliveries: everything delivered must stem from a request with that port and payload
    for j, r in enumerate(net.st):
        for (p, i) in r.btp_deliveries:
            if not any(e["payload"] == i.data and e["p1"] == p for (_, e) in requests):
                ctx.property_failure("stray_delivery", {"receiver": j, "port": p, "data": i.data.hex()[:80]},
                                     "a handler received data nobody sent to its port", None, None)
    # order per (sender, receiver, port) for unicast: deliveries follow the request order. Equal requests are matched to
    # deliveries first-to-first (if any matching is in request order, this one is)
    for j, r in enumerate(net.st):
        waiting = {}
        for (snd, e) in requests:
            if e["kind"] == "guc" and e.get("dest_idx") == j:
                waiting.setdefault((snd, e["payload"], _port_key(e)), []).append(e["rid"])
        seq = {}
        for (p, i) in r.btp_deliveries:
            if i.gn_packet_transport_type.header_type.value != _HT["guc"]:
                continue
            for snd, s in enumerate(net.st):
                if _from(i, s):
                    q = waiting.get((snd, i.data, _ind_port_key(i)))
                    if q:
                        seq.setdefault((snd, p), []).append(q.pop(0))
                    break
        for key, rids in seq.items():
            if rids != sorted(rids):
                ctx.property_failure("order", {"receiver": j, "sender": key[0], "port": key[1]},
                                     "unicast payloads were delivered out of request order", sorted(rids), rids)
    # every station's behaviour against the model
    for s in net.st:
        rs.compare_with_model(ctx, s, relation="station in a network = Model.Router.run")
    return net


def _from(ind, s):
    return stack.addr_tuple(ind.gn_source_position_vector.gn_addr)[2] == s.mid


_HT = {"shb": 5, "gbc": 4, "gac": 3, "guc": 2}


def _port_key(ev):
    """what a handler sees of the ports of a request: (destination port, source port [BTP-A], port info [BTP-B])"""
    return (ev["p1"], ev["p2"], 0) if ev["btp_type"] == 1 else (ev["p1"], 0, ev["p2"])


def _ind_port_key(ind):
    return (ind.destination_port, ind.source_port or 0, ind.destination_port_info or 0)


def _inp(ev, sender, net, receiver=None):
    d = {k: (v.hex() if isinstance(v, bytes) else v) for k, v in ev.items() if k not in ("dests",)}
    d["payload"] = d["payload"][:64] + ("..." if len(d["payload"]) > 64 else "")
    d.update(sender=sender, sender_ego=[net.st[sender].ego[4], net.st[sender].ego[5]])
    if receiver is not None:
        d.update(receiver=receiver, receiver_ego=[net.st[receiver].ego[4], net.st[receiver].ego[5]],
                 receiver_ports=net.st[receiver].ports)
    return d


def run(ctx):
    ctx.rule = ("networks of 2-4 real BTP+GN stacks on a fake broadcast ether (full mesh, or a line for GBC), stations in all "
                "hemispheres, SIMPLE and CBF; seeded sequences of SHB / GBC / GAC / GUC requests through the real BTP router "
                "(BTP-A and BTP-B, ports {0, 2001, 2002, 4660, 65535}, payload lengths {0,1,2,5,37,255,256,900,1200,1394}), "
                "with and without prior beacons (unicast then goes through the location service, several requests may pile up "
                "before the reply); a share of the requests repeats an earlier request of the same station (equal in every field, "
                "equal up to traffic class / hop limit / lifetime, or the same octets on another port or transport); "
                "deliveries at every station checked for exactly-once per request (equal requests: as many deliveries as "
                "requests), octet identity, port, port info, "
                "source position vector, transport type and per-destination order; every station replayed on the model; "
                "non-trivial = a delivery was due; distinct by (kind, btp type, port, length, receiver)")
    rs.stack.patch_time()
    n = 140 if ctx.tier == "quick" else 1500
    for k in range(n):
        n_st = ctx.rng.choice([2, 3, 4])
        topo = "line" if (k % 5 == 4 and n_st > 2) else "mesh"
        alg = ctx.rng.choice(["SIMPLE", "CBF"])
        scenario(ctx, n_st, topo, alg, ctx.rng.choice([6, 10, 16]), know_each_other=(k % 3 != 0))
        if k % 12 == 0:
            scenario(ctx, ctx.rng.choice([3, 4]), "mesh", alg, ctx.rng.choice([2, 3, 5]), know_each_other=False, pileup=True)
    ctx.sample({"network": {"stations": n_st, "topology": topo, "algorithm": alg}})
    ctx.exhaustive = False


def replay(ctx, data):
    f = data.get("failure") or (data.get("broken") or [{}])[-1].get("first")
    print(json.dumps(f, default=str)[:3000])
    ctx.model = common.Model(MODEL_NAME)
    ctx.rng.seed(data.get("seed", 0))
    run(ctx)
    bad = ctx.failures or ctx.mismatches or ctx.known_hits
    print("REPRODUCED" if bad else "NOT REPRODUCED")
    return 1 if bad else 0
