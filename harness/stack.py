"""Helpers to drive real FlexStack objects deterministically from the harness:
virtual clock, fake timers, capturing link layer, reference packet builders
written directly from the ETSI layout tables (independent of the code under test).
"""
from __future__ import annotations

import heapq
import itertools

ITS_EPOCH_MS = 1072915200 * 1000
LEAP_MS = 5000


class VClock:
    """virtual UTC clock in integer milliseconds"""

    def __init__(self):
        self.ms = 1_700_000_000_000  # 2023-11-14T22:13:20Z

    def set_ms(self, ms: int):
        self.ms = ms

    def advance(self, ms: int):
        self.ms += ms

    def time(self) -> float:
        return self.ms / 1000

    def its_ms(self) -> int:
        return self.ms - ITS_EPOCH_MS + LEAP_MS


VCLOCK = VClock()
_patched = False


class FakeTimer:
    """Replacement for threading.Timer whose expiry is driven by the harness."""
    registry = []          # heap of (due_ms, seq, timer)
    _seq = itertools.count()
    log = []               # ("start"|"cancel"|"fire", id)

    def __init__(self, interval, function, args=None, kwargs=None):
        self.interval = interval
        self.function = function
        self.args = args or []
        self.kwargs = kwargs or {}
        self.daemon = True
        self.cancelled = False
        self.fired = False
        self.started = False
        self.id = next(FakeTimer._seq)
        self.due = None

    def start(self):
        self.started = True
        self.due = VCLOCK.ms + int(round(self.interval * 1000))
        heapq.heappush(FakeTimer.registry, (self.due, self.id, self))
        FakeTimer.log.append(("start", self.id, self.interval))

    def cancel(self):
        self.cancelled = True
        FakeTimer.log.append(("cancel", self.id))

    def is_alive(self):
        return self.started and not self.cancelled and not self.fired

    def fire(self):
        if self.cancelled or self.fired:
            return False
        self.fired = True
        FakeTimer.log.append(("fire", self.id))
        self.function(*self.args, **self.kwargs)
        return True

    @classmethod
    def reset(cls):
        cls.registry = []
        cls.log = []

    @classmethod
    def pending(cls):
        return [t for (_, _, t) in cls.registry if not t.cancelled and not t.fired]

    @classmethod
    def run_until(cls, ms: int):
        """advance the virtual clock to `ms`, firing due timers in order"""
        while cls.registry and cls.registry[0][0] <= ms:
            due, _, t = heapq.heappop(cls.registry)
            if t.cancelled or t.fired:
                continue
            VCLOCK.ms = max(VCLOCK.ms, due)
            t.fire()
        VCLOCK.ms = max(VCLOCK.ms, ms)


def patch_time():
    """Replace the time sources of the stack by the virtual clock (from outside;
    no change to the repository)."""
    global _patched
    from flexstack.utils import time_service
    time_service.TimeService.time = staticmethod(VCLOCK.time)
    _patched = True


def patch_router_timers():
    import flexstack.geonet.router as r
    r.Timer = FakeTimer
    r.print = lambda *a, **k: None      # the router reports discards on stdout


class CaptureLL:
    def __init__(self):
        self.sent = []

    def send(self, packet: bytes):
        self.sent.append(bytes(packet))


# ---------------------------------------------------------------------------
# reference encoders (EN 302 636-4-1 clause 9), written from the standard

def u(width_bits: int, v: int) -> int:
    return v & ((1 << width_bits) - 1)


def pack(fields) -> bytes:
    """fields: list of (width_bits, value); big-endian bit packing"""
    acc, n = 0, 0
    for w, v in fields:
        acc = (acc << w) | u(w, v)
        n += w
    assert n % 8 == 0
    return acc.to_bytes(n // 8, "big")


def gn_addr_fields(m: int, st: int, mid: int):
    return [(1, m), (5, st), (10, 0), (48, mid)]


def lpv_fields(addr, tst, lat, lon, pai, s, h):
    return gn_addr_fields(*addr) + [(32, tst), (32, lat), (32, lon), (1, pai), (15, s), (16, h)]


def spv_fields(addr, tst, lat, lon):
    return gn_addr_fields(*addr) + [(32, tst), (32, lat), (32, lon)]


def basic_fields(version, nh, lt_code, rhl):
    return [(4, version), (4, nh), (8, 0), (8, lt_code), (8, rhl)]


def common_fields(nh, ht, hst, tc, mobile, pl, mhl):
    return [(4, nh), (4, 0), (4, ht), (4, hst), (8, tc), (1, mobile), (7, 0), (16, pl), (8, mhl), (8, 0)]


def gn_addr(mid: int, st: int = 5, m: int = 0):
    """real GNAddress object"""
    from flexstack.geonet.gn_address import GNAddress, M, ST, MID
    return GNAddress(m=M(m), st=ST(st), mid=MID(mid.to_bytes(6, "big")))


def addr_tuple(a) -> tuple:
    return (a.m.value, a.st.value, int.from_bytes(a.mid.mid, "big"))


def beacon_bytes(addr, tst, lat, lon, pai=1, s=0, h=0, lt_code=(60 << 2 | 1), mobile=1) -> bytes:
    a = addr_tuple(addr) if not isinstance(addr, tuple) else addr
    return pack(basic_fields(1, 1, lt_code, 1) + common_fields(0, 1, 0, 0, mobile, 0, 1)
                + lpv_fields(a, tst, lat, lon, pai, s, h))


def shb_bytes(addr, tst, lat, lon, payload: bytes, pai=1, s=0, h=0, nh=2, tc=0, lt_code=(60 << 2 | 1),
              mobile=1) -> bytes:
    a = addr_tuple(addr) if not isinstance(addr, tuple) else addr
    return pack(basic_fields(1, 1, lt_code, 1) + common_fields(nh, 5, 0, tc, mobile, len(payload), 1)
                + lpv_fields(a, tst, lat, lon, pai, s, h) + [(32, 0)]) + payload


def tsb_bytes(addr, sn, tst, lat, lon, payload, rhl=10, mhl=10, pai=1, s=0, h=0, nh=2, tc=0,
              lt_code=(60 << 2 | 1), mobile=1) -> bytes:
    a = addr_tuple(addr) if not isinstance(addr, tuple) else addr
    return pack(basic_fields(1, 1, lt_code, rhl) + common_fields(nh, 5, 1, tc, mobile, len(payload), mhl)
                + [(16, sn), (16, 0)] + lpv_fields(a, tst, lat, lon, pai, s, h)) + payload


def gbc_bytes(addr, sn, tst, lat, lon, area, payload, ht=4, hst=0, rhl=10, mhl=10, pai=1, s=0, h=0, nh=2,
              tc=0, lt_code=(60 << 2 | 1), mobile=1) -> bytes:
    """area = (lat, lon, a, b, angle); ht 4 = GBC, 3 = GAC"""
    a = addr_tuple(addr) if not isinstance(addr, tuple) else addr
    alat, alon, aa, ab, ang = area
    return pack(basic_fields(1, 1, lt_code, rhl) + common_fields(nh, ht, hst, tc, mobile, len(payload), mhl)
                + [(16, sn), (16, 0)] + lpv_fields(a, tst, lat, lon, pai, s, h)
                + [(32, alat), (32, alon), (16, aa), (16, ab), (16, ang), (16, 0)]) + payload


def guc_bytes(addr, sn, tst, lat, lon, de, payload, rhl=10, mhl=10, pai=1, s=0, h=0, nh=2, tc=0,
              lt_code=(60 << 2 | 1), mobile=1) -> bytes:
    """de = (addr_tuple, tst, lat, lon)"""
    a = addr_tuple(addr) if not isinstance(addr, tuple) else addr
    dea, dtst, dlat, dlon = de
    dea = addr_tuple(dea) if not isinstance(dea, tuple) else dea
    return pack(basic_fields(1, 1, lt_code, rhl) + common_fields(nh, 2, 0, tc, mobile, len(payload), mhl)
                + [(16, sn), (16, 0)] + lpv_fields(a, tst, lat, lon, pai, s, h)
                + spv_fields(dea, dtst, dlat, dlon)) + payload


def ls_request_bytes(addr, sn, tst, lat, lon, sought, rhl=10, mhl=10, pai=1, s=0, h=0, tc=0,
                     lt_code=(60 << 2 | 1), mobile=1) -> bytes:
    a = addr_tuple(addr) if not isinstance(addr, tuple) else addr
    so = addr_tuple(sought) if not isinstance(sought, tuple) else sought
    return pack(basic_fields(1, 1, lt_code, rhl) + common_fields(0, 6, 0, tc, mobile, 0, mhl)
                + [(16, sn), (16, 0)] + lpv_fields(a, tst, lat, lon, pai, s, h) + gn_addr_fields(*so))


def ls_reply_bytes(addr, sn, tst, lat, lon, de, rhl=10, mhl=10, pai=1, s=0, h=0, tc=0,
                   lt_code=(60 << 2 | 1), mobile=1) -> bytes:
    a = addr_tuple(addr) if not isinstance(addr, tuple) else addr
    dea, dtst, dlat, dlon = de
    dea = addr_tuple(dea) if not isinstance(dea, tuple) else dea
    return pack(basic_fields(1, 1, lt_code, rhl) + common_fields(0, 6, 1, tc, mobile, 0, mhl)
                + [(16, sn), (16, 0)] + lpv_fields(a, tst, lat, lon, pai, s, h)
                + spv_fields(dea, dtst, dlat, dlon))


def make_mib(local_mid: int, st: int = 5, **kw):
    from flexstack.geonet.mib import MIB
    params = dict(itsGnLocalGnAddr=gn_addr(local_mid, st), itsGnBeaconServiceRetransmitTimer=0)
    params.update(kw)
    return MIB(**params)


def make_router(ll, local_mid: int, default_hop_limit: int = 10, ego=None, st: int = 5, mib_kw=None,
                sign_service=None, verify_service=None):
    """A real Router on the virtual clock with fake timers and a capturing link layer."""
    from flexstack.geonet.router import Router
    patch_time()
    patch_router_timers()
    kw = dict(itsGnDefaultHopLimit=default_hop_limit)
    kw.update(mib_kw or {})
    mib = make_mib(local_mid, st, **kw)
    router = Router(mib, sign_service=sign_service, verify_service=verify_service)
    router.link_layer = ll
    if ego is not None:
        set_ego(router, *ego)
    return router


def set_ego(router, lat: int, lon: int, pai: bool = True, s: int = 0, h: int = 0, tst=None):
    """install an ego position vector given in wire units (1/10 micro-degree)"""
    from flexstack.geonet.position_vector import LongPositionVector, TST
    old = router.ego_position_vector
    router.ego_position_vector = LongPositionVector(
        gn_addr=old.gn_addr, tst=TST(msec=(VCLOCK.its_ms() if tst is None else tst) % 2 ** 32),
        latitude=lat, longitude=lon, pai=pai, s=s, h=h)


# ---- enumeration members BY NAME: the code points are those of EN 302 636-4-1; the implementation's numbering is not trusted
def header_type_by_name(ht: int):
    from flexstack.geonet.service_access_point import HeaderType
    return getattr(HeaderType, {1: "BEACON", 2: "GEOUNICAST", 3: "GEOANYCAST", 4: "GEOBROADCAST", 5: "TSB", 6: "LS"}[ht])


def shape_hst_by_name(ht: int, hst: int):
    """header sub-type of a GeoBroadcast (ht 4) / GeoAnycast (ht 3) packet for the shape code 0 circle, 1 rectangle, 2 ellipse"""
    from flexstack.geonet.service_access_point import GeoBroadcastHST, GeoAnycastHST
    if ht == 4:
        return getattr(GeoBroadcastHST, ["GEOBROADCAST_CIRCLE", "GEOBROADCAST_RECT", "GEOBROADCAST_ELIP"][hst])
    return getattr(GeoAnycastHST, ["GEOANYCAST_CIRCLE", "GEOANYCAST_RECT", "GEOANYCAST_ELIP"][hst])
