"""C09 - trust store closure and signer authorisation."""
from __future__ import annotations

import copy
import itertools
import json

from . import common
from . import sec_common as sc
from .stack import VCLOCK

PROP = "C09"
COQ_TARGETS = ["Properties/C09", "Extract/ExC09"]
MODEL_ML = "c09_model.ml"
MODEL_NAME = "c09"
TRUSTED_BASE = [
    "Coq 8.16.1 kernel (coqc); vm_compute only in the three Examples; no native_compute",
    "extraction (ExtrOcamlBasic only; Z/positive stay Coq datatypes) + ocaml/driver_body.ml + OCaml 4.13.1",
    "hand-written model coq/theories/Model/Sec.v (+ the specification notions of Model/SecSpec.v), tied to "
    "CertificateLibrary / Certificate / OwnCertificate / VerifyService by differential execution (this harness)",
    "ECDSA P-256 / SHA-256 are oracles of the model (sig_ok, hash8); the oracle table of each run is computed by the "
    "harness with the ecdsa and hashlib packages on OER bytes from its own asn1tools coder, not through FlexStack",
    "asn1tools OER codec, ecdsa, hashlib (third party, not modelled)",
    "Python harness harness/c09.py, harness/sec_common.py, harness/stack.py",
]
ASSUMPTIONS = [
    "the model is tied to the code by execution on the same histories, not by proof",
    "theorems hold for every hash8 / sig_ok; chains are followed through HashedId8 equality, and are chains between "
    "the very certificates when HashedId8 is collision free (C09_chain_if_collision_free)",
    "certificate validity periods are only compared with the generation time of messages (as the property states); "
    "expiry of CA certificates against the wall clock is not part of the property",
]
EXPLANATION = ("theorems by induction over all operation lists: store closure up to the configured roots, what SUCCESS of "
               "message verification implies (ticket in the closed store, ITS-AID permitted, generation time within "
               "validity, oracle accepted the signature over exactly the to-be-signed bytes, payload unchanged), soundness "
               "of the issuing API; correspondence with the real library on seeded histories mixing genuine, forged, "
               "re-signed, permission-escalated, wrongly-issued and expired certificates and messages")

U = [36, 37, 638, 139]
SUBSETS = [list(c) for n in range(len(U) + 1) for c in itertools.combinations(U, n)]


def now_s() -> int:
    return (VCLOCK.ms - sc.ITS_EPOCH_S * 1000 + 5000) // 1000


# ---------------------------------------------------------------------------
# history generation: a history is JSON: certs (hex OER), keys (hex secrets), ops

class World:
    def __init__(self, rng):
        self.rng = rng
        self.pki = sc.Pki(rng)
        self.certs = []      # records {"d","key","issuer","tag"}
        self.ops = []
        self.attacker = self.pki.new_key()

    def index(self, rec) -> int:
        return -1 if rec is None else rec["ix"]

    def add(self, d, key, issuer, tag):
        rec = {"d": d, "key": key, "issuer": issuer, "tag": tag, "ix": len(self.certs)}
        self.certs.append(rec)
        return rec

    def validity(self, mode="current"):
        n = now_s()
        if mode == "current":
            return n - 1000, ("hours", 24)
        if mode == "expired":
            return n - 10000, ("seconds", 5000)
        if mode == "future":
            return n + 5000, ("hours", 1)
        raise ValueError(mode)

    def mk(self, kind, issuer, app, issue, validity="current", sign="honest", issuer_field="true",
           key_form="uncompressed", idnone=None, ctype="explicit", name=None, tag="", version=3, ssp=False):
        """kind: root|aa|at ; issuer: record or None; validity: a mode of self.validity or (start_s, (unit, amount));
        ssp: the application permissions carry service specific permissions (as real tickets do)"""
        pki = self.pki
        key = pki.new_key()
        start, dur = validity if isinstance(validity, tuple) else self.validity(validity)
        if idnone is None:
            idnone = (kind == "at")
        tbs = sc.make_tbs(None if idnone else (name or f"{kind}{len(self.certs)}"), app, issue, start, dur,
                          pki.pub(key, key_form))
        if ssp and app:
            for k, e in enumerate(tbs["appPermissions"]):
                e["ssp"] = ("bitmapSsp", bytes([1, k, 0xFF])) if k % 2 == 0 else ("opaque", bytes([k, 9]))
        if kind == "root" or issuer is None:
            fld = ("self", "sha256")
            skey = key
        else:
            fld = ("sha256AndDigest", sc.hashed_id8(issuer["d"]))
            skey = issuer["key"] if issuer["key"] is not None else self.attacker
        if issuer_field == "self":
            fld = ("self", "sha256")
        elif issuer_field == "self384":
            fld = ("self", "sha384")
        elif issuer_field == "sha384":
            fld = ("sha384AndDigest", fld[1] if isinstance(fld[1], bytes) else b"\x01" * 8)
        elif issuer_field == "other" and self.certs:
            fld = ("sha256AndDigest", sc.hashed_id8(self.rng.choice(self.certs)["d"]))
        mode = "ok"
        if sign == "attacker":
            skey = self.attacker
        elif sign == "self":
            skey = key
        elif sign in ("flip_s", "flip_r", "compressed_r", "zero"):
            mode = sign
        d = sc.make_cert(pki, tbs, fld, skey, mode, ctype, version)
        return self.add(d, key, issuer, tag or f"{kind}/{sign}/{issuer_field}/{validity}/{key_form}/v{version}")

    def resign(self, rec, tag="resigned"):
        """same to-be-signed content, signature made with the attacker's key"""
        d = copy.deepcopy(rec["d"])
        d["signature"] = self.pki.sign(self.attacker, sc.enc_tbs_cert(d["toBeSigned"]))
        return self.add(d, rec["key"], rec["issuer"], tag)

    def repoint(self, rec, target, tag=None):
        """the SAME to-be-signed bytes and the SAME signature value as rec, but the (unsigned) issuer field names `target`
        (a record; None = self): what an attacker can build from any certificate it has seen, without any key"""
        d = copy.deepcopy(rec["d"])
        d["issuer"] = ("self", "sha256") if target is None else ("sha256AndDigest", sc.hashed_id8(target["d"]))
        return self.add(d, rec["key"], target, tag or f"repointed/{rec['tag']}/to/{'self' if target is None else target['tag']}")

    def graft(self, rec, what, tag=None):
        """the signature value (and issuer field) of rec on an ALTERED to-be-signed body: 'key' = the attacker's own subject key,
        'app' = other application permissions, 'validity' = a longer validity period, 'issue' = other issuing permissions"""
        d = copy.deepcopy(rec["d"])
        tbs = d["toBeSigned"]
        key = rec["key"]
        if what == "key":
            key = self.pki.new_key()
            tbs["verifyKeyIndicator"] = ("verificationKey", self.pki.pub(key))
        elif what == "app":
            old = [e["psid"] for e in tbs.get("appPermissions", [])]
            al = allowed_of(rec["issuer"]) if rec["issuer"] is not None else list(U)
            new = [p for p in al if p not in old][:1] + old[:1] or [37]
            tbs["appPermissions"] = [{"psid": p} for p in sorted(set(new))]
        elif what == "validity":
            unit, n = tbs["validityPeriod"]["duration"]
            tbs["validityPeriod"] = {"start": max(0, tbs["validityPeriod"]["start"] - 100000), "duration": (unit, n + 1000)}
        elif what == "issue":
            al = allowed_of(rec["issuer"]) if rec["issuer"] is not None else list(U)
            tbs["certIssuePermissions"] = [sc.issue_entry(al[-2:] or [36], 1)]
        else:
            raise ValueError(what)
        return self.add(d, key, rec["issuer"], tag or f"graft-{what}/{rec['tag']}")

    def template(self, app, issue, idnone=False):
        """unsigned request for the issuing API (as OwnCertificate.initialize_certificate builds it)"""
        key = self.pki.new_key()
        start, dur = self.validity("current")
        tbs = sc.make_tbs(None if idnone else f"req{len(self.certs)}", app, issue, start, dur, self.pki.pub(key))
        d = {"version": 3, "type": "explicit", "issuer": ("sha256AndDigest", (0xA495991B7852B855).to_bytes(8, "big")),
             "toBeSigned": tbs,
             "signature": ("ecdsaNistP256Signature", {"rSig": ("fill", None),
                                                      "sSig": (0xA495991B7852B855).to_bytes(32, "big")})}
        return self.add(d, key, None, "template")

    def op(self, *o):
        self.ops.append(list(o))

    def message(self, at, signer="digest", psid=36, gen="now", payload=b"payload", key="at", sig_mode="ok",
                extra=None, tamper=None, chain=None):
        if gen == "now":
            gen = sc.gen_time_us()
        k = at["key"] if key == "at" else self.attacker
        if signer == "digest":
            sg = ("digest", sc.hashed_id8(at["d"]))
        elif signer == "certificate":
            sg = ("certificate", [at["d"]] + [c["d"] for c in (chain or [])])
        elif signer == "empty":
            sg = ("certificate", [])
        else:
            sg = ("self", None)
        d = sc.signed_message(self.pki, k, sg, psid, gen, payload, extra, sig_mode, tamper)
        return sc.enc_data(d).hex()

    def history(self):
        return {"certs": [sc.enc_cert(r["d"]).hex() for r in self.certs],
                "tags": [r["tag"] for r in self.certs],
                "keys": [format(k.privkey.secret_multiplier, "x") for k in self.pki.keys],
                "cert_key": [r["key"] if r["key"] is not None else -1 for r in self.certs],
                "ops": self.ops, "clock_ms": VCLOCK.ms}


def rand_issue(rng, allow_none=True):
    r = rng.random()
    if allow_none and r < 0.15:
        return None
    if r < 0.45:
        return [("all", rng.randrange(0, 4))]
    ents = [(rng.choice(SUBSETS), rng.randrange(0, 4))]
    if rng.random() < 0.25:
        ents.append((rng.choice(SUBSETS), rng.randrange(0, 4)))
    return ents


def allowed_of(rec):
    ie = sc.issue_entries(rec["d"]) or []
    if any(x == "all" for x, _ in ie):
        return list(U)
    return sorted(set(p for x, _ in ie for p in x))


def gen_random_history(ctx, n_certs=26, n_ops=60):
    rng = ctx.rng
    w = World(rng)
    roots = [w.mk("root", None, [36], [("all", rng.randrange(1, 4))], tag="root/all"),
             w.mk("root", None, rng.choice(SUBSETS), [(rng.choice(SUBSETS[5:]), rng.randrange(0, 4))], tag="root/explicit")]
    for r in roots:
        r["good"] = True
    attacker_root = w.mk("root", None, [36, 37], [("all", 3)], tag="attacker-root")
    attacker_root["good"] = False
    for _ in range(n_certs):
        kind = rng.choice(["aa", "aa", "at", "at", "at"])
        cands = [c for c in w.certs if sc.issue_entries(c["d"]) is not None] or roots
        issuer = rng.choice(cands if rng.random() < 0.85 else w.certs)
        al = allowed_of(issuer)
        if rng.random() < 0.7:
            app = [p for p in al if rng.random() < 0.6] or al[:1]
        else:
            app = rng.choice(SUBSETS) if rng.random() < 0.8 else None
        if kind == "aa":
            if rng.random() < 0.6 and al:
                issue = [([p for p in al if rng.random() < 0.7] or al[:1], rng.randrange(0, 4))]
            else:
                issue = rand_issue(rng)
        else:
            issue = None if rng.random() < 0.92 else rand_issue(rng)
        r = rng.random()
        kw = {}
        if r < 0.6:
            pass
        elif r < 0.67:
            kw["sign"] = "attacker"
        elif r < 0.72:
            kw["sign"] = rng.choice(["flip_s", "flip_r", "compressed_r", "zero", "self"])
        elif r < 0.78:
            kw["issuer_field"] = rng.choice(["self", "self384", "sha384", "other"])
        elif r < 0.88:
            kw["validity"] = rng.choice(["expired", "future"])
        elif r < 0.92:
            kw["key_form"] = rng.choice(["compressed", "offcurve", "brainpool"])
        elif r < 0.95:
            kw["idnone"] = kind != "at"
        elif r < 0.97:
            kw["ctype"] = "implicit"
        elif r < 0.99:
            kw["version"] = rng.choice([2, 4, 131])
        rec = w.mk(kind, issuer, app, issue, **kw)
        rec["good"] = bool(issuer.get("good")) and not (set(kw) - {"validity"})
        if rng.random() < 0.08:
            w.resign(rec)["good"] = False
        # keyless forgeries from a certificate the station will (mostly) have verified by the time they are offered: the same
        # body and signature value under another stated issuer (preferably one whose issuing permissions cover it, so that
        # only the signature stands in the way), or the signature on an altered body
        y = rng.random()
        if y < 0.12 and rec["issuer"] is not None:
            need = set(sc.app_psids(rec["d"]) or []) | set(p for s_, _ in (sc.issue_entries(rec["d"]) or []) if s_ != "all" for p in s_)
            others = [c for c in cands if c is not rec["issuer"] and c is not rec]
            covering = [c for c in others if need <= set(allowed_of(c))]
            pool = covering if covering and rng.random() < 0.8 else others
            target = rng.choice(pool) if pool and rng.random() < 0.85 else None
            w.repoint(rec, target)["good"] = False
        elif y < 0.16:
            w.graft(rec, rng.choice(["key", "validity"]))["good"] = False
    # operations: first most certificates are offered in creation order (issuers first), then anything goes
    for r in roots:
        w.op("add_root", r["ix"], -1)
    plan = []
    for rec in w.certs[3:]:
        if rng.random() < 0.75:
            plan.append(("intro", rec))
    plan += [("any", None)] * n_ops
    for what, rec in plan:
        x = rng.random()
        if what == "intro":
            x = 0.1 if sc.issue_entries(rec["d"]) is not None else 0.3
        else:
            rec = rng.choice(w.certs)
        io = rec["issuer"]
        y = rng.random()
        if y < 0.08:
            io = None
        elif y < 0.14:
            io = rng.choice(w.certs)
        if x < 0.03:
            w.op("add_root", rec["ix"], w.index(io))
        elif x < 0.2:
            w.op("add_aa", rec["ix"], w.index(io))
        elif x < 0.36:
            w.op("add_at", rec["ix"], w.index(io))
        elif x < 0.4:
            w.op("add_own", rec["ix"], w.index(io))
        elif x < 0.52:
            chain = [rec]
            n = rng.choice([1, 1, 2, 2, 2, 3, 3, 0, 4])
            cur = rec
            while len(chain) < n:
                cur = cur["issuer"] if cur["issuer"] is not None and rng.random() < 0.9 else rng.choice(w.certs)
                chain.append(cur)
            w.op("verify_chain", [c["ix"] for c in chain[:n]])
        elif x < 0.92:
            ats = [c for c in w.certs if c["d"]["toBeSigned"]["id"][0] == "none"] or w.certs
            good = [c for c in ats if c.get("good")]
            at = rng.choice(good) if good and rng.random() < 0.75 else rng.choice(ats)
            appl = sc.app_psids(at["d"]) or []
            psid = rng.choice(appl) if appl and rng.random() < 0.8 else rng.choice(U + [99])
            s_us, e_us = sc.validity_us(at["d"])
            g = rng.random()
            if g < 0.45:
                gen = "now"
            elif g < 0.6:
                gen = rng.randrange(s_us, e_us + 1)
            elif g < 0.85:
                gen = rng.choice([s_us - 1, s_us, s_us + 1, e_us - 1, e_us, e_us + 1, 0, e_us + 10 ** 9])
            elif g < 0.95:
                gen = rng.randrange(max(0, s_us - 10 ** 9), e_us + 10 ** 9)
            else:
                gen = None
            kw = {}
            z = rng.random()
            if z < 0.1:
                kw["key"] = "attacker"
            elif z < 0.18:
                kw["sig_mode"] = rng.choice(["flip_s", "flip_r", "compressed_r", "zero"])
            elif z < 0.24:
                kw["tamper"] = "payload"
            elif z < 0.36:
                kw["extra"] = rng.choice(["genloc", "inline", "reqcert", "expiry", "learn", "crl"])
            sg = rng.choice(["digest"] * 8 + ["certificate"] * 8 + ["chain2", "empty", "self"])
            if psid == 37 and rng.random() < 0.85:
                sg = "certificate"
                if "extra" not in kw and rng.random() < 0.85:
                    kw["extra"] = "genloc"
            extra = None
            ex = kw.pop("extra", None)
            if ex == "genloc":
                extra = {"generationLocation": {"latitude": 413800000, "longitude": 21100000, "elevation": 0xF000}}
            elif ex == "inline":
                own = rng.choice(w.certs)
                extra = {"inlineP2pcdRequest": [sc.hashed_id8(own["d"])[-3:], b"\x01\x02\x03"]}
            elif ex == "reqcert":
                extra = {"requestedCertificate": rng.choice(w.certs)["d"]}
            elif ex == "expiry":
                extra = {"expiryTime": 5}
            elif ex == "learn":
                extra = {"p2pcdLearningRequest": b"\x01\x02\x03"}
            elif ex == "crl":
                extra = {"missingCrlIdentifier": {"cracaId": b"\x00\x00\x01", "crlSeries": 1}}
            tamper = None
            if kw.pop("tamper", None):
                def tamper(tbs):
                    tbs["payload"]["data"]["content"] = ("unsecuredData", b"tampered")
            chain = None
            if sg == "chain2":
                sg = "certificate"
                chain = [at["issuer"] or rng.choice(w.certs)]
            w.op("verify", w.message(at, sg, psid, gen, bytes([rng.randrange(256) for _ in range(rng.randrange(1, 12))]),
                                     extra=extra, tamper=tamper, chain=chain, **kw))
        else:
            issuers = [c for c in w.certs if c["key"] is not None and c["tag"] != "template"]
            iss = rng.choice(issuers)
            if rng.random() < 0.2:
                req = rng.choice(w.certs)
            else:
                al = allowed_of(iss)
                app = ([p for p in al if rng.random() < 0.6] or al[:1]) if rng.random() < 0.6 else rng.choice(SUBSETS)
                req = w.template(app, rand_issue(rng), idnone=rng.random() < 0.5)
            w.op("issue", req["ix"], iss["ix"], w.index(iss["issuer"]))
    return w.history()


def gen_perm_sweep(ctx, issuer_perm, subjects):
    """one issuer (under a root with 'all') and many honestly signed subjects"""
    w = World(ctx.rng)
    root = w.mk("root", None, [36], [("all", 3)], tag="root/all")
    iss = w.mk("aa", root, [36], issuer_perm, tag=f"issuer/{issuer_perm}")
    w.op("add_root", root["ix"], -1)
    w.op("add_aa", iss["ix"], root["ix"])
    for (app, issue) in subjects:
        kind = "at" if issue is None else "aa"
        s = w.mk(kind, iss, app, issue, tag=f"subject/{app}/{issue}")
        w.op("add_at" if kind == "at" else "add_aa", s["ix"], iss["ix"])
        if kind == "at" and app:
            w.op("verify", w.message(s, "digest", app[0]))
    return w.history()


def gen_budget_sweep(ctx, budget, explicit):
    """issuing API along a chain until the budget runs out"""
    w = World(ctx.rng)
    perm = [(U[:3], budget)] if explicit else [("all", budget)]
    root = w.mk("root", None, [36], perm, tag=f"root/budget{budget}")
    w.op("add_root", root["ix"], -1)
    return w, root


def gen_attacker_sweep(ctx):
    """attacker-built root / AA / AT chains and substitution of the attached issuer object"""
    w = World(ctx.rng)
    root = w.mk("root", None, [36], [("all", 2)], tag="root")
    aa = w.mk("aa", root, [36], [(U, 1)], tag="aa")
    at = w.mk("at", aa, [36, 37], None, tag="at")
    xroot = w.mk("root", None, [36], [("all", 2)], tag="attacker-root")
    xaa = w.mk("aa", xroot, [36], [("all", 1)], tag="attacker-aa")
    xat = w.mk("at", xaa, [36, 37], None, tag="attacker-at")
    # signed by the attacker's AA but naming the genuine AA / root as issuer
    sub_at = w.mk("at", xaa, [36], None, tag="attacker-at-naming-genuine-aa")
    sub_at["d"]["issuer"] = ("sha256AndDigest", sc.hashed_id8(aa["d"]))
    sub_aa = w.mk("aa", xroot, [36], [("all", 1)], tag="attacker-aa-naming-genuine-root")
    sub_aa["d"]["issuer"] = ("sha256AndDigest", sc.hashed_id8(root["d"]))
    # genuine to-be-signed content re-signed by the attacker
    re_at = w.resign(at, "at-resigned-by-attacker")
    re_aa = w.resign(aa, "aa-resigned-by-attacker")
    # genuine certificates altered in the (unsigned) version octet
    v_at = w.add({**copy.deepcopy(at["d"]), "version": 131}, at["key"], aa, "at-version-131")
    v_aa = w.add({**copy.deepcopy(aa["d"]), "version": 2}, aa["key"], root, "aa-version-2")
    for rec, adder, io in ((v_aa, "add_aa", root), (v_at, "add_at", aa), (v_at, "add_at", v_aa)):
        w.op(adder, rec["ix"], w.index(io))
    w.op("verify_chain", [v_at["ix"]])
    w.op("verify_chain", [at["ix"], v_aa["ix"]])
    w.op("verify", w.message(v_at, "certificate", 36))
    w.op("add_root", root["ix"], -1)
    w.op("add_aa", aa["ix"], root["ix"])
    for rec, adder in ((xaa, "add_aa"), (sub_aa, "add_aa"), (re_aa, "add_aa"), (xat, "add_at"), (sub_at, "add_at"),
                       (re_at, "add_at"), (xroot, "add_aa"), (xroot, "add_at")):
        for io in (xaa, xroot, aa, root, None, rec):
            w.op(adder, rec["ix"], w.index(io))
    for chain in ([xat, xaa, xroot], [xat, xaa], [xat], [sub_at], [sub_at, aa], [sub_at, xaa], [sub_at, xaa, root],
                  [re_at], [re_at, aa], [re_at, aa, root], [at, re_aa], [at, sub_aa], [at, sub_aa, root],
                  [at, aa, xroot], [at, aa, root], [at, aa], [at]):
        w.op("verify_chain", [c["ix"] for c in chain])
    for rec in (xat, sub_at, re_at, at):
        for signer in ("digest", "certificate"):
            for key in ("at", "attacker"):
                w.op("verify", w.message(rec, signer, 36, key=key))
    return w.history()


def gen_time_sweep(ctx):
    w = World(ctx.rng)
    root = w.mk("root", None, [36], [("all", 2)], tag="root")
    aa = w.mk("aa", root, [36], [(U, 1)], tag="aa")
    w.op("add_root", root["ix"], -1)
    w.op("add_aa", aa["ix"], root["ix"])
    for validity in ("current", "expired", "future"):
        at = w.mk("at", aa, [36, 37], None, validity=validity, tag=f"at/{validity}")
        w.op("add_at", at["ix"], aa["ix"])
        s, e = sc.validity_us(at["d"])
        for gen in (s - 1, s, s + 1, (s + e) // 2, e - 1, e, e + 1, "now", None, 0):
            for psid in (36, 638):
                for signer in ("digest", "certificate"):
                    w.op("verify", w.message(at, signer, psid, gen))
    return w.history()


# ---------------------------------------------------------------------------
# audit round: certificates that arrive inside messages as requestedCertificate, every Duration unit, ITS-AID encodings and
# SSP-bearing permissions, multi-entry issuers, the public issuing API (OwnCertificate.initialize_certificate)

def gen_reqcert_sweep(ctx):
    """verified messages of a genuine ticket holder that carry every kind of CA certificate as requestedCertificate, each
    followed by messages signed under the offered chain: nothing may enter the trusted roots / authorities in-band unless it
    verifies under an already trusted issuer"""
    w = World(ctx.rng)
    root = w.mk("root", None, [36], [("all", 3)], tag="root")
    aa = w.mk("aa", root, [36], [(U, 1)], tag="aa")
    at = w.mk("at", aa, U, None, tag="at")
    w.op("add_root", root["ix"], -1)
    w.op("add_aa", aa["ix"], root["ix"])
    w.op("add_at", at["ix"], aa["ix"])
    xroot = w.mk("root", None, [36], [("all", 3)], tag="attacker-root")
    xaa = w.mk("aa", xroot, [36], [("all", 1)], tag="attacker-aa")
    xat = w.mk("at", xaa, U, None, tag="attacker-at")
    xat_r = w.mk("at", xroot, U, None, tag="attacker-at-under-attacker-root")
    aa2 = w.mk("aa", root, [36], [(U[:2], 1)], tag="genuine-aa2-not-configured")
    at2 = w.mk("at", aa2, U[:2], None, tag="at-under-aa2")
    aa2x = w.resign(aa2, "aa2-resigned-by-attacker")
    at2x = w.mk("at", aa2x, U[:2], None, tag="at-under-resigned-aa2")
    sub_aa = w.mk("aa", xroot, [36], [("all", 1)], tag="attacker-aa-naming-genuine-root")
    sub_aa["d"]["issuer"] = ("sha256AndDigest", sc.hashed_id8(root["d"]))
    sub_at = w.mk("at", sub_aa, U, None, tag="at-under-attacker-aa-naming-genuine-root")
    esc = w.mk("aa", aa, [36], [(U + [99], 1)], tag="aa-escalated-under-explicit-aa")
    esc_at = w.mk("at", esc, [99], None, tag="at-under-escalated-aa")
    self_at = w.mk("at", None, U, None, issuer_field="self", sign="self", tag="self-signed-ticket")
    offered = [(xroot, [xat_r]), (xaa, [xat]), (aa2, [at2]), (aa2x, [at2x]), (sub_aa, [sub_at]), (esc, [esc_at]),
               (self_at, [self_at]), (root, []), (at, []), (xat, [])]
    for c, tickets in offered:
        for signer in ("digest", "certificate"):
            w.op("verify", w.message(at, signer, 36, extra={"requestedCertificate": c["d"]},
                                     payload=bytes([ctx.rng.randrange(256) for _ in range(5)])))
            for t in tickets:
                for sg in ("certificate", "digest"):
                    w.op("verify", w.message(t, sg, (sc.app_psids(t["d"]) or [36])[0]))
                w.op("verify_chain", [t["ix"]])
                w.op("add_at", t["ix"], c["ix"])
    # the same offers inside messages that do NOT verify (attacker key): nothing may be processed
    for c, _ in offered[:5]:
        w.op("verify", w.message(at, "digest", 36, key="attacker", extra={"requestedCertificate": c["d"]}))
    # inlineP2pcdRequest naming CA certificates the station holds / does not hold
    w.op("verify", w.message(at, "digest", 36, extra={"inlineP2pcdRequest": [sc.hashed_id8(x["d"])[-3:] for x in
                                                                              (root, aa, xroot, aa2, at)]}))
    return w.history()


# ---------------------------------------------------------------------------
# seed C09-11: the outcome of verifying a certificate must not depend on what was verified before. A certificate is the
# triple (issuer field, to-be-signed bytes, signature value); only the middle part is signed. From every genuine certificate
# it has seen an attacker can build, without any key, (a) the same body and signature under ANOTHER stated issuer (any CA the
# station trusts, or 'self'), (b) the same signature on an altered body. Both must stay out of the stores before AND after
# the genuine certificate has been verified, whichever route it was first verified by (add_*, chain, message signer).

def gen_transplant_sweep(ctx):
    rng = ctx.rng
    w = World(rng)
    root = w.mk("root", None, [36], [("all", 3)], tag="root")
    root2 = w.mk("root", None, [36], [(U, 2)], tag="root2/explicit")
    w.op("add_root", root["ix"], -1)
    w.op("add_root", root2["ix"], -1)
    aa1 = w.mk("aa", root, [36], [(U[:3], 1)], tag="aa1")
    aa2 = w.mk("aa", root, [36], [(U, 1)], tag="aa2")
    aa3 = w.mk("aa", root2, [36], [(U[:1], 1)], tag="aa3/narrow")
    parent = {id(aa1): root, id(aa2): root, id(aa3): root2}

    def offers(v, j, true_issuer, kind):
        """every route by which the variant v (stating issuer j) can reach the library"""
        adder = "add_at" if kind == "at" else "add_aa"
        out = [[(adder, v["ix"], w.index(j))],
               [(adder, v["ix"], w.index(true_issuer))],          # the caller attaches the object of the real signer
               [("verify_chain", [v["ix"]])],
               [("add_own", v["ix"], w.index(j))]]
        if kind == "at":
            psid = (sc.app_psids(v["d"]) or [36])[0]
            out.append([("verify", w.message(v, "certificate", psid))])
            if j is not None and id(j) in parent:
                out.append([("verify_chain", [v["ix"], j["ix"]])])
                out.append([("verify_chain", [v["ix"], j["ix"], parent[id(j)]["ix"]])])
                out.append([("verify", w.message(v, "certificate", psid, chain=[j]))])
            out.append([("verify", w.message(v, "digest", psid))])
        else:
            t = w.mk("at", v, U[:1], None, tag="at-under/" + v["tag"])
            out.append([("verify_chain", [t["ix"], v["ix"]])])
            out.append([("verify_chain", [t["ix"], v["ix"], root["ix"]])])
            out.append([("verify", w.message(t, "certificate", 36, chain=[v]))])
            out.append([("add_at", t["ix"], v["ix"]), ("verify", w.message(t, "digest", 36))])
        return out

    count = [0]

    def offer_all(v, j, true_issuer, kind, only_first=False):
        o = offers(v, j, true_issuer, kind)
        k = count[0] % len(o)            # each route gets to be the FIRST one that sees some variant
        count[0] += 1
        for group in (o[k:] + o[:k])[:1 if only_first else None]:
            for op in group:
                w.op(*op)

    def variants(rec, true_issuer, kind, targets, grafts, only_first=False):
        for j in targets:
            if j is not true_issuer and j is not rec:
                offer_all(w.repoint(rec, j), j, true_issuer, kind, only_first)
        for g in grafts:
            offer_all(w.graft(rec, g), true_issuer, true_issuer, kind, only_first)

    # authorities: cold (aa1 not yet verified by this station), then warm
    variants(aa1, root, "aa", [root2, None], ["key"], only_first=True)
    for a in (aa1, aa2, aa3):
        w.op("add_aa", a["ix"], parent[id(a)]["ix"])
    variants(aa1, root, "aa", [root2, aa2, aa3, None], ["key", "issue", "validity"])
    # tickets: three genuine ones, first verified by three different routes
    tickets = []
    for route in ("add", "message", "chain"):
        app = sorted(rng.sample(U[:3], rng.choice([1, 2])))
        tickets.append((w.mk("at", aa1, app, None, tag=f"at/warmed-by-{route}"), route))
    cas = [root, root2, aa2, aa3, None]
    for t, route in tickets:
        variants(t, aa1, "at", rng.sample(cas, 2), [rng.choice(["key", "app", "validity"])], only_first=True)   # cold
    for t, route in tickets:
        if route == "add":
            w.op("add_at", t["ix"], aa1["ix"])
        elif route == "message":
            w.op("verify", w.message(t, "certificate", sc.app_psids(t["d"])[0]))
        else:
            w.op("verify_chain", [t["ix"], aa1["ix"]])
    for t, route in tickets:
        variants(t, aa1, "at", cas, ["key", "app", "validity"])
    # the variants as roots: the configuration API must refuse what is not validly (self-)signed
    for rec in [c for c in w.certs if c["tag"].startswith("repointed/") and c["tag"].endswith("/to/self")]:
        w.op("add_root", rec["ix"], -1)
    return w.history()


UNITS = [("microseconds", 65535), ("microseconds", 0), ("milliseconds", 60000), ("seconds", 5000), ("minutes", 90),
         ("hours", 5), ("sixtyHours", 2), ("years", 1), ("years", 19), ("hours", 65535), ("years", 0)]


def gen_unit_sweep(ctx, units):
    """generation times around both ends of the validity period for tickets in every Duration unit (a year is 31556952 s),
    for tickets that were added beforehand (digest and certificate signer) and for tickets first seen in the message"""
    w = World(ctx.rng)
    root = w.mk("root", None, [36], [("all", 2)], tag="root")
    aa = w.mk("aa", root, [36], [(U, 1)], tag="aa")
    w.op("add_root", root["ix"], -1)
    w.op("add_aa", aa["ix"], root["ix"])
    n = now_s()
    for unit, amount in units:
        for start in (n - 1000, 0):
            at = w.mk("at", aa, [36, 37], None, validity=(start, (unit, amount)), tag=f"at/{unit}{amount}/start{start}")
            w.op("add_at", at["ix"], aa["ix"])
            s, e = sc.validity_us(at["d"])
            far = e + max(1, (e - s) // 300)
            for gen in (s - 1, s, e, e + 1, far):
                if gen < 0:
                    continue
                for signer in ("digest", "certificate"):
                    w.op("verify", w.message(at, signer, 36, gen))
                fresh = w.mk("at", aa, [36, 37], None, validity=(start, (unit, amount)), tag=f"fresh/{unit}{amount}/{gen - s}")
                w.op("verify", w.message(fresh, "certificate", 36, gen))
                w.op("verify", w.message(fresh, "digest", 36, gen))
    return w.history()


PSIDS = [0, 36, 127, 128, 292, 16383, 16384, 65572, 2097151, 2097152]


def gen_psid_sweep(ctx):
    """ITS-AIDs whose encoding takes one to four octets, values equal modulo 256 / 65536, ITS-AID 0; permissions with SSP"""
    w = World(ctx.rng)
    root = w.mk("root", None, [36], [("all", 3)], tag="root")
    w.op("add_root", root["ix"], -1)
    for allowed in (PSIDS[::2], PSIDS[1::2], [36], PSIDS):
        aa = w.mk("aa", root, [36], [(allowed, 1)], tag=f"aa/{allowed}", ssp=True)
        w.op("add_aa", aa["ix"], root["ix"])
        for p in PSIDS:
            for ssp in (False, True):
                at = w.mk("at", aa, [p], None, tag=f"at/{p}/under{allowed}", ssp=ssp)
                w.op("add_at", at["ix"], aa["ix"])
        both = w.mk("at", aa, allowed[:2], None, tag="at/two", ssp=True)
        w.op("add_at", both["ix"], aa["ix"])
        for p in PSIDS:
            w.op("verify", w.message(both, "digest" if p != 37 else "certificate", p))
        over = w.mk("at", aa, allowed[:1] + [PSIDS[3] if PSIDS[3] not in allowed else 777], None, tag="at/one-outside", ssp=True)
        w.op("add_at", over["ix"], aa["ix"])
        w.op("verify", w.message(over, "certificate", allowed[0]))
    return w.history()


# subjects whose issuing permissions have several entries: an 'all' entry in any position claims everything
MULTI_ENTRY_SUBJECTS = [([36], [([36], 1), ("all", 1)]), ([36], [("all", 1), ([36], 1)]), ([36], [([36], 1), ([37], 1)]),
                        ([36], [([36], 1), ([99], 1)]), ([36, 37], [([36], 2), ([37], 1), ("all", 1)])]
MULTI_ENTRY_ISSUERS = [[([36], 1), ([37, 638], 1)], [("all", 1), ([36], 1)], [([36], 1), ("all", 1)], [([36], 0), ([37], 1)],
                       [([36, 37], 2), ([638], 1), ([139], 3)]]


def init_api_history(ctx, root_perm, want_issue, levels):
    """the public issuing API, OwnCertificate.initialize_certificate(backend, to_be_signed, issuer), along a chain: root,
    `levels` subordinate authorities (each requesting `want_issue`), a ticket under every authority (one inside, one outside
    the authority's permissions). Every certificate it returns goes through the issuing oracle and is then offered to the
    library (add_aa / add_at + a message signed by the ticket holder), so that the store oracle and the model see it too."""
    from flexstack.security.certificate import OwnCertificate
    from flexstack.security.ecdsa_backend import PythonECDSABackend
    w = World(ctx.rng)
    be = PythonECDSABackend()
    orc = Oracle()
    n = now_s()

    def tbs(name, app, issue):
        return sc.make_tbs(name, app, issue, n - 1000, ("hours", 24), ("ecdsaNistP256", ("fill", None)))

    def init(t, issuer_rec, tag):
        inp = {"api": "OwnCertificate.initialize_certificate", "to_be_signed": repr(t)[:600],
               "issuer": None if issuer_rec is None else sc.enc_cert(issuer_rec["d"]).hex(), "tag": tag}
        ctx.count(1, "init_api:" + tag.split("/")[0])
        try:
            out = OwnCertificate.initialize_certificate(be, copy.deepcopy(t), None if issuer_rec is None else issuer_rec["own"])
        except Exception as e:  # noqa: BLE001  refused by raising
            ctx.dist["init_api_raised:" + type(e).__name__] = ctx.dist.get("init_api_raised:" + type(e).__name__, 0) + 1
            return None
        w.pki.keys.append(be.keys[out.key_id])
        rec = w.add(out.certificate, len(w.pki.keys) - 1, issuer_rec, "init_api/" + tag)
        rec["own"] = out
        if issuer_rec is not None:
            try:
                verifies = bool(out.verify(be))
            except Exception:  # noqa: BLE001
                verifies = False
            rec["verifies"] = verifies
            if verifies:
                orc.check_issued(ctx, out.certificate, issuer_rec["d"], inp)
                ctx.nontriv(("init_api", sc.enc_cert(out.certificate).hex()[:64]))
            ctx.dist["init_api:" + ("verifies" if verifies else "refused")] = \
                ctx.dist.get("init_api:" + ("verifies" if verifies else "refused"), 0) + 1
        return rec

    root = init(tbs("root", [36], root_perm), None, "root")
    if root is None:
        return None
    w.op("add_root", root["ix"], -1)
    cur = root
    for depth in range(levels):
        al = allowed_of(cur)
        inside = al[:2] or [36]
        outside = [p for p in U + [99] if p not in al][:1] or [99]
        for tag, app in (("ticket_inside", inside), ("ticket_outside", inside[:1] + outside)):
            t = init(tbs(None, app, None), cur, f"{tag}/depth{depth}")
            if t is not None:
                w.op("add_at", t["ix"], cur["ix"])
                w.op("verify", w.message(t, "certificate", app[0]))
        nxt = init(tbs(f"ca{depth}", [36], want_issue), cur, f"authority/depth{depth}")
        if nxt is None:
            break
        w.op("add_aa", nxt["ix"], cur["ix"])
        cur = nxt
    return w.history()


# ---------------------------------------------------------------------------
# execution of a history on the implementation (+ property oracle) and on the model

class Oracle:
    """independent reading of C09 on the implementation's own observations"""

    def __init__(self):
        self.link_cache = {}
        self.anch = set()
        self.configured = set()     # OER bytes of the certificates the operator configured through add_root_certificate

    def anchored(self, d, st, depth=0):
        enc = sc.enc_cert(d)
        if enc in self.anch:
            return True, ""
        # 'up to a configured root': the oracle's roots are the ones it saw being configured, not whatever the library holds
        roots = [v.certificate for v in st.lib.known_root_certificates.values() if sc.enc_cert(v.certificate) in self.configured]
        if any(sc.enc_cert(r) == enc for r in roots):
            self.anch.add(enc)
            return True, ""
        if depth > 8:
            return False, "store_unanchored"
        if d["issuer"][0] != "sha256AndDigest":
            return False, "store_unanchored"
        reason = "store_unanchored"
        cands = roots + [v.certificate for v in st.lib.known_authorization_authorities.values()]
        for i in cands:
            if sc.hashed_id8(i) != d["issuer"][1]:
                continue
            ok, why = sc.link_ok(d, i, self.link_cache)
            if not ok:
                reason = "store_" + why
                continue
            ok2, why2 = self.anchored(i, st, depth + 1)
            if ok2:
                self.anch.add(enc)
                return True, ""
            reason = why2
        return False, reason

    def check_store(self, ctx, st, inp):
        for k, v in st.lib.known_root_certificates.items():
            if sc.enc_cert(v.certificate) not in self.configured:
                ctx.property_failure("store_root_not_configured", inp, f"trusted root {k.hex()} was never configured through "
                                     "add_root_certificate: a trust anchor entered the store in-band")
        for name, dct in (("aas", st.lib.known_authorization_authorities), ("ats", st.lib.known_authorization_tickets)):
            for k, v in dct.items():
                ok, why = self.anchored(v.certificate, st)
                if not ok:
                    ctx.property_failure(why, inp, f"member of {name} (HashedId8 {k.hex()}) is not linked to a configured "
                                         f"root by verifying, permission-contained links", "closed store", why)
                if sc.hashed_id8(v.certificate) != k:
                    ctx.property_failure("store_key_mismatch", inp, "dictionary key is not the HashedId8 of the value")

    def check_accept(self, ctx, st, raw, confirm, inp):
        d = sc.dec_data(raw)
        sd = d["content"][1]
        tbs = sd["tbsData"]
        hi = tbs["headerInfo"]
        sg = sd["signer"]
        if sg[0] == "digest":
            obj = st.lib.known_authorization_tickets.get(sg[1])
            ticket = None if obj is None else obj.certificate
        else:
            ticket = sg[1][0] if len(sg[1]) >= 1 else None
        if ticket is None or sc.hashed_id8(ticket) not in st.lib.known_authorization_tickets:
            ctx.property_failure("accept_unknown_signer", inp, "SUCCESS although the signing ticket is not in the store")
            return
        ok, why = self.anchored(ticket, st)
        if not ok:
            ctx.property_failure("accept_" + why, inp, "SUCCESS under a ticket that is not chained to a configured root")
        app = sc.app_psids(ticket) or []
        if hi["psid"] not in app:
            ctx.property_failure("accept_psid_not_permitted", inp, "SUCCESS although the ITS-AID is not among the "
                                 "ticket's application permissions", app, hi["psid"])
        s, e = sc.validity_us(ticket)
        g = hi.get("generationTime")
        if g is None or not (s <= g <= e):
            ctx.property_failure("accept_outside_validity", inp, "SUCCESS although the generation time is outside the "
                                 "ticket's validity period", [s, e], g)
        xy, rs = sc.key_xy(ticket), sc.sig_rs(sd["signature"])
        if xy is None or rs is None or not sc.ecdsa_ok(xy, sc.enc_tbs_data(tbs), rs):
            ctx.property_failure("accept_bad_signature", inp, "SUCCESS although the signature does not verify over the "
                                 "to-be-signed bytes under the ticket's key")
        pl = tbs["payload"]["data"]["content"][1]
        if confirm.plain_message != pl:
            ctx.property_failure("accept_payload_differs", inp, "plain message differs from the signed payload",
                                 pl.hex(), bytes(confirm.plain_message).hex())

    def check_issued(self, ctx, res, i, inp):
        """res (dict) was obtained from the issuing API and verifies under its issuer i (dict)"""
        if not sc.perms_contained(res, i):
            ctx.property_failure("issue_perm_escalation", inp, "issued certificate verifies under its issuer although "
                                 "its permissions are not contained in the issuer's issuing permissions")
        ie = sc.issue_entries(i)
        if ie is None or any(n < 1 for _, n in ie):
            ctx.property_failure("issue_chain_budget", inp, "issued certificate verifies under its issuer although the "
                                 "issuer's remaining chain length does not allow issuing", ">= 1", ie)
        re = sc.issue_entries(res) or []
        if re and ie and max(n for _, n in re) > max(n for _, n in ie) - 1:
            ctx.property_failure("issue_chain_not_decreased", inp, "the issued certificate may itself issue with a chain "
                                 "length that is not below its issuer's", max(n for _, n in ie) - 1, re)
        if any(n < 1 for _, n in re):
            ctx.property_failure("issue_chain_not_decreased", inp, "the issued certificate carries an issuing entry with no "
                                 "chain length left", ">= 1", re)
        ok, why = sc.link_ok(res, i, self.link_cache)
        if not ok:
            ctx.property_failure("issue_verify_" + why, inp, "Certificate.verify accepts an issued certificate that the "
                                 "independent link check rejects")

    def check_issue(self, ctx, st, req_obj, iss_obj, res_obj, before, inp):
        try:
            after = bool(res_obj.verify(st.backend))
        except Exception:  # noqa: BLE001
            after = False
        if after and not before:
            i = iss_obj.certificate
            if not sc.perms_contained(res_obj.certificate, i) or not sc.perms_contained(req_obj.certificate, i):
                ctx.property_failure("issue_perm_escalation", inp, "issued certificate verifies under its issuer although "
                                     "its permissions are not contained in the issuer's issuing permissions")
            ie = sc.issue_entries(i)
            if ie is None or any(n < 1 for _, n in ie):
                ctx.property_failure("issue_chain_budget", inp, "issued certificate verifies under its issuer although the "
                                     "issuer's remaining chain length does not allow issuing", ">= 1", ie)
            re = sc.issue_entries(res_obj.certificate) or []
            if re and ie and max(n for _, n in re) > max(n for _, n in ie) - 1:
                ctx.property_failure("issue_chain_not_decreased", inp, "the issued certificate may itself issue with a chain "
                                     "length that is not below its issuer's", max(n for _, n in ie) - 1, re)
            ok, why = sc.link_ok(res_obj.certificate, i, self.link_cache)
            if not ok:
                ctx.property_failure("issue_verify_" + why, inp, "Certificate.verify accepts an issued certificate that the "
                                     "independent link check rejects")


def dec_cert(hexs):
    return sc.coder().decode("EtsiTs103097Certificate", bytes.fromhex(hexs))


def run_history(ctx, hist, kind):
    VCLOCK.set_ms(hist.get("clock_ms", VCLOCK.ms))
    reg = sc.Reg()
    pki = sc.Pki(ctx.rng)
    import ecdsa
    pki.keys = [ecdsa.SigningKey.from_secret_exponent(int(h, 16), curve=sc.CURVE) for h in hist["keys"]]
    certs = [dec_cert(h) for h in hist["certs"]]
    st = sc.Station(reg, pki)
    orc = Oracle()
    impl, flat_ops, msgs = [], [], []

    def cd(i):
        return None if i < 0 else certs[i]

    for k, o in enumerate(hist["ops"]):
        inp = {"history": {**hist, "ops": hist["ops"][:k + 1]}, "op_index": k, "op": o if o[0] != "verify" else ["verify", "..."]}
        name = o[0]
        res = None
        try:
            if name in ("add_root", "add_aa", "add_at", "add_own"):
                c, io = cd(o[1]), cd(o[2])
                obj = st.obj(c, io, own_key=(hist["cert_key"][o[1]] if name == "add_own" and hist["cert_key"][o[1]] >= 0 else None))
                flat_ops.append([{"add_root": 1, "add_aa": 2, "add_at": 3, "add_own": 4}[name], reg.cert(c), reg.opt(io)])
                if name == "add_root":
                    orc.configured.add(sc.enc_cert(c))      # the operator configures c as a trust anchor (it may be refused)
                getattr(st.lib, {"add_root": "add_root_certificate", "add_aa": "add_authorization_authority",
                                 "add_at": "add_authorization_ticket", "add_own": "add_own_certificate"}[name])(obj)
                res = ["unit"]
            elif name == "verify_chain":
                cs = [certs[i] for i in o[1]]
                flat_ops.append([5, len(cs)] + [reg.cert(c) for c in cs])
                r = st.lib.verify_sequence_of_certificates([copy.deepcopy(c) for c in cs], st.backend)
                res = ["chain", None] if r is None else ["chain", [reg.cert(r.certificate),
                                                                    -1 if r.issuer is None else reg.cert(r.issuer.certificate)]]
            elif name == "verify":
                raw = bytes.fromhex(o[1])
                m = reg.msg(raw)
                msgs.append(m)
                flat_ops.append([6] + reg.flat_msg(m))
                res, confirm = st.verify_bytes(raw)
                if res[0] == "crash":
                    res = ["crash"]
                elif res[1] == 0:
                    orc.check_accept(ctx, st, raw, confirm, inp)
                    ctx.nontriv(("accept", o[1][:64]))
            elif name == "issue":
                req, iss, ississ = certs[o[1]], certs[o[2]], cd(o[3])
                iss_obj = st.obj(iss, ississ, own_key=hist["cert_key"][o[2]])
                req_obj = st.obj(req, None)
                probe = st.obj(req, iss)
                try:
                    before = bool(probe.verify(st.backend))
                except Exception:  # noqa: BLE001
                    before = False
                op_ix = len(flat_ops)
                flat_ops.append(None)
                try:
                    out = iss_obj.issue_certificate(st.backend, req_obj)
                except Exception:  # noqa: BLE001
                    out = None
                if out is None:
                    flat_ops[op_ix] = [7, reg.cert(req), reg.cert(iss), 0, 0, 0]
                    res = ["crash"]
                else:
                    a = reg.abs[reg.cert(out.certificate) - 1]
                    flat_ops[op_ix] = [7, reg.cert(req), reg.cert(iss), a["dig"], a["tbs"], a["sig"]]
                    signed = int(sc.enc_cert(out.certificate) != sc.enc_cert(req))
                    res = ["cert", signed, list(a["issuer"]), a["app"],
                           None if a["issue"] is None else [[s if s == "all" else list(s), n] for s, n in a["issue"]]]
                    orc.check_issue(ctx, st, req_obj, iss_obj, out, before, inp)
                    if signed:
                        ctx.nontriv(("issue", hist["certs"][o[1]][:48], hist["certs"][o[2]][:48]))
            else:
                raise ValueError(name)
        except Exception as e:  # noqa: BLE001
            if res is None:
                res = ["crash"]
                if flat_ops and flat_ops[-1] is None:
                    flat_ops[-1] = [7, reg.cert(certs[o[1]]), reg.cert(certs[o[2]]), 0, 0, 0]
            ctx.dist["exc_" + type(e).__name__] = ctx.dist.get("exc_" + type(e).__name__, 0) + 1
        dump = st.dump()
        rk = "result:" + name + ":" + (sc.REPORT.get(res[1], str(res[1])) if res[0] == "verify" else
                                      ("found" if res[1] else "none") if res[0] == "chain" else
                                      ("signed" if res[1] else "refused") if res[0] == "cert" else res[0])
        ctx.dist[rk] = ctx.dist.get(rk, 0) + 1
        orc.check_store(ctx, st, inp)
        impl.append((res, dump))
        ctx.count(1, f"{kind}:{name}")
        if name.startswith("add") and any(o[1] >= 0 and reg.cert(certs[o[1]]) == row[1] for row in dump["aas"] + dump["ats"]):
            ctx.nontriv((name, hist["certs"][o[1]][:64], o[2]))
    # ---- model -------------------------------------------------------------
    if ctx.model is not None and ctx.model.available:
        args = reg.header(msgs) + [len(flat_ops)]
        for f in flat_ops:
            args += f
        reply = ctx.model.call(1, args)
        mod = sc.parse_history(reply)
        if len(mod) != len(impl):
            ctx.mismatch("history length", {"history": hist}, len(mod), len(impl))
            return
        for k, ((mr, ms), (ir, idump)) in enumerate(zip(mod, impl)):
            inp = {"history": {**hist, "ops": hist["ops"][:k + 1]}, "op_index": k}
            if norm(mr) != norm(ir):
                ctx.mismatch(f"result of {hist['ops'][k][0]} = Sec.step", inp, mr, ir)
                break
            if ms != idump:
                ctx.mismatch(f"store / sign-service state after {hist['ops'][k][0]} = Sec.step", inp, ms, idump)
                break
    if len(ctx.samples) < 6 and impl:
        k = len(impl) - 1
        ctx.sample({"kind": kind, "ops": len(impl), "last_op": hist["ops"][k][0], "last_result": impl[k][0],
                    "store_sizes": {n: len(impl[k][1][n]) for n in ("roots", "aas", "ats", "owns")}})


def norm(r):
    return json.loads(json.dumps(r))


def budget_history(ctx, budget, explicit):
    """root with chain budget b issues an authority, which issues the next one, ...: built by running the real API
    step by step (each issued certificate is the issuer of the next request)."""
    from flexstack.security.ecdsa_backend import PythonECDSABackend
    w, root = gen_budget_sweep(ctx, budget, explicit)
    be = PythonECDSABackend()
    cur = root
    for depth in range(budget + 2):
        req = w.template([36], [(U[:2], 1)] if depth < budget + 1 else None, idnone=False)
        w.op("issue", req["ix"], cur["ix"], w.index(cur["issuer"]))
        # run the real API here only to learn the issued certificate for the next round
        from flexstack.security.certificate import Certificate, OwnCertificate
        io = None if cur["issuer"] is None else Certificate(certificate=copy.deepcopy(cur["issuer"]["d"]), issuer=None)
        iss_obj = OwnCertificate(certificate=copy.deepcopy(cur["d"]), issuer=io, key_id=w.pki.import_into(be, cur["key"]))
        try:
            out = iss_obj.issue_certificate(be, Certificate(certificate=copy.deepcopy(req["d"]), issuer=None))
        except Exception:  # noqa: BLE001
            break
        nxt = w.add(out.certificate, req["key"], cur, f"issued/depth{depth}")
        w.op("add_aa", nxt["ix"], cur["ix"])
        at = w.template([36], None, idnone=True)
        w.op("issue", at["ix"], nxt["ix"], cur["ix"])
        cur = nxt
    return w.history()


def run(ctx):
    ctx.rule = ("histories of add-root/add-AA/add-AT/add-own/verify-chain/verify-message/issue calls on a real "
                "CertificateLibrary + VerifyService (+SignService) with the real ECDSA backend, replayed on the extracted "
                "model with an independently computed signature table; after every call the result and the four "
                "dictionaries (keys, values, attached issuers) and the P2PCD state are compared. Certificates: genuine, "
                "attacker-signed, re-signed, bit-flipped signatures, wrong/self/sha384 issuer fields, expired/future, "
                "compressed/off-curve keys, keyless variants of certificates verified earlier in the same history (same body and "
                "signature value under another stated issuer; old signature on an altered body), every issuer/subject PSID-set combination over {36,37,638,139}, chain budgets "
                "0..3. Non-trivial = a certificate entered a store, a message was accepted, or a certificate was issued; "
                "distinct by certificate/message bytes")
    sc.coder()
    for f in sorted(_corpus()):
        run_history(ctx, json.load(open(f)), "corpus")
    # boundary sweeps
    run_history(ctx, gen_time_sweep(ctx), "time_sweep")
    run_history(ctx, gen_attacker_sweep(ctx), "attacker_sweep")
    issuer_perms = [None, [("all", 1)]] + [[(s, 1)] for s in SUBSETS]
    if ctx.tier == "quick":
        subj = [(a, None) for a in SUBSETS] + [([36], [("all", 1)])] + [([36], [(s, 1)]) for s in SUBSETS[::2]]
    else:
        subj = [(a, None) for a in SUBSETS] + [(a, [("all", 1)]) for a in SUBSETS[::3]] + \
               [(a, [(s, 1)]) for s in SUBSETS for a in SUBSETS[::4]]
    for ip in issuer_perms:
        run_history(ctx, gen_perm_sweep(ctx, ip, subj), "perm_sweep")
    for b in range(0, 4):
        for explicit in (False, True):
            run_history(ctx, budget_history(ctx, b, explicit), "budget_sweep")
    # audit round
    quick = ctx.tier == "quick"
    run_history(ctx, gen_reqcert_sweep(ctx), "reqcert_sweep")
    run_history(ctx, gen_transplant_sweep(ctx), "transplant_sweep")
    run_history(ctx, gen_unit_sweep(ctx, [UNITS[i] for i in sorted(ctx.rng.sample(range(len(UNITS)), 4))] if quick else UNITS),
                "unit_sweep")
    run_history(ctx, gen_psid_sweep(ctx), "psid_sweep")
    for ip in MULTI_ENTRY_ISSUERS:
        run_history(ctx, gen_perm_sweep(ctx, ip, (subj if not quick else subj[::3]) + MULTI_ENTRY_SUBJECTS), "perm_sweep_multi")
    for ip in ([(U[:2], 1)], [(U, 1)], [("all", 1)]):
        run_history(ctx, gen_perm_sweep(ctx, ip, MULTI_ENTRY_SUBJECTS), "perm_sweep_multi")
    # issuers whose entries have MIXED budgets, one of them exhausted (only a self-signed authority can carry such entries):
    # the issuing API must refuse what the exhausted entry would have to allow
    for root_perm in ([(U[:2], 0), (U[2:], 2)], [(U[:1], 1), (U[1:], 0)], [(U[:2], 0), ("all", 1)]):
        for want in ([(U[:2], 1)], [(U[:1], 1), (U[1:3], 1)]):
            h = init_api_history(ctx, root_perm, want, 2)
            if h is not None:
                run_history(ctx, h, "init_api_mixed_budget")
    for root_perm in ([("all", 1)], [("all", 2)], [("all", 3)], [(U[:3], 1)], [(U[:3], 2)], [(U[:3], 3)],
                      [(U[:2], 2), (U[2:], 1)], [("all", 2), (U[:1], 1)]):
        for want in ([(U[:2], 1)], [("all", 1)], [(U[:1], 1), (U[1:3], 1)]):
            if quick and ctx.rng.random() < 0.7:
                continue
            h = init_api_history(ctx, root_perm, want, max(n for _, n in root_perm) + 1)
            if h is not None:
                run_history(ctx, h, "init_api")
    n = 14 if ctx.tier == "quick" else 150
    for _ in range(n):
        run_history(ctx, gen_random_history(ctx, n_certs=26 if ctx.tier == "quick" else 34,
                                            n_ops=60 if ctx.tier == "quick" else 90), "random")
    ctx.exhaustive = False


def _corpus():
    import glob
    import os
    return glob.glob(os.path.join(common.VERIF, "corpus", "C09", "*.json"))


def replay(ctx, data):
    common.use_repo_sources()
    f = data.get("failure") or (data.get("broken") or [{}])[-1].get("first")
    ctx.model = common.Model(MODEL_NAME)
    print(json.dumps({k: v for k, v in f.items() if k != "input"}, default=str)[:2000])
    if not (f.get("input") or {}).get("history"):
        # found by the oracle on OwnCertificate.initialize_certificate (no library history): regenerate from seed and tier
        ctx.rng.seed(data.get("seed", ctx.seed))
        ctx.tier = data.get("tier", "quick")
        run(ctx)
        want = f.get("class") or f.get("relation")
        hits = [r for r in ctx.failures + list(ctx.known_hits.values()) if r.get("class") == want]
        print("REPRODUCED" if hits else "NOT REPRODUCED")
        return 1 if hits else 0
    run_history(ctx, f["input"]["history"], "replay")
    bad = ctx.failures or ctx.mismatches or ctx.known_hits
    print("REPRODUCED" if bad else "NOT REPRODUCED")
    for r in (ctx.failures + ctx.mismatches + list(ctx.known_hits.values()))[:3]:
        print(json.dumps({k: v for k, v in r.items() if k != "input"}, default=str)[:1500])
    return 1 if bad else 0
