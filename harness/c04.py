"""C04 - no received frame can stop or derail the receive path."""
from __future__ import annotations

import json
import threading

from . import common
from . import router_sim as rs
from . import stack

PROP = "C04"
COQ_TARGETS = ["Properties/C04", "Extract/ExRouter"]
MODEL_ML = "router_model.ml"
MODEL_NAME = "router"
TRUSTED_BASE = [
    "Coq 8.16.1 kernel (coqc); no native_compute; vm_compute only in the Example",
    "extraction (ExtrOcamlBasic only) + ocaml/driver_body.ml + OCaml 4.13.1",
    "the model's receive function is total, so 'does not raise' is NOT a theorem: it is carried by the correspondence "
    "check (the implementation must return normally and leave the state untouched wherever the model discards)",
    "hand-written Model/Router.v tied to the code by differential execution; Python harness; a scripted socket object "
    "stands in for the AF_PACKET socket of RawLinkLayer (the real receive() loop runs in a real thread)",
]
ASSUMPTIONS = [
    "security disabled in the modelled station (secured envelopes are discarded because no verify service is configured); "
    "frames for a security-enabled station are exercised on the implementation only (no exception, no delivery)",
    "the C-V2X link layer needs a shared object that is not present offline; its callback loop has the same shape as the raw "
    "one and is exercised through the class without the native library when importable, otherwise skipped and said so",
    "facilities are wired without an LDM (CA, DEN, VRU reception managements on ports 2001/2002/2018)",
]
EXPLANATION = ("theorems: a frame that fails to parse or fails a header check (truncated, unknown enumeration value, wrong "
               "version, RHL > MHL, zero-sized area) returns the state unchanged with a single discard output, hence later frames "
               "are processed as if it had never been received; own frames are ignored. Correspondence: random octets, grammar-"
               "based frames and mutations of captured frames inside valid traffic, event by event against the model; the real "
               "RawLinkLayer.receive thread stays alive; facilities survive undecodable payloads")


# --------------------------------------------------------------------------- frame streams
def grammar_frames(rng, sc, n):
    """valid packets with one field pushed to a reserved / unknown / boundary value, or truncated / extended"""
    out = []
    kinds = ["beacon", "shb", "tsb", "gbc", "gac", "guc", "lsreq", "lsrep"]
    sizes = {"beacon": 36, "shb": 40, "tsb": 40, "gbc": 56, "gac": 56, "guc": 60, "lsreq": 48, "lsrep": 60}
    for _ in range(n):
        k = rng.choice(kinds)
        ev = sc.rx_event(k, rhl=rng.choice([1, 2, 5]), mhl=10)
        b = bytearray(ev["pkt"])
        how = rng.choice(["version", "basic_nh", "common_nh", "ht", "hst", "st", "rhl_gt_mhl", "rhl0", "trunc", "trunc_hdr",
                          "extend", "zero_area", "reserved", "lt", "flags", "pl", "secured", "valid"])
        if how == "version":
            b[0] = (rng.choice([0, 2, 15]) << 4) | (b[0] & 15)
        elif how == "basic_nh":
            b[0] = (b[0] & 0xF0) | rng.choice([0, 3, 7, 15])
        elif how == "common_nh":
            b[4] = (rng.choice([4, 7, 15]) << 4) | (b[4] & 15)
        elif how == "ht":
            b[5] = (rng.choice([0, 7, 8, 15]) << 4) | (b[5] & 15)
        elif how == "hst":
            b[5] = (b[5] & 0xF0) | rng.choice([2, 3, 7, 15])
        elif how == "st":
            off = 12 if k in ("beacon", "shb") else 16
            b[off] = (b[off] & 0x83) | (rng.choice([13, 14, 20, 31]) << 2)
        elif how == "rhl_gt_mhl":
            b[10] = rng.choice([0, 1, 5])
            b[3] = b[10] + rng.choice([1, 2, 200 - b[10]])
        elif how == "rhl0":
            b[3] = 0
        elif how == "trunc":
            b = b[:rng.randrange(0, len(b))]
        elif how == "trunc_hdr":
            cut = rng.choice([3, 4, 5, 11, 12, 13, sizes[k] - 1, sizes[k], sizes[k] + 1, 35, 36, 37])
            b = b[:max(0, cut)]
        elif how == "extend":
            b += bytes(rng.randrange(256) for _ in range(rng.choice([1, 7, 200])))
        elif how == "zero_area" and k in ("gbc", "gac"):
            b[48:50] = b"\x00\x00"
            if rng.random() < 0.5:
                b[50:52] = b"\x00\x00"
        elif how == "reserved":
            b[1] = rng.randrange(256)
            b[11] = rng.choice([0, 0, 1, 255])
            b[4] = (b[4] & 0xF0) | rng.randrange(16)
        elif how == "lt":
            b[2] = rng.randrange(256)
        elif how == "flags":
            b[7] = rng.randrange(256)
        elif how == "pl":
            b[8:10] = bytes([rng.randrange(256), rng.randrange(256)])
        elif how == "secured":
            b[0] = (b[0] & 0xF0) | 2
        ev = dict(ev)
        ev["pkt"] = bytes(b)
        ev["how"] = how
        out.append(ev)
    return out


def mutate(rng, pkt: bytes) -> bytes:
    b = bytearray(pkt)
    how = rng.choice(["flip", "flip", "sub", "trunc", "extend", "dupbytes"])
    if not b:
        return bytes([rng.randrange(256)])
    if how == "flip":
        for _ in range(rng.choice([1, 1, 2, 5])):
            i = rng.randrange(len(b))
            b[i] ^= 1 << rng.randrange(8)
    elif how == "sub":
        i = rng.randrange(len(b))
        b[i] = rng.choice([0, 255, 0x80, rng.randrange(256)])
    elif how == "trunc":
        b = b[:rng.randrange(len(b))]
    elif how == "extend":
        b += bytes(rng.randrange(256) for _ in range(rng.randrange(1, 40)))
    else:
        i = rng.randrange(len(b))
        b[i:i] = b[i:i + rng.randrange(1, 8)]
    return bytes(b)


def event_for_arbitrary_frame(sc, pkt: bytes, base_ev=None):
    """an rx event whose geometry tables cover whatever the frame may turn out to address"""
    st = sc.st
    ev = {"ev": "rx", "kind": "raw", "src": (0, 0, 0), "tst": 0, "pos": (0, 0), "rhl": 0, "mhl": 0, "pai": 0, "scf": 0,
          "pkt": pkt, "now": sc.now, "raw": True}
    # decode what we can with the reference layout to provide area / destination rows
    area, dests = None, {(0, 0)}
    if len(pkt) >= 56 and (pkt[5] >> 4) in (3, 4):
        lat = int.from_bytes(pkt[40:44], "big", signed=True)
        lon = int.from_bytes(pkt[44:48], "big", signed=True)
        a, b, ang = (int.from_bytes(pkt[48 + 2 * i:50 + 2 * i], "big") for i in range(3))
        area = (lat, lon, a, b, ang, pkt[5] & 15)
        dests.add((lat, lon))
        for off in (24, 28):
            pass
    if len(pkt) >= 60 and (pkt[5] >> 4) in (2, 6):
        dests.add((int.from_bytes(pkt[52:56], "big", signed=True), int.from_bytes(pkt[56:60], "big", signed=True)))
    # positions appearing in position vectors of the frame must have rows as well
    for off in (12, 16):
        if len(pkt) >= off + 20:
            st.positions.add((int.from_bytes(pkt[off + 12:off + 16], "big", signed=True),
                              int.from_bytes(pkt[off + 16:off + 20], "big", signed=True)))
    for x in sc.sources:
        dests.update(x.pos)
    if area is not None and (area[2] == 0 or area[5] > 2 or (area[5] != 0 and area[3] == 0)):
        area_for_tables = None
    else:
        area_for_tables = area
    ev["area"] = area_for_tables
    ev["dests"] = sorted(dests)
    return ev


def stream_history(ctx, n_valid, n_bad_kind):
    rng = ctx.rng
    rs.VCLOCK.set_ms(1_700_000_000_000 + rng.randrange(10 ** 8))
    st = rs.Station(area_alg=rng.choice(["SIMPLE", "CBF"]), ego=rng.choice([(413800000, 21100000), (-338688000, 1512093000)]))
    mix = {"beacon": 3, "shb": 3, "tsb": 3, "gbc": 3, "gac": 2, "guc": 3, "lsreq": 1, "lsrep": 1, "dup": 2, "tick": 2,
           "req_shb": 0, "req_geo": 0, "req_guc": 0, "cbf": 1, "ls": 0, "ego": 0}
    sc = rs.Scenario(rng, st, n_sources=3, mix=mix)
    valid = sc.build(n_valid)
    captured = [e["pkt"] for e in valid if e["ev"] == "rx"]
    bad = []
    for _ in range(n_bad_kind):
        bad.append(("random", bytes(rng.randrange(256) for _ in range(rng.choice([0, 1, 3, 4, 11, 12, 13, 36, 60, 200, 1500])))))
    for ev in grammar_frames(rng, sc, n_bad_kind * 2):
        bad.append(("grammar:" + ev["how"], ev["pkt"]))
    for _ in range(n_bad_kind * 2):
        if captured:
            bad.append(("mutation", mutate(rng, rng.choice(captured))))
    rng.shuffle(bad)
    # embed each bad frame at a random position of the valid stream
    evs = list(valid)
    for kind, pkt in bad:
        pos = rng.randrange(0, len(evs) + 1)
        now = next((e["now"] for e in evs[pos:] if e["ev"] == "rx"), sc.now)
        sc.now = now
        ev = event_for_arbitrary_frame(sc, pkt)
        ev["now"] = now
        ev["stream"] = kind
        evs.insert(pos, ev)
    # clock must not run backwards: recompute 'now' monotonically
    cur = None
    for e in evs:
        if e["ev"] == "rx":
            cur = e["now"] if cur is None else max(cur, e["now"])
            e["now"] = cur
    for e in evs:
        if e["ev"] == "rx" and e.get("raw"):
            e2 = event_for_arbitrary_frame(sc, e["pkt"])
            e["area"], e["dests"] = e2["area"], e2["dests"]
    impl, mtrace, skipped = rs.run_history(ctx, st, evs, relation="Router history with bad frames = Model.Router.run")
    # oracle: no exception; a frame the model discards without effect leaves the observable state unchanged
    prev = None
    j = 0
    for idx, (ev, obs) in enumerate(zip(evs, impl)):
        if ev["ev"] == "tick":
            continue
        m = mtrace[j] if mtrace else None
        j += 1
        if ev["ev"] == "rx":
            ctx.count(1, "frame_" + ev.get("stream", "valid").split(":")[0])
            inp = {"event_index": idx, "stream": ev.get("stream", "valid"), "frame": ev["pkt"].hex(), "now": ev["now"]}
            if obs["err"] is not None:
                ctx.property_failure("exception_escapes", inp, "an exception escaped from the receive path", None, obs["err"])
            if m is not None and m["discards"] and m["discards"][0] in (1, 2, 3, 4, 5, 6, 7, 10, 11):
                ctx.count(1, "discard_reason_%d" % m["discards"][0])
                if prev is not None and (rs.canon_state(obs["state"], True) != rs.canon_state(prev, True)
                                         or obs["sent"] or obs["inds"]):
                    ctx.property_failure("bad_frame_has_effect", inp, "a malformed frame changed the station's state or caused "
                                         "a transmission / delivery", "no effect",
                                         {"sent": len(obs["sent"]), "inds": len(obs["inds"])})
            if obs["inds"] or obs["sent"]:
                ctx.nontriv(("c04", ev["pkt"]))
        prev = obs["state"]
    return evs


# --------------------------------------------------------------------------- the real link-layer loop
class ScriptedSocket:
    def __init__(self, frames):
        self.frames = list(frames)
        self.sent = []

    def recv(self, n):
        if not self.frames:
            raise OSError("end of script")
        return self.frames.pop(0)

    def send(self, b):
        self.sent.append(b)

    def close(self):
        pass


def link_layer_loop(ctx, n_frames):
    import flexstack.linklayer.raw_link_layer as rll
    cls = rll.RawLinkLayer
    if not isinstance(cls, type):                     # the class is wrapped by the platform decorator
        cls = next(c.cell_contents for c in cls.__closure__ if isinstance(c.cell_contents, type))
    rng = ctx.rng
    rs.VCLOCK.set_ms(1_700_000_700_000)
    st = rs.Station(area_alg="SIMPLE")
    sc = rs.Scenario(rng, st, n_sources=3)
    my_mac = bytes.fromhex("0a0b0c0d0e01")
    other = bytes.fromhex("0a0b0c0d0e77")
    frames, expect_calls = [], 0
    valid = [e for e in sc.build(n_frames) if e["ev"] == "rx"]
    seq = []
    for e in valid:
        seq.append(("valid", e["pkt"]))
        r = rng.random()
        if r < 0.5:
            seq.append(("bad", mutate(rng, e["pkt"])))
        elif r < 0.7:
            seq.append(("bad", bytes(rng.randrange(256) for _ in range(rng.randrange(0, 80)))))
    delivered = []
    ll = cls.__new__(cls)
    ll.mac_address = my_mac

    def cb(pkt):
        delivered.append(pkt)
        st.router.gn_data_indicate(pkt)
    ll.receive_callback = cb
    want = []
    for kind, pkt in seq:
        r = rng.random()
        if r < 0.6:
            dst, src, passes = b"\xff" * 6, bytes(st_src(rng)), True
        elif r < 0.75:
            dst, src, passes = my_mac, other, True
        elif r < 0.87:
            dst, src, passes = b"\xff" * 6, my_mac, False          # our own transmission echoed back
        else:
            dst, src, passes = other, bytes(st_src(rng)), False      # addressed to another unicast address
        frames.append(dst + src + b"\x89\x47" + pkt)
        if passes:
            want.append(pkt)
    ll.sock = ScriptedSocket(frames)
    th = threading.Thread(target=ll.receive, daemon=True)
    th.start()
    th.join(timeout=60)
    ctx.count(len(frames), "link_layer_frames")
    inp = {"op": "raw_link_layer_loop", "frames": len(frames)}
    if th.is_alive():
        ctx.property_failure("loop_stuck", inp, "the receive loop did not finish the script", None, None)
    if ll.sock.frames:
        ctx.property_failure("loop_terminated", inp, "the receive loop stopped before all frames were read "
                             "(an exception ended the thread)", 0, len(ll.sock.frames))
    if delivered != want:
        ctx.property_failure("mac_filter", inp, "frames handed to the router differ from: addressed to us, or broadcast not sent by us",
                             len(want), len(delivered))
    ctx.nontriv(("loop", len(frames), len(want)))
    ctx.sample({"link_layer_script": {"frames": len(frames), "passed_mac_filter": len(want)}})


def cv2x_link_layer_loop(ctx, n_frames):
    """the two loops of PythonCV2XLinkLayer (receive_process -> queue -> callback_handler_loop) on a scripted stand-in for
    the native binding: every non-empty read must reach the callback with the technology byte stripped, in order, and the
    callback thread must only end on the stop signal"""
    import queue
    import sys
    import types
    name = "flexstack.linklayer.cv2xlinklayer"
    saved = sys.modules.get(name)
    stub = types.ModuleType(name)

    class CV2XLinkLayer:                                # stands in for the pre-compiled Qualcomm binding
        def __init__(self, *a, **k):
            pass

        def send(self, data):
            pass

        def receive(self):
            return b""
    stub.CV2XLinkLayer = CV2XLinkLayer
    sys.modules[name] = stub
    try:
        import importlib
        mod = importlib.import_module("flexstack.linklayer.cv2x_link_layer")
        cls = mod.PythonCV2XLinkLayer
        rng = ctx.rng
        rs.VCLOCK.set_ms(1_700_000_800_000)
        st = rs.Station(area_alg="SIMPLE")
        sc = rs.Scenario(rng, st, n_sources=3)
        script = []
        for e in [e for e in sc.build(n_frames) if e["ev"] == "rx"]:
            script.append(b"\x03" + e["pkt"])
            r = rng.random()
            if r < 0.35:
                script.append(b"\x03" + mutate(rng, e["pkt"]))
            elif r < 0.5:
                script.append(bytes(rng.randrange(256) for _ in range(rng.randrange(0, 60))))
            elif r < 0.6:
                script.append(rng.choice([b"", b"\x03", b"\x00", b"\x03\x00", b"\xff"]))   # boundary sizes
        script += [b"\x03", b"\x03" + script[0][1:]]      # a one-byte frame, then valid traffic again
        stop = threading.Event()
        pending = list(script)

        class Scripted:
            def receive(self_inner):
                if not pending:
                    stop.set()
                    return b""
                f = pending.pop(0)
                if not pending:
                    stop.set()
                return f
        ll = cls.__new__(cls)
        ll.link_layer = Scripted()
        delivered = []

        def cb(pkt):
            delivered.append(pkt)
            st.router.gn_data_indicate(pkt)
        ll.receive_callback = cb
        q = queue.Queue()
        inp = {"op": "cv2x_link_layer_loops", "frames": len(script)}
        try:
            ll.receive_process(q, stop)
        except Exception as e:  # noqa: BLE001
            ctx.property_failure("loop_terminated", inp, "the C-V2X receive process raised", None, f"{type(e).__name__}: {e}")
        queued = q.qsize()
        q.put(None)                                        # what stop() sends
        th = threading.Thread(target=ll.callback_handler_loop, args=(q,), daemon=True)
        th.start()
        th.join(timeout=60)
        want = [f[1:] for f in script if f]
        ctx.count(len(script), "cv2x_link_layer_frames")
        if th.is_alive():
            ctx.property_failure("loop_stuck", inp, "the C-V2X callback loop did not finish the script", None, None)
        if pending:
            ctx.property_failure("loop_terminated", inp, "the C-V2X receive process stopped before all frames were read", 0, len(pending))
        if delivered != want:
            k = next((i for i, (a, b) in enumerate(zip(delivered, want)) if a != b), min(len(delivered), len(want)))
            ctx.property_failure("loop_terminated" if len(delivered) < len(want) else "cv2x_delivery", inp,
                                 "frames handed to the router by the C-V2X link layer differ from the non-empty reads with the "
                                 "technology byte stripped (a frame ended the callback loop or was altered)",
                                 {"count": len(want), "first_difference_at": k, "frame": want[k].hex() if k < len(want) else None},
                                 {"count": len(delivered), "queued": queued})
        ctx.nontriv(("cv2x_loop", len(script), len(want)))
        ctx.sample({"cv2x_link_layer_script": {"reads": len(script), "delivered": len(delivered)}})
    finally:
        if saved is not None:
            sys.modules[name] = saved
        else:
            sys.modules.pop(name, None)
            sys.modules.pop("flexstack.linklayer.cv2x_link_layer", None)


def st_src(rng):
    return [0x0A, 0x0B, 0x0C, 0x0D, 0x10, rng.randrange(0, 4)]


# --------------------------------------------------------------------------- facilities behind BTP
def facilities(ctx, n):
    from flexstack.btp.router import Router as BTPRouter
    from flexstack.facilities.ca_basic_service.cam_coder import CAMCoder
    from flexstack.facilities.ca_basic_service.cam_reception_management import CAMReceptionManagement
    from flexstack.facilities.decentralized_environmental_notification_service.denm_coder import DENMCoder
    from flexstack.facilities.decentralized_environmental_notification_service.denm_reception_management import \
        DENMReceptionManagement
    from flexstack.facilities.vru_awareness_service.vam_coder import VAMCoder
    from flexstack.facilities.vru_awareness_service.vam_reception_management import VAMReceptionManagement
    import logging
    logging.disable(logging.CRITICAL)        # the reception managers log every undecodable payload with a traceback
    rng = ctx.rng
    rs.VCLOCK.set_ms(1_700_000_900_000)
    ll = stack.CaptureLL()
    router = stack.make_router(ll, local_mid=0x0A0B0C0D0E01, ego=(413800000, 21100000))
    btp = BTPRouter(router)
    CAMReceptionManagement(CAMCoder(), btp)
    DENMReceptionManagement(DENMCoder(), btp, None)
    VAMReceptionManagement(VAMCoder(), btp)
    got = []
    btp.register_indication_callback_btp(port=4242, callback=got.append)
    btp.freeze_callbacks()
    router.register_indication_callback(btp.btp_data_indication)
    src = (0, 5, 0x0A0B0C0D1234)
    tst = stack.VCLOCK.its_ms() % 2 ** 32
    good = 0
    for i in range(n):
        port = rng.choice([2001, 2002, 2018, 2001, 9999])
        payload = bytes(rng.randrange(256) for _ in range(rng.choice([0, 1, 2, 10, 60, 300])))
        nh = rng.choice([2, 2, 1, 0, 3])
        pkt = stack.shb_bytes(src, (tst + i) % 2 ** 32, 413800100, 21100100, stack.pack([(16, port), (16, 0)]) + payload, nh=nh)
        inp = {"op": "facility_payload", "port": port, "nh": nh, "frame": pkt.hex()}
        try:
            router.gn_data_indicate(pkt)
        except Exception as e:  # noqa: BLE001
            ctx.property_failure("exception_escapes", inp, "an undecodable facility payload raised into the receive path",
                                 None, f"{type(e).__name__}: {e}")
        # a well-formed frame afterwards must still reach its handler
        ok = stack.shb_bytes(src, (tst + i) % 2 ** 32, 413800100, 21100100, stack.pack([(16, 4242), (16, 7)]) + b"ping%d" % i)
        before = len(got)
        try:
            router.gn_data_indicate(ok)
        except Exception as e:  # noqa: BLE001
            ctx.property_failure("exception_escapes", inp, "valid frame after a bad payload raised", None, str(e))
        if len(got) != before + 1 or got[-1].data != b"ping%d" % i:
            ctx.property_failure("later_frame_lost", inp, "a well-formed frame after the bad one was not delivered to its handler",
                                 1, len(got) - before)
        else:
            good += 1
        ctx.count(1, "facility_port_%d" % port)
        ctx.nontriv(("fac", port, nh, payload))
    ctx.sample({"facility_payload_frames": n, "later_frames_delivered": good})


def secured_station(ctx, n):
    """security enabled without any trust material: nothing may be delivered, nothing may raise"""
    from flexstack.geonet.mib import GnSecurity
    rng = ctx.rng
    ll = stack.CaptureLL()
    router = stack.make_router(ll, local_mid=0x0A0B0C0D0E01, ego=(413800000, 21100000), mib_kw=dict(itsGnSecurity=GnSecurity.ENABLED))
    got = []
    router.register_indication_callback(got.append)
    src = (0, 5, 0x0A0B0C0D1235)
    for i in range(n):
        base = stack.shb_bytes(src, 1000 + i, 1, 1, b"\x07\xd1\x00\x00abc")
        b = bytearray(base)
        if rng.random() < 0.7:
            b[0] = (b[0] & 0xF0) | 2
            b[4:] = bytes(rng.randrange(256) for _ in range(rng.choice([0, 1, 5, 40, 200])))
        pkt = bytes(b)
        inp = {"op": "secured_station", "frame": pkt.hex()}
        try:
            router.gn_data_indicate(pkt)
        except Exception as e:  # noqa: BLE001
            ctx.property_failure("exception_escapes", inp, "a (non-parsing) secured or unsecured frame raised in a security-enabled station",
                                 None, f"{type(e).__name__}: {e}")
        ctx.count(1, "secured_station_frame")
    if got or ll.sent:
        ctx.property_failure("secured_station_delivery", {"op": "secured_station"}, "a security-enabled station without trust material "
                             "delivered or forwarded something", 0, len(got) + len(ll.sent))


def run(ctx):
    ctx.rule = ("streams of valid traffic (all packet types, 3 sources) with bad frames embedded at random positions: random octets "
                "(0..1500), grammar-based frames (one field set to a reserved / unknown / boundary value, truncation at every "
                "header boundary +-1, zero-sized areas, RHL > MHL, RHL 0, secured next-header) and mutations of captured frames "
                "(bit flips, substitutions, truncation, extension); every event is compared with the model and the state after a "
                "discarded frame must be unchanged; the real RawLinkLayer.receive thread and the two loops of PythonCV2XLinkLayer (native binding replaced by a scripted stand-in) are fed scripts of frames incl. boundary sizes; CA/DEN/VRU "
                "reception managers get undecodable payloads; non-trivial = the frame caused a transmission or delivery")
    rs.stack.patch_time()
    if ctx.tier == "quick":
        for _ in range(12):
            stream_history(ctx, 40, 12)
        link_layer_loop(ctx, 150)
        cv2x_link_layer_loop(ctx, 150)
        facilities(ctx, 120)
        secured_station(ctx, 150)
    else:
        for _ in range(250):
            stream_history(ctx, 60, 20)
        for _ in range(10):
            link_layer_loop(ctx, 400)
            cv2x_link_layer_loop(ctx, 400)
        facilities(ctx, 3000)
        secured_station(ctx, 3000)
    ctx.exhaustive = False


def replay(ctx, data):
    f = data.get("failure") or (data.get("broken") or [{}])[-1].get("first")
    print(json.dumps(f, default=str)[:3000])
    ctx.model = common.Model(MODEL_NAME)
    ctx.rng.seed(data.get("seed", 0))
    run(ctx)
    bad = ctx.failures or ctx.mismatches or ctx.known_hits
    print("REPRODUCED" if bad else "NOT REPRODUCED")
    return 1 if bad else 0
