"""C10 - CAM and VAM generation follow the timing and trigger rules of their standards."""
from __future__ import annotations

import datetime
import json
import math
import random as _real_random
import threading as _real_threading
import time as _real_time
from fractions import Fraction

from . import common
from .stack import VCLOCK, FakeTimer, ITS_EPOCH_MS, LEAP_MS

PROP = "C10"
COQ_TARGETS = ["Properties/C10", "Extract/ExC10"]
MODEL_ML = "c10_model.ml"
MODEL_NAME = "c10"
GENS = ["gen_c10"]
TRUSTED_BASE = [
    "Coq 8.16.1 kernel (coqc); vm_compute only in the refutation witnesses, examples and the check of the generated constants; no native_compute",
    "extraction (ExtrOcamlBasic only; Z/positive/Q stay Coq datatypes) + ocaml/driver_body.ml + OCaml 4.13.1",
    "hand-written models coq/theories/Model/CamGen.v, CamPath.v and VamGen.v, tied to the code by differential execution (this harness)",
    "translator tools/gen_c10.py (constants and literal thresholds of the working tree -> Gen/C10Consts.v)",
    "Python harness harness/c10.py, harness/stack.py (virtual clock, fake Timer); dateutil and asn1tools are used as they are",
]
ASSUMPTIONS = [
    "the models are tied to CAMTransmissionManagement / VAMTransmissionManagement by execution on the same operation sequences, not by proof",
    "time is virtual: TimeService.time returns the virtual clock plus a sub-millisecond phase, threading.Timer is replaced by a timer the harness fires (optionally late), random.uniform (initial delay) by a scripted value",
    "metric distances given to the model are computed by the harness (haversine, mean Earth radius 6 371 000 m) between the current report and the report of the previous CAM; the model refuses the input (desync) if that is not the report its own state refers to; decisions within 1 mm / 1e-9 of a threshold end the trajectory (no verdict)",
    "the path-point deltas round((h - current) * 1e7) given to the path-history model are computed by the harness with the code's float expression; the model refuses them (desync) if the stored points are not its own; the range -131071..131072 and the bounds 23 / 40 are constants of the message format written into Model/CamPath.v",
    "reports always carry `time`; the VAM scaling int(x*100) etc. enters the VAM model as the integer the harness computes with the same expression (C11 checks those mappings against an exact rational model)",
    "heading/speed/distance thresholds are compared in exact rationals (every double is one); the float subtraction of the code can differ only inside the excluded 1e-9 band",
]
EXPLANATION = ("theorems by induction over all operation sequences (start/stop/report/timer check; reports for the VAM "
               "service): minimum and maximum gap, responsiveness to dynamics, low-frequency container rule, silence "
               "outside activity, generationDeltaTime, T_GenCam invariant, every path point of the low-frequency container expressible in its "
               "type for every history and displacement; VAM first/min/max/LF with the min-gap clause "
               "refuted for dynamics triggers (known finding); correspondence with the real transmission managers on "
               "generated trajectories in virtual time")

R_EARTH = 6_371_000.0


# --------------------------------------------------------------------------- helpers

def iso_of_ms(ms: int) -> str:
    s, m = divmod(ms, 1000)
    return datetime.datetime.fromtimestamp(s, datetime.timezone.utc).strftime("%Y-%m-%dT%H:%M:%S") + ".%03dZ" % m


def its_of_utc_ms(ms: int) -> int:
    return ms - ITS_EPOCH_MS + LEAP_MS


def haversine_m(lat1, lon1, lat2, lon2) -> float:
    """independent great-circle distance (asin form)"""
    p1, p2 = math.radians(lat1), math.radians(lat2)
    h = math.sin((p2 - p1) / 2) ** 2 + math.cos(p1) * math.cos(p2) * math.sin(math.radians(lon2 - lon1) / 2) ** 2
    return 2 * R_EARTH * math.asin(min(1.0, math.sqrt(h)))


def ang_diff(a: float, b: float) -> float:
    d = abs(Fraction(a) - Fraction(b)) % 360
    return float(min(d, 360 - d))


def qpair(x) -> list:
    f = Fraction(x)
    return [f.numerator, f.denominator]


class _Shim:
    """stand-in for a module inside the module under test (threading / random / time): every attribute of the real
    module `base`, with the given ones replaced"""

    def __init__(self, base=None, **kw):
        if base is not None:
            self.__dict__.update({k: v for k, v in vars(base).items() if not k.startswith("__")})
        self.__dict__.update(kw)


class Btp:
    """BTP router stub. `fail_windows` = [[from_ms, to_ms], ...] (virtual clock, inclusive): a request made inside
    a window raises OSError, as a lower layer that is temporarily unavailable does; `fail_now` is a switch for
    the same (VAM scripts fail per report). Every refusal is recorded in `raised`."""

    def __init__(self, fail_windows=None):
        self.sent = []
        self.raised = []
        self.fail_windows = [tuple(w) for w in (fail_windows or [])]
        self.fail_now = False

    def btp_data_request(self, request):
        t = VCLOCK.ms
        if self.fail_now or any(a <= t <= b for (a, b) in self.fail_windows):
            self.raised.append(t)
            raise OSError("link layer temporarily unavailable (scripted)")
        self.sent.append((t, request.destination_port, bytes(request.data)))

    def register_indication_callback_btp(self, port, callback):
        self.callbacks = getattr(self, "callbacks", {})
        self.callbacks[port] = callback


class CoderSpy:
    """the repository's coder, recording every encode call that raised (the encoder is the environment of the
    transmission management: whether it accepted the message is an input of the model)"""

    def __init__(self, coder):
        self._coder = coder
        self.rejected = []

    def encode(self, msg):
        try:
            return self._coder.encode(msg)
        except Exception as e:
            self.rejected.append((VCLOCK.ms, type(e).__name__))
            raise

    def __getattr__(self, name):
        return getattr(self._coder, name)


class LdmAdapterStub:
    """stands for CABasicServiceLDM / VRUBasicServiceLDM (the adapter through which a service stores its own
    messages in the LDM); raises inside the scripted windows / while `fail_now`"""

    def __init__(self, fail_windows=None):
        self.added = []
        self.raised = []
        self.fail_windows = [tuple(w) for w in (fail_windows or [])]
        self.fail_now = False

    def add_provider_data_to_ldm(self, msg):
        t = VCLOCK.ms
        if self.fail_now or any(a <= t <= b for (a, b) in self.fail_windows):
            self.raised.append(t)
            raise RuntimeError("LDM refused the data object (scripted)")
        self.added.append(t)


# Malformed reports (outside what a GNSS daemon produces; the services must survive them). rep["bad"] names the
# corruption so that replays stay plain JSON. "enc": a CAM built from the report is rejected by the UPER encoder
# (value below the lower bound of its type); "build": building the message from the report raises.
BAD_KINDS = {
    "neg_speed": ("enc", {"speed": -1.0}),
    "lat_below": ("enc", {"lat": -91.5}),
    "lon_below": ("enc", {"lon": -181.25}),
    "nan_speed": ("build", {"speed": float("nan")}),
    "nan_track": ("build", {"track": float("nan")}),
    "nan_lat": ("build", {"lat": float("nan")}),
    "nan_alt": ("build", {"altHAE": float("nan")}),
    "inf_epx": ("build", {"epx": float("inf"), "epy": 1.0}),
    "bad_time": ("build", {"time": "not-a-time"}),
}
# kinds that leave heading / speed / position comparable (the dynamics evaluation of the code works on them and
# the model gets the same rationals); for the others Python's comparisons with NaN are all False, which the
# model stream expresses by marking the field absent
BAD_VAM_KINDS = ("nan_speed", "nan_track", "nan_lat", "nan_alt", "inf_epx", "bad_time")   # VAM: builder raises


def bad_fields(rep):
    """the corrupted TPV fields of a malformed report ({} for a well-formed one)"""
    return BAD_KINDS[rep["bad"]][1] if rep.get("bad") else {}


def model_rep(rep):
    """the report as the model (and the oracle) sees it: corrupted numeric fields replaced (negative speed etc.
    stay), NaN fields dropped"""
    b = bad_fields(rep)
    if not b:
        return rep
    r = dict(rep)
    for k, v in b.items():
        if k == "time":
            continue
        if isinstance(v, float) and (math.isnan(v) or math.isinf(v)):
            r.pop(k, None)
            if k in ("lat", "lon"):
                r["nanpos"] = True
        else:
            r[k] = v
    return r


_phase = [0.25]


def _vtime() -> float:
    return (VCLOCK.ms + _phase[0]) / 1000


def quiet_logs():
    """the services log every skipped transmission with a traceback (logging.exception): keep that off stderr"""
    import logging
    for n in ("ca_basic_service", "vru_basic_service"):
        lg = logging.getLogger(n)
        lg.propagate = False
        if not lg.handlers:
            lg.addHandler(logging.NullHandler())


def patch_env(initial_delay_box):
    """virtual time, fake timers and scripted initial delay, from outside the repository"""
    quiet_logs()
    from flexstack.utils import time_service
    import flexstack.facilities.ca_basic_service.cam_transmission_management as ctm
    time_service.TimeService.time = staticmethod(_vtime)
    ctm.TimeService.time = staticmethod(_vtime)
    ctm.threading = _Shim(_real_threading, Timer=FakeTimer)
    ctm.random = _Shim(_real_random, uniform=lambda a, b: min(b, max(a, initial_delay_box[0])))
    return ctm


_cam_coder = []


def cam_coder():
    if not _cam_coder:
        from flexstack.facilities.ca_basic_service.cam_coder import CAMCoder
        _cam_coder.append(CAMCoder())
    return _cam_coder[0]


_vam_coder = []


def vam_coder():
    if not _vam_coder:
        from flexstack.facilities.vru_awareness_service.vam_coder import VAMCoder
        _vam_coder.append(VAMCoder())
    return _vam_coder[0]


def tpv_of(rep: dict) -> dict:
    """rep: {"ts": utc ms, "lat","lon","track","speed","altHAE","epx","epy","epv","epd"} (optional keys absent)"""
    t = {"class": "TPV", "device": "/dev/ttyACM0", "mode": 3, "time": iso_of_ms(rep["ts"])}
    for k in ("lat", "lon", "track", "speed", "altHAE", "epx", "epy", "epv", "epd"):
        if k in rep:
            t[k] = rep[k]
    t.update(bad_fields(rep))
    return t


# --------------------------------------------------------------------------- CAM: run a script on the real code

def run_cam_script(script: dict):
    """script: {"kind":"cam","t0":ms,"phase":f,"jitter":[ms..],"station_type":n,"events":[[t,"start",delay_ms] |
    [t,"stop"] | [t,"report",rep]], "end": t}.  Returns the observation: ops (for the model and the oracle) with
    the CAMs the implementation produced at each of them."""
    delay_box = [0.0]
    ctm = patch_env(delay_box)
    _phase[0] = script.get("phase", 0.25)
    FakeTimer.reset()
    VCLOCK.set_ms(script["t0"])
    btp = Btp(script.get("btp_fail"))
    spy = CoderSpy(cam_coder())
    ldm = LdmAdapterStub(script.get("ldm_fail")) if script.get("ldm") else None
    vd = ctm.VehicleData(station_id=4242, station_type=script.get("station_type", 5), drive_direction="forward",
                         vehicle_length={"vehicleLengthValue": 42, "vehicleLengthConfidenceIndication": "unavailable"},
                         vehicle_width=18, vehicle_role=script.get("role", 0))
    if script.get("via_service"):
        # through the service object of ca_basic_service.py (start / stop are its methods); it gets the shared coder
        # (compiling the ASN.1 takes seconds) and, when the script asks for one, the LDM adapter stub
        import flexstack.facilities.ca_basic_service.ca_basic_service as cbs
        cbs.CAMCoder = cam_coder
        svc = cbs.CooperativeAwarenessBasicService(btp, vd, None)
        mgr = svc.cam_transmission_management
        mgr.cam_coder = spy
        mgr.ca_basic_service_ldm = ldm
    else:
        mgr = svc = ctm.CAMTransmissionManagement(btp, spy, vd, ldm)
    events = list(script["events"])
    jitter = script.get("jitter") or [0]
    ops = []            # dicts: {"op": "start"|"stop"|"report"|"check", "t": ms, ...}
    nfire = 0
    ei = 0
    end = script["end"]
    reports = []        # rep dicts by id
    errors = []

    def do_event(ev):
        t, what = ev[0], ev[1]
        VCLOCK.set_ms(max(VCLOCK.ms, t))
        n0 = len(btp.sent)
        if what == "start":
            delay_box[0] = ev[2] / 1000.0
            svc.start()
            ops.append({"op": "start", "t": VCLOCK.ms})
        elif what == "stop":
            svc.stop()
            ops.append({"op": "stop", "t": VCLOCK.ms})
        else:
            rep = ev[2]
            reports.append(rep)
            mgr.location_service_callback(tpv_of(rep))
            ops.append({"op": "report", "t": VCLOCK.ms, "rid": len(reports) - 1})
        ops[-1]["sent"] = btp.sent[n0:]

    while True:
        pend = [x for x in FakeTimer.registry if not x[2].cancelled and not x[2].fired]
        nxt = min(pend)[0] if pend else None
        fire_at = None if nxt is None else nxt + jitter[nfire % len(jitter)]
        ev_t = events[ei][0] if ei < len(events) else None
        if ev_t is not None and (fire_at is None or ev_t <= fire_at):
            if ev_t > end:
                break
            do_event(events[ei])
            ei += 1
            continue
        if fire_at is None or fire_at > end:
            break
        # fire exactly the earliest pending timer, possibly late
        due, _, tm = min(pend)
        FakeTimer.registry = [x for x in FakeTimer.registry if x[2] is not tm]
        VCLOCK.set_ms(max(VCLOCK.ms, fire_at))
        nfire += 1
        n0, r0, e0 = len(btp.sent), len(btp.raised), len(spy.rejected)
        l0 = len(ldm.raised) if ldm is not None else 0
        fail = []           # why no CAM could be handed over at this check (observed on the lower layers)
        try:
            tm.fire()
        except Exception as e:   # an exception escaping the timer callback kills that timer thread
            cur = reports[-1] if reports else None
            if cur is not None and cur.get("bad") and BAD_KINDS[cur["bad"]][0] == "build":
                # building a CAM from a malformed report raised (outside the Annex B.2.5 try block): the timer
                # has been re-armed by the `finally`, nothing was sent; judged as a failed hand-over
                fail.append("build:" + type(e).__name__)
            else:
                errors.append((VCLOCK.ms, type(e).__name__, str(e)[:200]))
        if len(spy.rejected) > e0:
            fail.append("encoder:" + spy.rejected[-1][1])
        if len(btp.raised) > r0:
            fail.append("lower_layer")
        ops.append({"op": "check", "t": VCLOCK.ms, "sent": btp.sent[n0:], "fail": fail,
                    "ldm_raised": (len(ldm.raised) - l0) if ldm is not None else 0,
                    "t_gen": getattr(mgr, "t_gen_cam", None), "n_cnt": getattr(mgr, "_n_gen_cam_counter", None)})
    return {"ops": ops, "reports": reports, "errors": errors, "pending_timers": len(FakeTimer.pending()),
            "intervals": [x[2] for x in FakeTimer.log if x[0] == "start"],
            "active": getattr(mgr, "_active", None),
            "ldm_added": list(ldm.added) if ldm is not None else None}


def decode_cam(data: bytes):
    d = cam_coder().decode(data)
    p = d["cam"]["camParameters"]
    rp = p["basicContainer"]["referencePosition"]
    hf = p["highFrequencyContainer"][1]
    path = None
    if "lowFrequencyContainer" in p:
        path = [[q["pathPosition"]["deltaLatitude"], q["pathPosition"]["deltaLongitude"]]
                for q in p["lowFrequencyContainer"][1]["pathHistory"]]
    return {"gdt": d["cam"]["generationDeltaTime"], "lf": "lowFrequencyContainer" in p, "path": path,
            "lat": rp["latitude"], "lon": rp["longitude"], "heading": hf["heading"]["headingValue"],
            "speed": hf["speed"]["speedValue"]}


def rep_matches(rep: dict, c: dict) -> bool:
    """does the decoded CAM/VAM carry the data of this report (gdt and position/heading/speed)?"""
    if c["gdt"] != its_of_utc_ms(rep["ts"]) % 65536:
        return False
    if "lat" in rep and abs(c["lat"] - rep["lat"] * 1e7) > 1.5:
        return False
    if "lon" in rep and abs(c["lon"] - rep["lon"] * 1e7) > 1.5:
        return False
    if "lat" not in rep and c["lat"] != 900000001:
        return False
    if "speed" in rep and c["speed"] not in (16382,) and abs(c["speed"] - rep["speed"] * 100) > 1.5:
        return False
    if "speed" not in rep and c["speed"] != 16383:
        return False
    if "track" in rep and abs((c["heading"] - rep["track"] * 10 + 1800) % 3600 - 1800) > 1.5:
        return False
    if "track" not in rep and c["heading"] != 3601:
        return False
    return True


def cut_cam(script, t):
    c = dict(script)
    c["events"] = [e for e in script["events"] if e[0] <= t]
    c["end"] = t
    return c


def cut_vam(script, i):
    c = dict(script)
    c["reports"] = script["reports"][:i + 1]
    return c


BAND_D = 1e-3
BAND = 1e-9


def analyse_cam(ctx, script, obs, tag):
    """property oracle on the implementation's observation + construction of the model's op stream"""
    ops, reports = obs["ops"], obs["reports"]
    cur_t = [script["end"]]

    def mk():
        """the failing input: the script cut right after the operation at which the oracle fails"""
        return {"script": cut_cam(script, cur_t[0])}
    for (t, name, msg) in obs["errors"]:
        cur_t[0] = t
        ctx.property_failure("cam_timer_exception", mk(), f"exception {name} escaped the T_CheckCamGen callback at {t}: {msg}")
    if obs.get("intervals") and max(obs["intervals"]) > 0.1 + 1e-9:
        # the gap bounds of the property are "plus one check period"; the period itself must not exceed T_GenCamMin
        ctx.property_failure("cam_check_period", mk(), "the service schedules its generation check later than T_GenCamMin "
                             "(100 ms) ahead", 0.1, max(obs["intervals"]))
    active = False
    cur = None              # id of the latest report
    last_cam = None         # dict(t, rid) of the last CAM of this activation
    last_lf_t = None
    first_pending = False
    prev_check_t = None
    max_spacing = 0         # largest spacing between consecutive checks since the last CAM (or since data/start)
    avail_since = None      # time since which the service is active with a report available
    stream = []             # model op stream (flat ints)
    impl_cams = []          # [opindex, time, lf, gdt, rid, t_gen, n_cnt]
    truncated = None
    ref_pos_rid = None      # report whose position the implementation stored at its last CAM
    ncams = 0
    hist = []               # reports (newest first, at most 40) of the CAMs with a position sent in this activation
    pstream = []            # op stream for the path-history model (Model/CamPath.v)
    impl_paths = []         # [opindex, [[deltaLatitude, deltaLongitude], ...]] per CAM with the low-frequency container
    for i, o in enumerate(ops):
        kind = o["op"]
        cur_t[0] = o["t"]
        sent = o["sent"]
        if kind != "check" and sent:
            ctx.property_failure("cam_sent_outside_check", mk(), f"a CAM was sent during `{kind}` at {o['t']}", 0, len(sent))
        if kind == "start":
            stream += [0]
            if not active:
                active = True
                last_cam = None
                last_lf_t = None
                first_pending = True
                ref_pos_rid = None
                prev_check_t = None
                max_spacing = 0
                avail_since = o["t"] if cur is not None else None
                hist = []
                pstream += [0]
            continue
        if kind == "stop":
            stream += [1]
            active = False
            avail_since = None
            continue
        if kind == "report":
            cur = o["rid"]
            rep = model_rep(reports[cur])
            stream += [2, cur, its_of_utc_ms(rep["ts"]), int("track" in rep)] + (qpair(rep["track"]) if "track" in rep else [0, 1]) \
                + [int(("lat" in rep and "lon" in rep) or bool(rep.get("nanpos"))), int("speed" in rep)] \
                + (qpair(rep["speed"]) if "speed" in rep else [0, 1])
            if active and avail_since is None:
                avail_since = o["t"]
                prev_check_t = None
                max_spacing = 0
            continue
        # ---- check
        t = o["t"]
        if not active or cur is None:
            if sent:
                ctx.property_failure("cam_outside_activity" if not active else "cam_without_position", mk(),
                                     f"CAM sent at {t} while the service was "
                                     + ("not active" if not active else "without position data"), 0, len(sent))
            stream += [3, t, -1, 0, 1]
            continue
        rep = model_rep(reports[cur])
        malformed = bool(rep.get("bad"))
        nanpos = bool(rep.get("nanpos"))       # position key present but NaN: the code's distance test is False
        haspos = "lat" in rep and "lon" in rep
        dist = 0.0
        if haspos and ref_pos_rid is not None:
            r0 = reports[ref_pos_rid]
            dist = haversine_m(r0["lat"], r0["lon"], rep["lat"], rep["lon"])
        own_fault = None
        if o.get("fail") and not malformed and all(w.startswith("encoder:") for w in o["fail"]):
            # The encoder refused a CAM although the latest report is well-formed and the lower layer was never
            # reached: the environment did nothing wrong - the service itself filled a field of the message with a
            # value outside its type (seed C10-11: a path point of the low-frequency container after a long report
            # outage). The service is active with position data, so the property's demands stand: this is an
            # ordinary check at which no CAM was generated (and an ordinary Check for the model).
            own_fault = o["fail"]
            ctx.count(1, "cam_unencodable_from_wellformed_report")
        if o.get("fail") and not own_fault:
            # No CAM could be handed over at this check (lower layer refused, or the message could not be built /
            # encoded from a malformed report): nothing the property demands of a check can be demanded here.
            # For the model it is a CheckFail; the property oracle goes on with unchanged expectations, i.e. the
            # low-frequency interval still runs from the last CAM that was really sent with the container, and
            # the spacing of the checks (max_spacing) now spans the failed one.
            for why in o["fail"]:
                ctx.count(1, "cam_failed_check_" + why.split(":")[0])
            if first_pending or last_lf_t is None or (t - last_lf_t) >= 500:
                ctx.count(1, "cam_failed_check_lf_due")
            if sent:
                ctx.property_failure("cam_sent_at_failed_check", mk(), f"a CAM was handed over at {t} although the "
                                     f"lower layers refused it ({o['fail']})", 0, len(sent))
            stream += [4, t]
            ctx.nontriv((tag, i, t, "failed"))
            continue
        # what the property demands at this check
        must = None
        ambiguous = False
        if last_cam is not None and not malformed:
            elapsed = t - last_cam["t"]
            r0 = reports[last_cam["rid"]]
            trig = []
            if "track" in rep and "track" in r0:
                # exact when the code's float subtractions are exact (always so for the dyadic streams)
                d1 = abs(rep["track"] - r0["track"])
                ex = Fraction(d1) == abs(Fraction(rep["track"]) - Fraction(r0["track"])) and \
                    (d1 <= 180.0 or Fraction(360.0 - d1) == 360 - Fraction(d1))
                trig.append((ang_diff(rep["track"], r0["track"]), 4.0, 0.0 if ex else BAND, "heading"))
            if haspos and "lat" in r0 and "lon" in r0:
                trig.append((haversine_m(r0["lat"], r0["lon"], rep["lat"], rep["lon"]), 4.0, BAND_D, "position"))
            if "speed" in rep and "speed" in r0:
                ex = Fraction(rep["speed"] - r0["speed"]) == Fraction(rep["speed"]) - Fraction(r0["speed"])
                trig.append((float(abs(Fraction(rep["speed"]) - Fraction(r0["speed"]))), 0.5, 0.0 if ex else BAND, "speed"))
            clear = [n for (v, thr, band, n) in trig if v > thr + band]
            near = [n for (v, thr, band, n) in trig if band > 0 and abs(v - thr) <= band]
            if elapsed >= 100 and near and not clear:
                ambiguous = True
            if haspos and ref_pos_rid is not None and abs(dist - 4.0) <= BAND_D and elapsed >= 100:
                ambiguous = True
            if elapsed >= 100 and clear:
                must = "dynamics:" + ",".join(clear)
        if ambiguous:
            truncated = i
            break
        stream += [3, t, ref_pos_rid if ref_pos_rid is not None else -1] + qpair(dist)
        if o.get("ldm_raised"):
            ctx.count(1, "cam_check_ldm_refused")
        if prev_check_t is not None:
            max_spacing = max(max_spacing, t - prev_check_t)
        elif avail_since is not None:
            max_spacing = max(max_spacing, t - max(avail_since, last_cam["t"] if last_cam else avail_since))
        prev_check_t = t
        if len(sent) > 1:
            ctx.property_failure("cam_duplicate", mk(), f"{len(sent)} CAMs at one check at {t}", 1, len(sent))
        if not sent:
            why = f" [the service built a CAM from the well-formed report {cur} that the encoder rejects: {own_fault}]" if own_fault else ""
            if must:
                ctx.property_failure("cam_not_responsive", mk(),
                                     f"no CAM at the check at {t}: {t - last_cam['t']} ms after the last CAM with {must}" + why,
                                     "CAM", None)
            if last_cam is not None and t - last_cam["t"] > 1000 + max_spacing:
                ctx.property_failure("cam_max_gap", mk(), f"no CAM for {t - last_cam['t']} ms at {t} (checks at most {max_spacing} ms apart)" + why,
                                     1000 + max_spacing, t - last_cam["t"])
            if last_cam is None:
                ctx.property_failure("cam_first_not_immediate", mk(), f"no CAM at the first check with position data after start ({t})" + why,
                                     "CAM", None)
            continue
        ncams += 1
        (ts_sent, port, data) = sent[0]
        if port != 2001:
            ctx.property_failure("cam_port", mk(), f"CAM sent to BTP port {port}", 2001, port)
        try:
            c = decode_cam(data)
        except Exception as e:
            ctx.property_failure("cam_undecodable", mk(), f"CAM sent at {t} does not decode: {type(e).__name__}: {e}")
            truncated = i
            break
        if last_cam is not None:
            gap = t - last_cam["t"]
            if gap < 100:
                ctx.property_failure("cam_min_gap", mk(), f"CAMs {gap} ms apart at {t}", 100, gap)
            if gap > 1000 + max_spacing:
                ctx.property_failure("cam_max_gap", mk(), f"CAMs {gap} ms apart at {t} (checks at most {max_spacing} ms apart)",
                                     1000 + max_spacing, gap)
        want_lf = first_pending or last_lf_t is None or (t - last_lf_t) >= 500
        if c["lf"] != want_lf:
            ctx.property_failure("cam_lf_rule", mk(),
                                 f"CAM at {t}: low-frequency container {'present' if c['lf'] else 'absent'}; "
                                 f"first={first_pending}, last LF at {last_lf_t}", want_lf, c["lf"])
        want_gdt = its_of_utc_ms(rep["ts"]) % 65536
        if c["gdt"] != want_gdt:
            ctx.property_failure("cam_gdt", mk(), f"CAM at {t}: generationDeltaTime {c['gdt']} for a report stamped {rep['ts']}",
                                 want_gdt, c["gdt"])
        rid = cur
        if not rep_matches(rep, c):
            rid = next((j for j in range(cur - 1, max(-1, cur - 200), -1) if rep_matches(reports[j], c)), -2)
            ctx.property_failure("cam_stale_report", mk(), f"CAM at {t} does not reflect the latest report {cur} (matches {rid})",
                                 cur, rid)
        if c["lf"]:
            last_lf_t = t
            # path history of the container: the stored points as the code's float expression sees them from the
            # current report (input of the model, which decides what is emitted), and what the CAM carries
            pstream += [2, i, int(haspos), len(hist[:23]) if haspos else 0]
            for j in (hist[:23] if haspos else []):         # no later point can be emitted (at most 23 are)
                pstream += [j, round((reports[j]["lat"] - rep["lat"]) * 10_000_000),
                            round((reports[j]["lon"] - rep["lon"]) * 10_000_000)]
            impl_paths.append([i, c["path"]])
            if haspos and hist:
                ctx.count(1, "cam_lf_path_cut_short_by_range" if len(c["path"]) < min(23, len(hist)) else "cam_lf_path_full")
        first_pending = False
        last_cam = {"t": t, "rid": cur}
        if haspos:
            ref_pos_rid = cur
            hist = ([cur] + hist)[:40]
            pstream += [1, cur]
        prev_check_t = t
        max_spacing = 0
        impl_cams.append([i, t, int(c["lf"]), c["gdt"], rid, o["t_gen"], o["n_cnt"]])
        ctx.nontriv((tag, i, t))
    if obs["pending_timers"] and obs["active"] is False and truncated is None:
        cur_t[0] = script["end"]
        ctx.property_failure("cam_timer_after_stop", mk(), "a T_CheckCamGen timer is still pending after stop()")
    nops = truncated if truncated is not None else len(ops)
    ctx.count(nops, "cam_ops_" + tag)
    return stream, impl_cams, ncams, truncated, pstream, impl_paths


def parse_cam_model(res):
    out, i = [], 0
    while i < len(res):
        if res[i] == 1:
            out.append(res[i + 1:i + 8])
            i += 8
        elif res[i] == 2:
            out.append(["desync"] + res[i + 1:i + 3])
            break
        else:
            out.append(["bad-input"] + res[i + 1:i + 2])
            break
    return out


def parse_path_model(res):
    out, i = [], 0
    while i < len(res):
        if res[i] == 1:
            m = res[i + 2]
            out.append([res[i + 1], [res[i + 3 + 2 * k:i + 5 + 2 * k] for k in range(m)]])
            i += 3 + 2 * m
        else:
            out.append([{2: "desync", 3: "bad-input"}.get(res[i], "?")] + res[i + 1:i + 3])
            break
    return out


def check_cam_scripts(ctx, scripts, tag):
    reqs, keep, preqs, pkeep = [], [], [], []
    for script in scripts:
        obs = run_cam_script(script)
        stream, impl_cams, ncams, trunc, pstream, impl_paths = analyse_cam(ctx, script, obs, tag)
        reqs.append((1, stream))
        preqs.append((3, pstream))
        keep.append((script, impl_cams, trunc))
        pkeep.append((script, impl_paths))
        if ncams:
            ctx.sample({"cam_script": {k: script[k] for k in ("t0", "end", "phase") if k in script},
                        "kind": script.get("gen"), "events": len(script["events"]), "cams": ncams,
                        "first_cams(opindex,time,lf,gdt,report,t_gen,n)": impl_cams[:3]}, cap=6)
    if not ctx.model.available:
        return
    for (script, impl_cams, trunc), res in zip(keep, ctx.model.batch(reqs)):
        mc = parse_cam_model(res)
        cmp_impl = [c for c in impl_cams]
        if mc != cmp_impl:
            # t_gen / n_cnt are private state: compare them only when the implementation exposes them
            strip = lambda l: [x[:5] for x in l]
            if any(c[5] is None or c[6] is None for c in impl_cams) and strip(mc) == strip(cmp_impl):
                continue
            k = next((j for j in range(min(len(mc), len(cmp_impl))) if mc[j] != cmp_impl[j]), min(len(mc), len(cmp_impl)))
            ctx.mismatch("CAMTransmissionManagement = CamGen.run (CAMs as opindex,time,lf,gdt,report,t_gen,n_cnt)",
                         {"script": script}, mc[max(0, k - 1):k + 2], cmp_impl[max(0, k - 1):k + 2],
                         f"first difference at CAM #{k}")
    for (script, impl_paths), res in zip(pkeep, ctx.model.batch(preqs)):
        mp = parse_path_model(res)
        if mp != impl_paths:
            k = next((j for j in range(min(len(mp), len(impl_paths))) if mp[j] != impl_paths[j]), min(len(mp), len(impl_paths)))
            ctx.mismatch("path history of the low-frequency container = CamPath.path_points (per CAM: opindex, [deltaLatitude, deltaLongitude]*)",
                         {"script": script}, mp[k:k + 1], impl_paths[k:k + 1],
                         f"first difference at low-frequency container #{k}")


# --------------------------------------------------------------------------- CAM: trajectory generators

def dy(k, den=64):
    return k / den


PATH_DELTA_LIMIT = 131072      # largest DeltaLatitude / DeltaLongitude of a path point [0.1 microdegree] (CDD), ~1.46 km north-south


OUTAGE_COMBOS = [(shape, sa, sb, None) for shape in ("lat", "lon", "both", "neither") for sa in (-1, 1) for sb in (-1, 1)]
# the displacement on one axis exactly at the limit: the point stored before the outage is the last one that can still be
# expressed ("in": offsets -131071 / +131072) or the first one that cannot ("out": -131072 / +131073); sign 0 = drawn
OUTAGE_BOUNDARY = [(shape, s if shape == "lat" else 0, s if shape == "lon" else 0, ex)
                   for shape in ("lat", "lon") for s in (-1, 1) for ex in ("in", "out")]


def plan_outage(rng, lat_deg: float, avail_ms: int, combo=None):
    """A report outage during which the vehicle keeps moving (tunnel, urban canyon, receiver restart): the property
    quantifies over gaps in reports of any length, so the displacement between the last report before and the first
    report after the gap ranges from metres to kilometres. Returns (duration ms, metres north, metres east, exact).
    The displacement is drawn per axis in units of 0.1 microdegree - the resolution in which a CAM expresses
    positions relative to the current one - from: zero / small / anywhere below / within +-3 units of / just
    beyond / far beyond the largest relative offset a CAM can carry. `combo` = (which axis goes beyond it: "lat"
    north-south only, "lon" east-west only, "both", "neither"; sign north; sign east; None or "in" / "out": that axis
    exactly at the last expressible / first inexpressible offset) - drawn when not given."""
    m_lat = math.radians(1e-7) * R_EARTH
    m_lon = m_lat * math.cos(math.radians(lat_deg))
    lim = PATH_DELTA_LIMIT

    def far():
        return rng.choice([lim + rng.randrange(-3, 4), lim + rng.randrange(-3, 4), lim + rng.randrange(4, 3000),
                           rng.randrange(lim + 3000, 5 * lim)])

    def nearby():
        return rng.choice([0, 0, rng.randrange(0, 3000), rng.randrange(0, lim - 3)])
    shape, sa, sb, exact = combo if combo is not None else rng.choice(OUTAGE_COMBOS)
    sa, sb = sa or rng.choice([-1, 1]), sb or rng.choice([-1, 1])

    def edge(sign):
        # a stored point lies -sign * units from the new position; expressible offsets are -131071 .. 131072
        return lim - 1 + (1 if sign < 0 else 0) + (1 if exact == "out" else 0)
    a = ((edge(sa) if exact else far()) if shape in ("lat", "both") else nearby()) * sa
    b = ((edge(sb) if exact else far()) if shape in ("lon", "both") else nearby()) * sb
    north, east = a * m_lat, b * m_lon
    dist = math.hypot(north, east)
    v = rng.choice([12, 25, 33, 50, 70, 90])              # m/s while out of sight
    if dist / v * 1000 > avail_ms:
        v = 90
    if dist / v * 1000 > avail_ms and not exact:            # not reachable in the time allowed: as far as 90 m/s gets
        k = avail_ms / (dist / v * 1000)
        north, east, dist = north * k, east * k, dist * k
    dur = max(int(dist / v * 1000), rng.choice([1500, 4000, 12000]))
    return (dur if exact else min(dur, max(avail_ms, 1500))), north, east, bool(exact)


def gen_cam_script(rng, kind: str, duration_ms: int, t0=None, outages=None, max_outage_ms=60_000):
    """A trajectory as a timed sequence of reports plus start/stop events. Values are dyadic (k/64) unless the
    kind says otherwise, so that the code's float arithmetic on them is exact.
    kind "outage": long gaps in the reports while the vehicle travels on (see plan_outage); `outages` = the
    combinations to go through (the script then ends a few seconds after the last one, at `duration_ms` at the
    latest), None = drawn at random until `duration_ms`."""
    if t0 is None:
        t0 = 1_600_000_000_000 + rng.randrange(0, 300_000_000_000)
    if kind == "gdtwrap":    # start shortly before the 65.536 s wrap of the ITS timestamp
        t0 += (65536 - its_of_utc_ms(t0) % 65536) - rng.randrange(200, 3000)
    rate = rng.choice([1, 2, 5, 10, 10, 20, 25, 50])
    period = 1000 // rate
    latency = rng.choice([0, 0, 3, 17, 40])
    lat0 = rng.choice([0.0, 41.387304, -33.9, 59.33, 69.65, -54.8]) + rng.randrange(-1000, 1000) / 1e4
    lon0 = rng.choice([2.112485, -70.6, 18.06, 179.9995, -179.9995, 0.0]) + rng.randrange(-1000, 1000) / 1e4
    x = y = 0.0                       # metres east / north of (lat0, lon0)
    speed = dy(rng.randrange(0, 40 * 64))
    track = dy(rng.randrange(0, 360 * 64))
    p_miss = {k: (rng.choice([0, 0, 0, 0.05, 0.5, 1.0]) if kind == "missing" else 0.0) for k in ("track", "speed", "pos")}
    if kind == "notrack":        # a receiver that never reports a course: no heading reference is ever stored
        p_miss["track"] = 1.0
    decimal = kind == "decimal"
    events = []
    bad_left, bad_kind = 0, None
    p_bad = {"badrep": 0.04, "chaos": 0.02, "badfirst": 0.0}.get(kind, 0.0)
    if kind == "badfirst":        # the service is started while the latest report is one no CAM can be built from
        bad_left, bad_kind = rng.choice([1, 3, 8, 30]), rng.choice(sorted(BAD_KINDS))
    t = t0 + rng.randrange(0, 1000)
    # start/stop plan
    plan = []
    if kind == "restart":
        tt = t0
        while tt < t0 + duration_ms:
            on = rng.choice([30, 150, 400, 1200, 5000, 20000])
            off = rng.choice([1, 20, 90, 250, 1500])
            plan.append((tt, "start", rng.randrange(0, 101)))
            if rng.random() < 0.15:
                plan.append((tt + rng.randrange(1, max(2, on)), "start", rng.randrange(0, 101)))   # start while active
            plan.append((tt + on, "stop"))
            if rng.random() < 0.15:
                plan.append((tt + on + 1, "stop"))
            tt += on + off
    else:
        plan.append((t0 + rng.randrange(0, 1500), "start", rng.randrange(0, 101)))
        if rng.random() < 0.3:
            plan.append((t0 + duration_ms - rng.randrange(0, 2000), "stop"))
    gap_until = 0
    mode_until = 0
    acc = 0.0
    turn = 0.0
    near_seq = [3.9, 3.99, 3.995, 4.005, 4.01, 4.1, 0.5, 7.9, 2.0, 2.005]
    out_left, out_dx, out_dy = 0, 0.0, 0.0                 # kind "outage": steps left without a report, metres per step
    hold_after, hold_left = 0, 0                           # ... and steps for which the vehicle then stands where it re-appeared
    next_outage = t + rng.choice([2500, 5000, 9000]) if kind == "outage" else 0
    todo = list(outages) if outages is not None else None
    while t < t0 + duration_ms:
        if kind == "gaps" and t >= gap_until and rng.random() < 0.02:
            gap_until = t + rng.choice([300, 1100, 2500, 7000])
        if kind == "outage" and out_left == 0 and t >= next_outage and todo is not None and not todo:
            duration_ms = t - t0              # every planned outage is done and was followed by some seconds of reports
            break
        if kind == "outage" and out_left == 0 and t >= next_outage and t0 + duration_ms - t > 8000:
            # long report outage on a straight leg; the report that ends it lies exactly the planned displacement
            # from the last report before it
            dur, north, east, exact = plan_outage(rng, lat0, min(max_outage_ms, t0 + duration_ms - t - 6000),
                                                  todo.pop(0) if todo else None)
            out_left = max(2, dur // period)
            # a displacement planned to the unit is met by the first report after the outage; the vehicle halts there
            # for 700 ms, turning on the spot (5 degrees per report: a CAM is due at every check), so that at any
            # report rate a CAM WITH the low-frequency container (at most 500 ms after the last one) is generated from
            # exactly that position
            hold_after = max(2, -(-700 // period)) if exact else 0
            out_dx, out_dy = east / out_left, north / out_left
            if north or east:
                track = math.floor(math.degrees(math.atan2(east, north)) % 360 * 64) / 64
                speed = min(90.0, math.floor(math.hypot(north, east) / (out_left * period / 1000) * 64) / 64)
            acc, turn = 0.0, 0.0
            mode_until = t + out_left * period + rng.choice([0, 1000, 4000])
            next_outage = t + out_left * period + rng.choice([3000, 5000, 9000, 15000])
        if t >= mode_until:
            mode_until = t + rng.choice([500, 2000, 5000, 15000])
            if kind in ("constant",):
                acc, turn = 0.0, 0.0
            elif kind == "accel":
                acc, turn = dy(rng.randrange(-6 * 64, 6 * 64)), 0.0
            elif kind == "turn":
                acc, turn = 0.0, dy(rng.randrange(-40 * 64, 40 * 64))
                if rng.random() < 0.3:
                    track = dy(rng.choice([0, 1, 358 * 64, 359 * 64 + 63, 360 * 64, 2 * 64]))
            elif kind == "stopgo":
                acc = dy(rng.choice([-8, -4, 0, 0, 3, 6]) * 64)
                turn = 0.0
            else:
                acc, turn = dy(rng.randrange(-3 * 64, 3 * 64)), dy(rng.randrange(-20 * 64, 20 * 64))
        dt = period / 1000
        if kind == "near":
            # stand still, jump by a distance close to the 4 m threshold, speed/heading steps close to theirs
            step = rng.choice(near_seq)
            ang = math.radians(rng.randrange(0, 360))
            x += step * math.sin(ang)
            y += step * math.cos(ang)
            speed = max(0.0, speed + rng.choice([0, 0, 0, dy(31), dy(32), dy(33), -dy(32), -dy(33)]))
            track = (track + rng.choice([0, 0, 0, dy(255), 4.0, dy(257), -dy(257)])) % 360
        elif out_left > 0:
            out_left -= 1
            x += out_dx
            y += out_dy
            if out_left == 0 and hold_after:
                hold_left, speed, acc = hold_after, 0.0, 2.0
        elif hold_left > 0:
            hold_left -= 1
            track = (track + 5.0) % 360
        else:
            speed = min(max(0.0, speed + math.floor(acc * dt * 64) / 64), 90.0)
            track = (track + math.floor(turn * dt * 64) / 64) % 360
            if kind == "turn" and rng.random() < 0.01:
                track = 360.0
            x += speed * dt * math.sin(math.radians(track))
            y += speed * dt * math.cos(math.radians(track))
        if t >= gap_until and out_left == 0:
            lat = lat0 + math.degrees(y / R_EARTH)
            lon = lon0 + math.degrees(x / (R_EARTH * math.cos(math.radians(lat0))))
            lon = (lon + 180.0) % 360.0 - 180.0
            rep = {"ts": t - latency}
            if rng.random() >= p_miss["pos"]:
                rep["lat"], rep["lon"] = lat, lon
            if rng.random() >= p_miss["track"]:
                rep["track"] = round(track, 2) if decimal else track
            if rng.random() >= p_miss["speed"]:
                rep["speed"] = round(speed, 3) if decimal else speed
            if rng.random() < 0.7:
                rep["altHAE"] = 120.5
            if rng.random() < 0.7:
                rep["epx"], rep["epy"] = 2.5, 3.25
            if rng.random() < 0.5:
                rep["epv"] = 4.0
            if rng.random() < 0.5:
                rep["epd"] = 1.5
            if bad_left == 0 and p_bad and rng.random() < p_bad:
                bad_left, bad_kind = rng.choice([1, 1, 1, 2, 4, 12]), rng.choice(sorted(BAD_KINDS))
            if bad_left > 0:
                # a malformed report (one, or a burst): every field its corruption needs is present
                bad_left -= 1
                rep["bad"] = bad_kind
                rep.setdefault("lat", lat)
                rep.setdefault("lon", lon)
                rep.setdefault("track", track)
                rep.setdefault("speed", speed)
            events.append([t, "report", rep])
        t += period if kind != "jitterrep" else max(1, period + rng.randrange(-period // 2, period // 2 + 1))
    events += [list(p) for p in plan]
    events.sort(key=lambda e: (e[0], {"stop": 0, "start": 1, "report": 2}[e[1]]))
    jit = [0]
    if rng.random() < 0.4:
        jit = [rng.choice([0, 0, 0, 1, 2, 5, 13, 40]) for _ in range(rng.randrange(1, 12))]
    script = {"kind": "cam", "gen": kind, "t0": t0, "phase": rng.choice([0.25, 0.05, 0.5, 0.9]), "jitter": jit,
              "station_type": rng.choice([5, 5, 2, 4, 15]), "events": events, "end": t0 + duration_ms}

    def windows(per_s):
        out = []
        for _ in range(max(1, int(duration_ms / 1000 * per_s))):
            a = t0 + rng.randrange(0, duration_ms)
            out.append([a, a + rng.choice([99, 99, 99, 40, 250, 600, 1500])])     # 99 ms: exactly one check
        return sorted(out)
    if kind in ("linkfail", "chaos"):
        script["btp_fail"] = windows(0.4 if kind == "linkfail" else 0.15)
    if kind in ("ldm", "chaos"):
        script["ldm"] = True
        script["ldm_fail"] = windows(0.3) if rng.random() < 0.8 else []
    if rng.random() < (0.6 if kind in ("restart", "chaos") else 0.25):
        script["via_service"] = True
    if kind in ("ldm", "chaos", "badrep") and rng.random() < 0.5:
        script["role"] = rng.choice([1, 5, 6, 9])      # a special-vehicle role: its container timer runs beside the LF one
    return script


def cams_of(obs):
    """(time, carries the low-frequency container) of every CAM of an observation"""
    out = []
    for o in obs["ops"]:
        for (_, _, data) in o.get("sent", []):
            try:
                out.append((o["t"], decode_cam(data)["lf"]))
            except Exception:
                pass
    return out


def target_redundant_starts(rng, script):
    """start() calls on the ALREADY ACTIVE service shortly after CAMs were sent (they must change nothing): the script is run
    once undisturbed through CooperativeAwarenessBasicService, then redundant starts are placed 5..95 ms after some CAMs"""
    s1 = dict(script)
    s1["via_service"] = True
    cams = cams_of(run_cam_script(s1))
    s2 = dict(s1)
    s2["gen"] = script.get("gen", "") + "+redundant_start"
    ev = [list(e) for e in script["events"]]
    for (t, _lf) in rng.sample(cams[1:], min(len(cams) - 1, rng.choice([2, 3, 5]))) if len(cams) > 1 else []:
        ev.append([t + rng.choice([5, 30, 55, 95]), "start", rng.randrange(0, 101)])
    ev.sort(key=lambda e: (e[0], {"stop": 0, "start": 1, "report": 2}[e[1]]))
    s2["events"] = ev
    return s2


def target_cam_failures(rng, script, what="btp_fail"):
    """Failures at chosen checks: the script is run once undisturbed, then the lower layer (or the LDM adapter) is
    made to fail exactly at checks that sent a CAM - preferably CAMs that carried the low-frequency container
    (not the first), the case in which a wrongly advanced container timer shows."""
    cams = cams_of(run_cam_script(script))
    lf = [t for (t, l) in cams[1:] if l]
    hf = [t for (t, l) in cams[1:] if not l]
    first = [cams[0][0]] if cams and rng.random() < 0.3 else []
    chosen = first + rng.sample(lf, min(len(lf), rng.choice([1, 2, 4]))) + rng.sample(hf, min(len(hf), rng.choice([0, 1, 2])))
    s2 = dict(script)
    s2["gen"] = script.get("gen", "") + "+targeted_" + what
    if what == "ldm_fail":
        s2["ldm"] = True
    s2[what] = sorted(list(script.get(what) or []) + [[t, t + rng.choice([0, 0, 99, 199])] for t in chosen])
    return s2


CAM_KINDS = ("constant", "accel", "turn", "stopgo", "missing", "notrack", "gaps", "restart", "near", "decimal", "gdtwrap",
             "mixed", "jitterrep")
# audit round: handed-over CAMs that fail (malformed reports, lower layer, LDM adapter)
CAM_FAIL_KINDS = ("badrep", "badfirst", "linkfail", "ldm", "chaos")


# --------------------------------------------------------------------------- VAM

class StubCluster:
    """duck-typed clustering manager: gate and cluster-operation container scripted by the harness"""

    def __init__(self):
        self.gate = True
        self.clop = False

    def should_transmit_vam(self):
        return self.gate

    def get_cluster_information_container(self):
        return None

    def get_cluster_operation_container(self):
        if self.clop:
            return {"clusterLeaveInfo": {"clusterId": 3, "clusterLeaveReason": "notProvided"}}
        return None


def decode_vam(data: bytes):
    d = vam_coder().decode(data)
    p = d["vam"]["vamParameters"]
    rp = p["basicContainer"]["referencePosition"]
    hf = p["vruHighFrequencyContainer"]
    return {"gdt": d["vam"]["generationDeltaTime"], "lf": "vruLowFrequencyContainer" in p,
            "clop": "vruClusterOperationContainer" in p,
            "lat": rp["latitude"], "lon": rp["longitude"], "heading": hf["heading"]["value"],
            "speed": hf["speed"]["speedValue"]}


def run_vam_script(script: dict):
    """script: {"kind":"vam","phase":f,"cluster":bool,"reports":[{"at":ms,"ts":ms,"gate":b,"clop":b, tpv fields}]}"""
    from flexstack.utils import time_service
    import flexstack.facilities.vru_awareness_service.vam_transmission_management as vtm
    _phase[0] = script.get("phase", 0.25)
    quiet_logs()
    time_service.TimeService.time = staticmethod(_vtime)
    vtm.TimeService.time = staticmethod(_vtime)
    btp = Btp()
    spy = CoderSpy(vam_coder())
    ldm = LdmAdapterStub() if script.get("ldm") else None
    stub = StubCluster() if script.get("cluster", True) else None
    mgr = vtm.VAMTransmissionManagement(btp, spy, vtm.DeviceDataProvider(station_id=77, station_type=1),
                                        vru_basic_service_ldm=ldm, clustering_manager=stub)
    obs = []
    for rep in script["reports"]:
        VCLOCK.set_ms(rep["at"])
        if stub is not None:
            stub.gate, stub.clop = bool(rep.get("gate", True)), bool(rep.get("clop", False))
        btp.fail_now = bool(rep.get("linkfail"))          # the lower layer raises if a VAM is handed over now
        if ldm is not None:
            ldm.fail_now = bool(rep.get("ldmfail"))
        n0, r0, e0 = len(btp.sent), len(btp.raised), len(spy.rejected)
        l0 = len(ldm.raised) if ldm is not None else 0
        err = None
        fail = []
        try:
            mgr.location_service_callback(tpv_of(rep))
        except Exception as e:
            err = f"{type(e).__name__}: {e}"
            if rep.get("bad"):
                fail.append("build:" + type(e).__name__)
        if len(spy.rejected) > e0:
            fail.append("encoder:" + spy.rejected[-1][1])
        if len(btp.raised) > r0:
            fail.append("lower_layer")
        if ldm is not None and len(ldm.raised) > l0:
            fail.append("ldm")
        obs.append({"sent": btp.sent[n0:], "err": err, "fail": fail})
    return obs


def vam_codes(rep):
    """the integers the VAM builder writes for this report (same float expressions as the code; C11 checks them
    against the exact rational model)"""
    if rep.get("bad"):
        return 900000001, 1800000001, 16383, 3601      # never written into a VAM: the builder raises
    latc = int(rep["lat"] * 10000000) if "lat" in rep else 900000001
    lonc = int(rep["lon"] * 10000000) if "lon" in rep else 1800000001
    spc = 16383
    if "speed" in rep:
        spc = 16382 if int(rep["speed"] * 100) > 16381 else int(rep["speed"] * 100)
    trc = int(rep["track"] * 10) % 3600 if "track" in rep else 3601
    return latc, lonc, spc, trc


def analyse_vam(ctx, script, obs, tag):
    cur_i = [0]

    def mk():
        return {"script": cut_vam(script, cur_i[0])}

    reps = script["reports"]
    has_stub = script.get("cluster", True)
    stream = []
    impl = []
    last = None          # last VAM: dict(i, ts, at)
    last_lf_at = None
    gate_closed_since_last = False
    max_sp = 0
    prev_at = None
    for i, (rep, o) in enumerate(zip(reps, obs)):
        cur_i[0] = i
        gate = bool(rep.get("gate", True)) or not has_stub
        clop = bool(rep.get("clop", False)) and has_stub
        latc, lonc, spc, trc = vam_codes(rep)
        failed = bool(o.get("fail"))
        if failed and not rep.get("bad") and all(w.startswith("encoder:") for w in o["fail"]):
            # the encoder refused a VAM built from a well-formed report and the lower layer was never reached: not a
            # failure of the environment but a message the service filled wrongly - an ordinary report for the oracle
            # (the exception that left the callback is reported, every demand stands) and for the model
            failed = False
            ctx.count(1, "vam_unencodable_from_wellformed_report")
        haspos = "lat" in rep and "lon" in rep
        stream += [its_of_utc_ms(rep["ts"]), rep["at"], int(gate), int(clop), int(haspos)] \
            + (qpair(rep["lat"]) + qpair(rep["lon"]) if haspos else [0, 1, 0, 1]) + [latc, lonc] \
            + [int("speed" in rep)] + (qpair(rep["speed"]) if "speed" in rep else [0, 1]) + [spc] \
            + [int("track" in rep)] + (qpair(rep["track"]) if "track" in rep else [0, 1]) + [trc] + [int(failed)]
        sent = o["sent"]
        if failed:
            # No VAM could be handed over for this report (the builder raised on a malformed report, or the LDM
            # adapter / encoder / lower layer raised): the exception leaves the callback (the caller's business),
            # nothing is sent and the property's expectations stay as they were - the low-frequency interval
            # still runs from the last VAM that really carried the container, and the report spacing (max_sp)
            # now spans this report.
            for why in o["fail"]:
                ctx.count(1, "vam_failed_report_" + why.split(":")[0])
            if gate and (last is None or last_lf_at is None or rep["at"] - last_lf_at >= 2000):
                ctx.count(1, "vam_failed_report_lf_due")
            if sent:
                ctx.property_failure("vam_sent_at_failed_report", mk(), f"report {i}: a VAM was handed over although the "
                                     f"lower layers refused it ({o['fail']})", 0, len(sent))
            ctx.nontriv((tag, i, rep["ts"], "failed"))
            continue
        if o["err"]:
            ctx.property_failure("vam_callback_exception", mk(), f"report {i}: the location callback raised {o['err']}")
        if prev_at is not None:
            max_sp = max(max_sp, rep["at"] - prev_at)
        prev_at = rep["at"]
        if not gate:
            gate_closed_since_last = True
            if sent:
                ctx.property_failure("vam_while_passive", mk(), f"report {i}: VAM sent while the station is passive/idle")
            continue
        if len(sent) > 1:
            ctx.property_failure("vam_duplicate", mk(), f"report {i}: {len(sent)} VAMs for one report")
        if not sent:
            if last is None:
                ctx.property_failure("vam_first_not_immediate", mk(), f"report {i}: no VAM at the first position report")
            elif not gate_closed_since_last and max_sp + 5000 < 65536 and rep["ts"] - last["ts"] > 5000 + max_sp:
                ctx.property_failure("vam_max_gap", mk(), f"report {i}: no VAM for {rep['ts'] - last['ts']} ms "
                                     f"(reports at most {max_sp} ms apart)", 5000 + max_sp, rep["ts"] - last["ts"])
            continue
        (_, port, data) = sent[0]
        if port != 2018:
            ctx.property_failure("vam_port", mk(), f"VAM sent to BTP port {port}", 2018, port)
        try:
            c = decode_vam(data)
        except Exception as e:
            ctx.property_failure("vam_undecodable", mk(), f"report {i}: VAM does not decode: {type(e).__name__}: {e}")
            break
        if last is not None:
            gap = rep["ts"] - last["ts"]
            if gap < 100:
                # a dynamics trigger = the report differs from the CONTENT of the previous VAM (what the standard's
                # conditions 2-4 compare with), i.e. from the values decoded from it (unavailable codes included)
                c0 = last["c"]
                dyn = []
                if "speed" in rep and abs(rep["speed"] - c0["speed"] / 100) > 0.4:
                    dyn.append("speed")
                if "track" in rep and ang_diff(rep["track"], c0["heading"] / 10) > 3.5:
                    dyn.append("heading")
                if haspos and math.hypot(rep["lat"] - c0["lat"] / 1e7, rep["lon"] - c0["lon"] / 1e7) > 3.5:
                    dyn.append("position")
                cls = "vam_min_gap_dynamics_trigger" if dyn else "vam_min_gap"
                ctx.property_failure(cls, mk(), f"report {i}: VAMs {gap} ms apart on the reports' timestamps"
                                     + (f" (after a change of {','.join(dyn)})" if dyn else ""), 100, gap)
            if not gate_closed_since_last and max_sp + 5000 < 65536 and gap > 5000 + max_sp:
                ctx.property_failure("vam_max_gap", mk(), f"report {i}: VAMs {gap} ms apart (reports at most {max_sp} ms apart)",
                                     5000 + max_sp, gap)
        must_lf = last is None or last_lf_at is None or rep["at"] - last_lf_at >= 2000
        if must_lf and not c["lf"]:
            ctx.property_failure("vam_lf_rule", mk(), f"report {i}: VAM at {rep['at']} without low-frequency container "
                                 f"(first={last is None}, last LF at {last_lf_at})", True, False)
        if c["lf"]:
            last_lf_at = rep["at"]
        last = {"i": i, "ts": rep["ts"], "at": rep["at"], "c": c}
        gate_closed_since_last = False
        max_sp = 0
        impl.append([i, int(c["lf"]), c["gdt"]])
        ctx.nontriv((tag, i, rep["ts"]))
    ctx.count(len(reps), "vam_reports_" + tag)
    return stream, impl


def check_vam_scripts(ctx, scripts, tag):
    reqs, keep = [], []
    for script in scripts:
        obs = run_vam_script(script)
        stream, impl = analyse_vam(ctx, script, obs, tag)
        reqs.append((2, stream))
        keep.append((script, impl))
        ctx.sample({"vam_script": script.get("gen"), "reports": len(script["reports"]), "vams": len(impl),
                    "first_vams(index,lf,gdt)": impl[:3]}, cap=8)
    if not ctx.model.available:
        return
    for (script, impl), res in zip(keep, ctx.model.batch(reqs)):
        mv = [res[j:j + 3] for j in range(0, len(res), 4)]
        if mv != impl:
            k = next((j for j in range(min(len(mv), len(impl))) if mv[j] != impl[j]), min(len(mv), len(impl)))
            ctx.mismatch("VAMTransmissionManagement = VamGen.vrun (VAMs as report index,lf,gdt)", {"script": script},
                         mv[max(0, k - 1):k + 2], impl[max(0, k - 1):k + 2], f"first difference at VAM #{k}")


def gen_vam_script(rng, kind: str, n: int):
    t0 = 1_600_000_000_000 + rng.randrange(0, 300_000_000_000)
    if kind == "gdtwrap":
        t0 += (65536 - its_of_utc_ms(t0) % 65536) - rng.randrange(100, 2000)
    rate = rng.choice([1, 2, 5, 10, 20, 25, 50, 50])
    period = 1000 // rate
    latency = rng.choice([0, 0, 5, 30])
    lat, lon = 41.387304 + rng.randrange(-999, 999) / 1e4, 2.112485 + rng.randrange(-999, 999) / 1e4
    speed = dy(rng.randrange(0, 8 * 64))
    track = dy(rng.randrange(0, 360 * 64))
    decimal = kind == "decimal"
    reps = []
    t = t0
    gate_until = 0
    gap_until = 0
    pm = {k: (rng.choice([0, 0.05, 0.5, 1.0]) if kind == "missing" else 0.0) for k in ("pos", "speed", "track")}
    bad_left, bad_kind, fail_left = 0, None, 0
    if kind == "chaos" and rng.random() < 0.5:
        bad_left, bad_kind = rng.choice([1, 4]), rng.choice(BAD_VAM_KINDS)    # the very first reports are malformed
    for _ in range(n):
        if kind in ("dynamics", "chaos"):
            if rng.random() < 0.25:
                speed = min(45.0, max(0.0, speed + rng.choice([dy(31), dy(32), dy(33), dy(64), -dy(33), -dy(70)])))
            if rng.random() < 0.25:
                track = (track + rng.choice([dy(255), 4.0, dy(257), 10.0, -dy(257), 355.0])) % 360
        else:
            speed = min(45.0, max(0.0, speed + rng.choice([0, 0, dy(1), -dy(1), dy(4)])))
            track = (track + rng.choice([0, 0, dy(8), -dy(8)])) % 360
        if kind == "turn" and rng.random() < 0.05:
            track = rng.choice([0.0, 360.0, dy(360 * 64 - 1), dy(1), 358.0, 2.0])
        lat += speed * period / 1000 * math.cos(math.radians(track)) / 111194.9
        lon += speed * period / 1000 * math.sin(math.radians(track)) / 83000.0
        if kind == "gaps" and t >= gap_until and rng.random() < 0.03:
            gap_until = t + rng.choice([400, 3000, 6000, 70000, 131100])
        if kind == "passive" and t >= gate_until and rng.random() < 0.05:
            gate_until = t + rng.choice([200, 1500, 7000])
        if t >= gap_until:
            rep = {"at": t, "ts": t - latency, "gate": t >= gate_until, "clop": kind == "clusterop" and rng.random() < 0.2}
            if rng.random() >= pm["pos"]:
                rep["lat"], rep["lon"] = lat, lon
            if rng.random() >= pm["speed"]:
                rep["speed"] = round(speed, 2) if decimal else speed
            if rng.random() >= pm["track"]:
                rep["track"] = round(track, 1) if decimal else track
            if rng.random() < 0.5:
                rep["altHAE"] = 33.0
                rep["epx"], rep["epy"], rep["epv"], rep["epd"] = 1.5, 2.5, 3.0, 2.0
            if kind in ("badrep", "chaos"):
                if bad_left == 0 and rng.random() < 0.03:
                    bad_left, bad_kind = rng.choice([1, 1, 2, 5, 25]), rng.choice(BAD_VAM_KINDS)
                if bad_left > 0:
                    bad_left -= 1
                    rep["bad"] = bad_kind
                    rep.setdefault("lat", lat)
                    rep.setdefault("lon", lon)
                    rep.setdefault("track", track)
                    rep.setdefault("speed", speed)
            if kind in ("linkfail", "chaos"):
                if fail_left == 0 and rng.random() < 0.04:
                    fail_left = rng.choice([1, 1, 1, 3, 10, 30])
                if fail_left > 0:
                    fail_left -= 1
                    rep["linkfail"] = True
            if kind in ("ldm", "chaos") and rng.random() < 0.04:
                rep["ldmfail"] = True
            reps.append(rep)
        t += period if kind != "jitterrep" else max(1, period + rng.randrange(-period // 2, period // 2 + 1))
    script = {"kind": "vam", "gen": kind, "phase": rng.choice([0.25, 0.05, 0.6, 0.9]), "cluster": kind != "nocluster",
              "reports": reps}
    if kind in ("ldm", "chaos"):
        script["ldm"] = True
    return script


def target_vam_failures(rng, script, what="linkfail"):
    """the VAM analogue of target_cam_failures: the lower layer (or the LDM adapter) fails exactly at reports that
    sent a VAM, preferably one that carried the low-frequency container"""
    obs = run_vam_script(script)
    lf, hf = [], []
    for i, o in enumerate(obs):
        for (_, _, data) in o["sent"]:
            try:
                (lf if decode_vam(data)["lf"] else hf).append(i)
            except Exception:
                pass
    chosen = set(rng.sample(lf[1:], min(len(lf[1:]), rng.choice([1, 2, 4]))) + rng.sample(hf, min(len(hf), rng.choice([0, 1, 3]))))
    if lf and rng.random() < 0.3:
        chosen.add(lf[0])
    s2 = dict(script)
    s2["gen"] = script.get("gen", "") + "+targeted_" + what
    if what == "ldmfail":
        s2["ldm"] = True
    s2["reports"] = [dict(r, **{what: True}) if i in chosen else r for i, r in enumerate(script["reports"])]
    return s2


VAM_KINDS = ("steady", "dynamics", "turn", "missing", "gaps", "passive", "clusterop", "decimal", "gdtwrap", "nocluster",
             "jitterrep")
VAM_FAIL_KINDS = ("badrep", "linkfail", "ldm", "chaos")


# --------------------------------------------------------------------------- entry points

def run_script(ctx, script, tag):
    if script.get("kind") == "vam":
        check_vam_scripts(ctx, [script], tag)
    else:
        check_cam_scripts(ctx, [script], tag)


def corpus_scripts():
    import glob
    import os
    out = []
    for f in sorted(glob.glob(os.path.join(common.VERIF, "corpus", "C10", "*.json"))):
        out.append(json.load(open(f)))
    return out


def run(ctx):
    ctx.rule = ("CAM: scripted start/stop/report events plus the firing of the service's own (fake) T_CheckCamGen timer in "
                "virtual time, on trajectories constant / accelerating / turning across 0-360 / stop-and-go / missing "
                "optional fields / report gaps / report outages of up to minutes during which the vehicle travels up to kilometres "
                "(each axis / both / neither beyond the largest relative offset a CAM can express, both signs) / restarts / "
                "near-threshold / decimal values / gdt wrap, 1-50 Hz; VAM: "
                "timed report sequences with the same kinds plus passive periods and cluster-operation containers. One "
                "evaluation = one operation (event, timer check or report) executed on the implementation and the model; "
                "non-trivial = an operation at which a CAM/VAM was sent; distinct by (stream, index, time)")
    rng = ctx.rng
    for k in ctx.known:
        run_script(ctx, k["witness"], "known")
    for s in corpus_scripts():
        run_script(ctx, s, "corpus")
    quick = ctx.tier == "quick"
    # CAM
    scripts = []
    for kind in CAM_KINDS:
        for _ in range(2 if quick else 8):
            scripts.append(gen_cam_script(rng, kind, rng.choice([8_000, 20_000, 70_000]) if quick else rng.choice([30_000, 140_000, 400_000])))
    check_cam_scripts(ctx, scripts, "short")
    # long report outages while the vehicle travels on: every combination of (axis on which the displacement exceeds what a
    # CAM can express relative to the current position: north-south / east-west / both / neither) x (sign north) x (sign east)
    # in every run, magnitudes and speeds drawn (plan_outage), plus the eight displacements that put the point stored
    # before the outage exactly on the last expressible / first inexpressible offset of one axis
    scripts = []
    for rnd in range(1 if quick else 6):
        deck = list(OUTAGE_COMBOS) + list(OUTAGE_BOUNDARY)
        rng.shuffle(deck)
        for j in range(0, len(deck), 4):
            scripts.append(gen_cam_script(rng, "outage", 600_000 if quick else 3_000_000, outages=deck[j:j + 4],
                                          max_outage_ms=45_000 if quick or rnd < 3 else 400_000))
    check_cam_scripts(ctx, scripts, "outage")
    # CAMs that cannot be handed over: malformed reports, lower layer / LDM adapter failing at random and at chosen checks
    scripts = []
    for kind in CAM_FAIL_KINDS:
        for _ in range(2 if quick else 10):
            scripts.append(gen_cam_script(rng, kind, rng.choice([8_000, 20_000, 40_000]) if quick else rng.choice([30_000, 140_000])))
    for _ in range(4 if quick else 24):
        base = gen_cam_script(rng, rng.choice(["accel", "turn", "mixed", "stopgo", "near"]), rng.choice([8_000, 20_000]))
        scripts.append(target_cam_failures(rng, base, rng.choice(["btp_fail", "btp_fail", "ldm_fail"])))
    check_cam_scripts(ctx, scripts, "fail")
    # start() on the active service right after a CAM
    scripts = [target_redundant_starts(rng, gen_cam_script(rng, rng.choice(["constant", "accel", "turn", "stopgo"]),
                                                           rng.choice([8_000, 20_000]))) for _ in range(4 if quick else 20)]
    check_cam_scripts(ctx, scripts, "redundant_start")
    # long runs (hours of virtual time in the thorough tier)
    long_ms = 600_000 if quick else 3 * 3600_000
    check_cam_scripts(ctx, [gen_cam_script(rng, "mixed", long_ms)], "long")
    if not quick:
        check_cam_scripts(ctx, [gen_cam_script(rng, "stopgo", 3600_000), gen_cam_script(rng, "gaps", 3600_000),
                                gen_cam_script(rng, "outage", 1800_000, max_outage_ms=400_000)], "long")
    # VAM
    vs = []
    for kind in VAM_KINDS:
        for _ in range(3 if quick else 12):
            vs.append(gen_vam_script(rng, kind, rng.choice([200, 600, 1500]) if quick else rng.choice([1000, 4000, 12000])))
    check_vam_scripts(ctx, vs, "short")
    vs = []
    for kind in VAM_FAIL_KINDS:
        for _ in range(3 if quick else 12):
            vs.append(gen_vam_script(rng, kind, rng.choice([200, 600, 1500]) if quick else rng.choice([1000, 4000])))
    for _ in range(4 if quick else 24):
        base = gen_vam_script(rng, rng.choice(["steady", "dynamics", "clusterop", "passive", "jitterrep"]), rng.choice([300, 900]))
        vs.append(target_vam_failures(rng, base, rng.choice(["linkfail", "linkfail", "ldmfail"])))
    check_vam_scripts(ctx, vs, "fail")
    check_vam_scripts(ctx, [gen_vam_script(rng, "steady", 6_000 if quick else 200_000)], "long")
    ctx.exhaustive = False


def replay(ctx, data):
    common.use_repo_sources()
    f = data.get("failure") or (data.get("broken") or [{}])[0].get("first")
    if f is None:
        for b in data.get("broken", []):
            if b.get("kind") == "correspondence":
                f = b["first"]
    if f is None:
        print(json.dumps(data.get("broken"), default=str)[:2000])
        print("NOT REPRODUCED (the replay names a broken proof, not an input)")
        return 0
    ctx.model = common.Model(MODEL_NAME)
    ctx.known = []
    script = f["input"]["script"]
    print(json.dumps({k: v for k, v in f.items() if k != "input"}, default=str)[:1500])
    run_script(ctx, script, "replay")
    bad = ctx.failures or ctx.mismatches
    print("REPRODUCED" if bad else "NOT REPRODUCED")
    for r in (ctx.failures + ctx.mismatches)[:3]:
        print(json.dumps({k: v for k, v in r.items() if k != "input"}, default=str)[:1500])
    return 1 if bad else 0
