"""C15 - the GeoNetworking router is safe under concurrent origination, reception and timers (partial)."""
from __future__ import annotations

import json

from . import common
from . import stack
from . import router_sim as rs
from .sched import Scheduler, SchedLock, SchedRLock, Deadlock, explore

PROP = "C15"
COQ_TARGETS = ["Properties/C15"]
MODEL_ML = None
MODEL_NAME = None
GENS = ["gen_locks"]
TRUSTED_BASE = [
    "Coq 8.16.1 kernel (coqc); vm_compute for the two obligations on the regenerated lock summary; no native_compute",
    "translator tools/gen_locks.py (Python ast -> Gen/LockSummary.v, fails closed on unknown constructs); it flattens "
    "control flow in source order, which over-approximates the set of accesses made under each lock",
    "mechanised (Base/Atomic.v, for every write function of the reads): a closed critical section computes what its body "
    "computes alone; the sections of sequence_number_lock, ego_position_vector_lock, loc_t_lock and the per-entry locks are "
    "closed; _cbf_lock and _ls_lock sections (which read the location table under the nested loc_t_lock) get isolation only. "
    "NOT mechanised: the correspondence between source lines and the abstract Rd/Wr actions, CPython's bytecode-level switch points "
    "(C-implemented dict/deque operations are atomic under the GIL), threading.Timer start-up latency, lock fairness",
    "run-time part: harness/sched.py replaces threading.Lock/RLock in the router and location-table modules by "
    "cooperative locks and parks threads at every source line of those modules (sys.settrace); line granularity",
]
ASSUMPTIONS = [
    "the high-level theorems quantify over every total order of critical sections; the link to the code is (a) the "
    "regenerated lock summary and (b) the step functions of Model/Router.v, which C06/C01/C08 tie to the code",
    "schedules are enumerated systematically up to 2 preemptions and then sampled; 2-4 actors, 1-3 operations each",
]
EXPLANATION = ("PARTIAL. theorems: lock discipline / lock order of the regenerated summary (obligations), mutual exclusion, no "
               "conflicting access, deadlock freedom for any number of threads and any interleaving, sequence numbers distinct, "
               "CBF at most once / never after cancel, ego PV read was current, LS requests in exactly one batch; run-time "
               "exploration of interleavings of the real router with a deterministic scheduler as search for a failing schedule")

TRACED = ("flexstack/geonet/router.py", "flexstack/geonet/location_table.py")
LOCK_NAMES = ["sequence_number_lock", "_cbf_lock", "_ls_lock", "ego_position_vector_lock"]


def fresh_router(alg="CBF", ls_max=1, mid=0x0A0B0C0D0E01):
    import flexstack.geonet.router as r
    import flexstack.geonet.location_table as lt
    r.Lock = SchedLock
    lt.Lock = SchedLock
    lt.RLock = SchedRLock
    stack.FakeTimer.reset()
    ll = stack.CaptureLL()
    from flexstack.geonet.mib import AreaForwardingAlgorithm
    router = stack.make_router(ll, local_mid=mid, ego=(413800000, 21100000), mib_kw=dict(
        itsGnAreaForwardingAlgorithm=getattr(AreaForwardingAlgorithm, alg), itsGnLocationServiceMaxRetrans=ls_max))
    for n in LOCK_NAMES:
        getattr(router, n).name = n
    router.location_table.loc_t_lock.name = "loc_t_lock"
    return router, ll


def restore_locks():
    import threading
    import flexstack.geonet.router as r
    import flexstack.geonet.location_table as lt
    r.Lock = threading.Lock
    lt.Lock = threading.Lock
    lt.RLock = threading.RLock


def run_scenario(ctx, name, make_world, bound, max_runs, random_runs):
    """make_world() -> (fns, check(sched, log) -> list of (cls, detail, observed))"""
    n = 0

    def make_run():
        fns, check = make_world()
        s = Scheduler(TRACED)
        holder = {}

        def run(choose):
            try:
                sched = s.run(fns, choose)
            except Deadlock as d:
                holder["deadlock"] = str(d)
                sched = []
            holder["actors"] = s.actors
            holder["log"] = list(s.log)
            holder["points"] = s.trace_points
            return sched

        def chk(sched):
            inp = {"scenario": name, "schedule": list(sched)}
            if "deadlock" in holder:
                ctx.property_failure("deadlock", inp, "no thread can make progress", None, holder["deadlock"])
            for a in holder["actors"]:
                if a.exc is not None:
                    ctx.property_failure("thread_failed", inp, f"actor {a.tid} raised", None, f"{type(a.exc).__name__}: {a.exc}")
            for cls, detail, obs in check(sched, holder["log"]):
                ctx.property_failure(cls, inp, detail, None, obs)
        return run, chk

    for sched, nbp in explore(make_run, bound, max_runs, rng=ctx.rng, random_runs=random_runs):
        n += 1
        ctx.count(1, "schedules_" + name)
        ctx.nontriv((name, tuple(sched)))
        if n == 1:
            ctx.sample({"scenario": name, "schedule_length": len(sched), "first_schedule": sched[:60]})
    return n


# --------------------------------------------------------------------------- scenarios
def world_sn(k, m):
    def make():
        router, ll = fresh_router()
        out = [[] for _ in range(k)]

        def body(i):
            for _ in range(m):
                out[i].append(router.get_sequence_number())
        fns = [(lambda i=i: body(i)) for i in range(k)]

        def check(sched, log):
            vals = [v for o in out for v in o]
            bad = []
            if len(set(vals)) != len(vals):
                bad.append(("sn_duplicate", "two originated packets got the same sequence number", sorted(vals)))
            if sorted(vals) != list(range(1, k * m + 1)):
                bad.append(("sn_values", "sequence numbers are not 1..n", sorted(vals)))
            return bad
        return fns, check
    return make


def gbc_inside(router, src, sn, tst, rhl=3):
    ego = router.ego_position_vector
    return stack.gbc_bytes(src, sn, tst, ego.latitude + 50, ego.longitude + 50,
                           (ego.latitude, ego.longitude, 500, 500, 0), b"\x07\xd2\x00\x00cbf", rhl=rhl, mhl=10)


def world_cbf():
    """phase 1 (sequential): packet P is buffered for CBF. phase 2 (concurrent): a duplicate of P is overheard,
    P's timer fires, a fresh packet P2 arrives, and the timer of P fires a second time (stale timer object)."""
    def make():
        router, ll = fresh_router("CBF")
        src = (0, 5, 0x0A0B0C0D2222)
        tst = stack.VCLOCK.its_ms() % 2 ** 32
        router.gn_data_indicate(stack.beacon_bytes((0, 5, 0x0A0B0C0D3333), tst, 413800010, 21100010))
        p = gbc_inside(router, src, 7, tst)
        router.gn_data_indicate(p)
        timers = [t for t in stack.FakeTimer.pending()]
        ll.sent.clear()
        p2 = gbc_inside(router, src, 8, tst + 1)
        fns = [lambda: router.gn_data_indicate(p),                       # duplicate overheard -> cancel
               lambda: [t.function(*t.args) for t in timers],            # timer expiry
               lambda: router.gn_data_indicate(p2),                      # unrelated fresh packet
               lambda: [t.function(*t.args) for t in timers]]            # the same timer object firing again

        def check(sched, log):
            bad = []
            want = p[:3] + bytes([p[3] - 1]) + p[4:]
            n = ll.sent.count(want)
            if n > 1:
                bad.append(("cbf_sent_twice", "a packet buffered for contention-based forwarding was transmitted twice", n))
            # never after its cancellation has completed: the discard section of actor 0 released _cbf_lock
            # before the first acquisition of actors 1 and 3
            rel0 = next((i for i, (t, op, l) in enumerate(log) if t == 0 and op == "rel" and l == "_cbf_lock"), None)
            acq_t = [i for i, (t, op, l) in enumerate(log) if t in (1, 3) and op == "acq" and l == "_cbf_lock"]
            if rel0 is not None and acq_t and rel0 < min(acq_t) and n > 0:
                bad.append(("cbf_sent_after_cancel", "the buffered packet was transmitted after its cancellation had completed", n))
            if [k for k in router._cbf_buffer if k[1] == 7]:
                bad.append(("cbf_left_buffered", "the cancelled / expired packet is still in the buffer", None))
            return bad
        return fns, check
    return make


def world_ego():
    def make():
        router, ll = fresh_router("SIMPLE")
        from flexstack.geonet.service_access_point import (GNDataRequest, PacketTransportType, HeaderType, TopoBroadcastHST,
                                                           CommonNH, TrafficClass)
        tpvs = [{"lat": 41.38 + i * 0.01, "lon": 2.11 - i * 0.02, "speed": float(i), "track": 10.0 * i,
                 "time": "2024-01-0%dT10:00:0%d.000Z" % (i + 1, i)} for i in range(3)]
        valid = {router.ego_position_vector.encode()}
        from flexstack.geonet.position_vector import LongPositionVector
        cur = router.ego_position_vector
        for t in tpvs:
            cur = cur.refresh_with_tpv_data(t)
            valid.add(cur.encode())
        req = GNDataRequest(upper_protocol_entity=CommonNH.BTP_B,
                            packet_transport_type=PacketTransportType(HeaderType.TSB, TopoBroadcastHST.SINGLE_HOP),
                            traffic_class=TrafficClass(), data=b"\x07\xd1\x00\x00x", length=5)
        fns = [lambda: [router.refresh_ego_position_vector(t) for t in tpvs],
               lambda: [router.gn_data_request(req) for _ in range(2)],
               lambda: [router.gn_data_request_beacon() for _ in range(2)]]

        def check(sched, log):
            bad = []
            for pkt in ll.sent:
                pv = pkt[12:36]
                if pv not in valid:
                    bad.append(("ego_pv_torn", "an emitted packet carries a position vector that was never the ego position",
                                pv.hex()))
            if len(ll.sent) != 4:
                bad.append(("ego_lost_send", "not every request produced a packet", len(ll.sent)))
            return bad
        return fns, check
    return make


def world_ls(n_req, with_retry, with_beacon=False):
    """unicast requests to an unknown destination race with the LS reply and the retransmit timer; with_beacon: a third
    station's beacon is received meanwhile (every reception refreshes the location table, which must keep the placeholder
    of the destination while the lookup is pending)"""
    def make():
        router, ll = fresh_router("SIMPLE", ls_max=1)
        from flexstack.geonet.service_access_point import (GNDataRequest, PacketTransportType, HeaderType, CommonNH, TrafficClass)
        dest = (0, 5, 0x0A0B0C0D7777)
        tst = stack.VCLOCK.its_ms() % 2 ** 32
        me = (0, 5, 0x0A0B0C0D0E01)
        # one request is already buffered and the lookup is running (sequential set-up)
        first = GNDataRequest(upper_protocol_entity=CommonNH.BTP_B, packet_transport_type=PacketTransportType(HeaderType.GEOUNICAST),
                              traffic_class=TrafficClass(), data=b"\x07\xd1\x00\x00first", length=9,
                              destination=stack.gn_addr(dest[2], dest[1]))
        router.gn_data_request(first)
        timers = list(stack.FakeTimer.pending())
        ll.sent.clear()
        reqs = [GNDataRequest(upper_protocol_entity=CommonNH.BTP_B, packet_transport_type=PacketTransportType(HeaderType.GEOUNICAST),
                              traffic_class=TrafficClass(), data=b"\x07\xd1\x00\x00req%d" % i, length=8,
                              destination=stack.gn_addr(dest[2], dest[1])) for i in range(n_req)]
        reply = stack.ls_reply_bytes(dest, 5, tst, 413800300, 21100300, (me, tst, 413800000, 21100000), rhl=5, mhl=10)
        fns = [(lambda r=r: router.gn_data_request(r)) for r in reqs]
        fns.append(lambda: router.gn_data_indicate(reply))
        if with_retry:
            fns.append(lambda: [t.function(*t.args) for t in timers] * 2)       # retransmit, then give up
        if with_beacon:
            other = (0, 5, 0x0A0B0C0D8888)
            bc = stack.beacon_bytes(other, tst, 413800900, 21100900)
            fns.insert(0, lambda: router.gn_data_indicate(bc))

        def check(sched, log):
            bad = []
            payloads = [b"\x07\xd1\x00\x00first"] + [r.data for r in reqs]
            for pl in payloads:
                n = sum(1 for p in ll.sent if (p[5] >> 4) == 2 and p.endswith(pl))
                still = sum(1 for v in router._ls_packet_buffers.values() for q in v if q.data == pl)
                if n > 1:
                    bad.append(("ls_sent_twice", "a buffered unicast request was transmitted more than once", pl.hex()))
                if n + still > 1:
                    bad.append(("ls_sent_and_buffered", "a unicast request was transmitted and is still buffered", pl.hex()))
                if n + still == 0 and not with_retry:
                    bad.append(("ls_lost", "a unicast request was neither sent nor kept although no retry gave up", pl.hex()))
            return bad
        return fns, check
    return make


def world_mixed():
    """origination (GBC, SHB), reception (fresh GBC) and ego refresh at the same time"""
    def make():
        router, ll = fresh_router("CBF")
        from flexstack.geonet.service_access_point import (GNDataRequest, PacketTransportType, HeaderType, GeoBroadcastHST, Area,
                                                           CommonNH, TrafficClass)
        tst = stack.VCLOCK.its_ms() % 2 ** 32
        router.gn_data_indicate(stack.beacon_bytes((0, 5, 0x0A0B0C0D3333), tst, 413800010, 21100010))
        ll.sent.clear()
        ego = router.ego_position_vector
        req = GNDataRequest(upper_protocol_entity=CommonNH.BTP_B,
                            packet_transport_type=PacketTransportType(HeaderType.GEOBROADCAST, GeoBroadcastHST.GEOBROADCAST_CIRCLE),
                            traffic_class=TrafficClass(), data=b"\x07\xd2\x00\x00o", length=5, max_hop_limit=3,
                            area=Area(latitude=ego.latitude, longitude=ego.longitude, a=100, b=100, angle=0))
        rx = gbc_inside(router, (0, 5, 0x0A0B0C0D2222), 9, tst)
        fns = [lambda: [router.gn_data_request(req) for _ in range(2)],
               lambda: router.gn_data_request(req),
               lambda: router.gn_data_indicate(rx),
               lambda: router.refresh_ego_position_vector({"lat": 41.4, "lon": 2.2, "speed": 1.0, "track": 5.0,
                                                           "time": "2024-01-01T10:00:00.000Z"})]

        def check(sched, log):
            bad = []
            sns = [int.from_bytes(p[12:14], "big") for p in ll.sent if (p[5] >> 4) == 4 and int.from_bytes(p[18:24], "big") == 0x0A0B0C0D0E01]
            if len(sns) != 3 or len(set(sns)) != 3:
                bad.append(("sn_duplicate", "originated multi-hop packets do not carry pairwise distinct sequence numbers", sns))
            return bad
        return fns, check
    return make


def run(ctx):
    ctx.rule = ("interleavings of the real Router at source-line granularity (settrace scheduler, cooperative locks): "
                "scenario sn (2-3 threads x 1-3 get_sequence_number), cbf (duplicate overheard || timer expiry || fresh packet || "
                "stale timer), ego (refresh x3 || SHB x2 || beacon x2), ls (1-3 unicast requests || LS reply [|| retransmit + "
                "give-up]), mixed (2 originators || reception || ego refresh); systematically all schedules with at most 2 "
                "preemptions (bounded number of runs per scenario), then seeded random schedules; a schedule is non-trivial and "
                "distinct by its thread-id sequence")
    rs.stack.patch_time()
    stack.VCLOCK.set_ms(1_700_000_000_000)
    quick = ctx.tier == "quick"
    try:
        plan = [("sn_2x2", world_sn(2, 2), 2, 150 if quick else 3000, 40 if quick else 600),
                ("sn_3x1", world_sn(3, 1), 2, 120 if quick else 3000, 30 if quick else 600),
                ("cbf", world_cbf(), 2, 250 if quick else 6000, 80 if quick else 1500),
                ("ego", world_ego(), 2, 120 if quick else 3000, 40 if quick else 800),
                ("ls_2", world_ls(2, False), 2, 200 if quick else 5000, 60 if quick else 1200),
                ("ls_2_retry", world_ls(2, True), 2, 200 if quick else 5000, 60 if quick else 1200),
                ("ls_2_beacon", world_ls(2, False, True), 2, 150 if quick else 4000, 50 if quick else 1000),
                ("mixed", world_mixed(), 1 if quick else 2, 150 if quick else 5000, 50 if quick else 1200)]
        if not quick:
            plan += [("sn_3x3", world_sn(3, 3), 2, 4000, 800), ("ls_3_retry", world_ls(3, True), 2, 5000, 1200)]
        for name, mk, bound, max_runs, rnd in plan:
            run_scenario(ctx, name, mk, bound, max_runs, rnd)
        if not getattr(ctx, "proof_ok", True) and not ctx.failures:
            # an obligation on the regenerated lock summary no longer checks (or the translator refused the source): search
            # the scenarios much deeper for a schedule on which the real router misbehaves
            for name, mk, bound, max_runs, rnd in plan:
                if ctx.failures:
                    break
                run_scenario(ctx, name + "_deep", mk, 2, 1500, 400)
    finally:
        restore_locks()
    ctx.exhaustive = False


def replay(ctx, data):
    f = data.get("failure") or (data.get("broken") or [{}])[-1].get("first")
    print(json.dumps(f, default=str)[:3000])
    ctx.model = None
    ctx.rng.seed(data.get("seed", 0))
    run(ctx)
    bad = ctx.failures or ctx.mismatches or ctx.known_hits
    print("REPRODUCED" if bad else "NOT REPRODUCED")
    return 1 if bad else 0
