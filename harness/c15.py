"""C15 - the GeoNetworking router is safe under concurrent origination, reception and timers (partial)."""
from __future__ import annotations

import json

from . import common
from . import stack
from . import router_sim as rs
from .sched import Scheduler, SchedLock, SchedRLock, Deadlock, explore

PROP = "C15"
COQ_TARGETS = ["Properties/C15"]
MODEL_ML = None
MODEL_NAME = None
GENS = ["gen_locks"]
TRUSTED_BASE = [
    "Coq 8.16.1 kernel (coqc); vm_compute for the two obligations on the regenerated lock summary; no native_compute",
    "translator tools/gen_locks.py (Python ast -> Gen/LockSummary.v, fails closed on unknown constructs); it flattens "
    "control flow in source order, which over-approximates the set of accesses made under each lock",
    "mechanised (Base/Atomic.v, for every write function of the reads): a closed critical section computes what its body "
    "computes alone; the sections of sequence_number_lock, ego_position_vector_lock, loc_t_lock and the per-entry locks are "
    "closed; _cbf_lock and _ls_lock sections (which read the location table under the nested loc_t_lock) get isolation only. "
    "NOT mechanised: the correspondence between source lines and the abstract Rd/Wr actions, CPython's bytecode-level switch points "
    "(C-implemented dict/deque operations are atomic under the GIL), threading.Timer start-up latency, lock fairness",
    "run-time part: harness/sched.py replaces threading.Lock/RLock in the router and location-table modules by "
    "cooperative locks and parks threads at every source line of those modules (sys.settrace); line granularity",
]
ASSUMPTIONS = [
    "the high-level theorems quantify over every total order of critical sections; the link to the code is (a) the "
    "regenerated lock summary and (b) the step functions of Model/Router.v, which C06/C01/C08 tie to the code",
    "schedules are enumerated systematically up to 2 preemptions and then sampled; 2-4 actors, 1-3 operations each",
]
EXPLANATION = ("PARTIAL. theorems: lock discipline / lock order of the regenerated summary (obligations), mutual exclusion, no "
               "conflicting access, deadlock freedom for any number of threads and any interleaving, sequence numbers distinct, "
               "CBF at most once / never after cancel, ego PV read was current, LS requests in exactly one batch; run-time "
               "exploration of interleavings of the real router with a deterministic scheduler as search for a failing schedule")

TRACED = ("flexstack/geonet/router.py", "flexstack/geonet/location_table.py")
LOCK_NAMES = ["sequence_number_lock", "_cbf_lock", "_ls_lock", "ego_position_vector_lock"]


class ObsTimer(stack.FakeTimer):
    """FakeTimer that reports into the event list of the current world: its construction and the COMPLETION of cancel()"""
    events = None

    def __init__(self, interval, function, args=None, kwargs=None):
        super().__init__(interval, function, args, kwargs)
        if ObsTimer.events is not None:
            ObsTimer.events.append(("timer", self))

    def cancel(self):
        super().cancel()
        if ObsTimer.events is not None:
            ObsTimer.events.append(("cancelled", self))


class ObsLL(stack.CaptureLL):
    """capturing link layer; every packet handed to send() is also an event of the world (same total order as the timers)"""

    def __init__(self, events):
        super().__init__()
        self.events = events

    def send(self, packet: bytes):
        super().send(packet)
        self.events.append(("sent", bytes(packet)))


def fresh_router(alg="CBF", ls_max=1, mid=0x0A0B0C0D0E01, mib_kw=None):
    import flexstack.geonet.router as r
    import flexstack.geonet.location_table as lt
    r.Lock = SchedLock
    lt.Lock = SchedLock
    lt.RLock = SchedRLock
    stack.FakeTimer.reset()
    events = []
    ll = ObsLL(events)
    from flexstack.geonet.mib import AreaForwardingAlgorithm
    kw = dict(itsGnAreaForwardingAlgorithm=getattr(AreaForwardingAlgorithm, alg), itsGnLocationServiceMaxRetrans=ls_max)
    kw.update(mib_kw or {})
    router = stack.make_router(ll, local_mid=mid, ego=(413800000, 21100000), mib_kw=kw)
    r.Timer = ObsTimer              # make_router installed stack.FakeTimer; ObsTimer is the same timer plus the event reports
    ObsTimer.events = events
    for n in LOCK_NAMES:
        getattr(router, n).name = n
    router.location_table.loc_t_lock.name = "loc_t_lock"
    return router, ll


def restore_locks():
    import threading
    import flexstack.geonet.router as r
    import flexstack.geonet.location_table as lt
    r.Lock = threading.Lock
    lt.Lock = threading.Lock
    lt.RLock = threading.RLock
    r.Timer = stack.FakeTimer
    ObsTimer.events = None


def run_scenario(ctx, name, make_world, bound, max_runs, random_runs):
    """make_world() -> (fns, check(sched, log) -> list of (cls, detail, observed))"""
    n = 0

    def make_run():
        fns, check = make_world()
        s = Scheduler(TRACED)
        holder = {}

        def run(choose):
            try:
                sched = s.run(fns, choose)
            except Deadlock as d:
                holder["deadlock"] = str(d)
                sched = []
            holder["actors"] = s.actors
            holder["log"] = list(s.log)
            holder["points"] = s.trace_points
            return sched

        def chk(sched):
            inp = {"scenario": name, "schedule": list(sched)}
            if "deadlock" in holder:
                ctx.property_failure("deadlock", inp, "no thread can make progress", None, holder["deadlock"])
            for a in holder["actors"]:
                if a.exc is not None:
                    ctx.property_failure("thread_failed", inp, f"actor {a.tid} raised", None, f"{type(a.exc).__name__}: {a.exc}")
            for cls, detail, obs in check(sched, holder["log"]):
                ctx.property_failure(cls, inp, detail, None, obs)
        return run, chk

    for sched, nbp in explore(make_run, bound, max_runs, rng=ctx.rng, random_runs=random_runs):
        n += 1
        ctx.count(1, "schedules_" + name)
        ctx.nontriv((name, tuple(sched)))
        if n == 1:
            ctx.sample({"scenario": name, "schedule_length": len(sched), "first_schedule": sched[:60]})
    return n


# --------------------------------------------------------------------------- scenarios
def world_sn(k, m, start=0):
    """k originators x m sequence numbers each; start = value of the counter beforehand (near 65534 the counter wraps,
    Router.get_sequence_number counts modulo 2^16 - 1)"""
    def make():
        router, ll = fresh_router()
        router.sequence_number = start
        out = [[] for _ in range(k)]

        def body(i):
            for _ in range(m):
                out[i].append(router.get_sequence_number())
        fns = [(lambda i=i: body(i)) for i in range(k)]

        def check(sched, log):
            vals = [v for o in out for v in o]
            bad = []
            if len(set(vals)) != len(vals):
                bad.append(("sn_duplicate", "two originated packets got the same sequence number", sorted(vals)))
            if sorted(vals) != sorted((start + i) % 65535 for i in range(1, k * m + 1)):
                bad.append(("sn_values", "sequence numbers are not the next n values of the counter", sorted(vals)))
            return bad
        return fns, check
    return make


def gbc_inside(router, src, sn, tst, rhl=3):
    ego = router.ego_position_vector
    return stack.gbc_bytes(src, sn, tst, ego.latitude + 50, ego.longitude + 50,
                           (ego.latitude, ego.longitude, 500, 500, 0), b"\x07\xd2\x00\x00cbf", rhl=rhl, mhl=10)


def world_cbf():
    """phase 1 (sequential): packet P is buffered for CBF. phase 2 (concurrent): a duplicate of P is overheard,
    P's timer fires, a fresh packet P2 arrives, and the timer of P fires a second time (stale timer object)."""
    def make():
        router, ll = fresh_router("CBF")
        src = (0, 5, 0x0A0B0C0D2222)
        tst = stack.VCLOCK.its_ms() % 2 ** 32
        router.gn_data_indicate(stack.beacon_bytes((0, 5, 0x0A0B0C0D3333), tst, 413800010, 21100010))
        p = gbc_inside(router, src, 7, tst)
        router.gn_data_indicate(p)
        timers = [t for t in stack.FakeTimer.pending()]
        ll.sent.clear()
        p2 = gbc_inside(router, src, 8, tst + 1)
        fns = [lambda: router.gn_data_indicate(p),                       # duplicate overheard -> cancel
               lambda: [t.function(*t.args) for t in timers],            # timer expiry
               lambda: router.gn_data_indicate(p2),                      # unrelated fresh packet
               lambda: [t.function(*t.args) for t in timers]]            # the same timer object firing again

        def check(sched, log):
            bad = []
            want = p[:3] + bytes([p[3] - 1]) + p[4:]
            n = ll.sent.count(want)
            if n > 1:
                bad.append(("cbf_sent_twice", "a packet buffered for contention-based forwarding was transmitted twice", n))
            # never after its cancellation has completed: the discard section of actor 0 released _cbf_lock
            # before the first acquisition of actors 1 and 3
            rel0 = next((i for i, (t, op, l) in enumerate(log) if t == 0 and op == "rel" and l == "_cbf_lock"), None)
            acq_t = [i for i, (t, op, l) in enumerate(log) if t in (1, 3) and op == "acq" and l == "_cbf_lock"]
            if rel0 is not None and acq_t and rel0 < min(acq_t) and n > 0:
                bad.append(("cbf_sent_after_cancel", "the buffered packet was transmitted after its cancellation had completed", n))
            if [k for k in router._cbf_buffer if k[1] == 7]:
                bad.append(("cbf_left_buffered", "the cancelled / expired packet is still in the buffer", None))
            have = {b[0] for b in bad}
            bad += [b for b in cbf_oracle(ll.events) if b[0] not in have]
            return bad
        return fns, check
    return make


# ---- oracle for the contention-based-forwarding clause, on the observed events only -------------------------------
def wire_key(pkt):
    """(source GN address, sequence number) of a GeoBroadcast / GeoAnycast packet, read from the wire layout of
    EN 302 636-4-1 (basic 4 + common 8 octets, then SN, reserved, source long position vector)"""
    if not isinstance(pkt, (bytes, bytearray)) or len(pkt) < 40 or (pkt[5] >> 4) not in (3, 4):
        return None
    return (bytes(pkt[16:24]), bytes(pkt[12:14]))


def timer_key(t):
    """the packet a contention timer stands for: the GN-PDU among its arguments"""
    return next((wire_key(a) for a in t.args if wire_key(a) is not None), None)


def cbf_oracle(events):
    """'each packet buffered for contention-based forwarding is transmitted at most once and never after its cancellation
    has completed', on the total order of the world's events (one thread runs at a time): a buffering = the construction
    of a contention timer for the packet; its cancellation has completed when cancel() of that timer has returned.  Every
    transmission of a packet that was buffered at all must be covered by a buffering of its own that started before the
    transmission, was not cancelled before it and covers no other transmission (the buffering that is cancelled soonest is
    used up first, which is optimal).  Transmissions of packets that were never buffered are not the subject of the clause."""
    inc, by_timer = {}, {}
    for i, (what, x) in enumerate(events):
        if what == "timer" and timer_key(x) is not None:
            d = by_timer[id(x)] = dict(created=i, cancelled=None, sent=None)
            inc.setdefault(timer_key(x), []).append(d)
        elif what == "cancelled" and id(x) in by_timer and by_timer[id(x)]["cancelled"] is None:
            by_timer[id(x)]["cancelled"] = i
    bad = []
    for i, (what, x) in enumerate(events):
        k = wire_key(x) if what == "sent" else None
        if k is None or k not in inc:
            continue
        started = [d for d in inc[k] if d["created"] < i]
        live = [d for d in started if d["sent"] is None and (d["cancelled"] is None or d["cancelled"] > i)]
        obs = {"source": k[0].hex(), "sn": int.from_bytes(k[1], "big"), "event": i,
               "history_of_packet": [w for (w, y) in events[:i + 1] if (wire_key(y) if w == "sent" else timer_key(y)) == k]}
        if live:
            min(live, key=lambda d: (d["cancelled"] is None, d["cancelled"] or 0))["sent"] = i
        elif any(d["sent"] is None for d in started):
            bad.append(("cbf_sent_after_cancel", "a packet buffered for contention-based forwarding was transmitted after its "
                        "cancellation had completed", obs))
        elif started:
            bad.append(("cbf_sent_twice", "a packet buffered for contention-based forwarding was transmitted twice", obs))
    return bad


def fire_rest():
    """let every contention timer that is still armed expire (in order of expiry, virtual clock untouched)"""
    for t in sorted(stack.FakeTimer.pending(), key=lambda t: (t.due, t.id)):
        t.fire()


CBF_THIRD = ("none", "fresh", "dup_same", "dup_other")


def world_cbf_dup(dpl_len=8, n=9, j=0, stale=False, third="fresh", again=True, gap_ms=2, sn0=7, rhl=2, shape=0):
    """A copy of a packet that is still contending is overheard.  Which of the two cancellation paths of the router it takes
    depends on whether duplicate packet detection still knows the packet, so the world ranges over both:
    set-up (sequential): station S sends a burst of n GeoBroadcast packets (SN sn0.., gap_ms apart, i.e. inside the contention
    window); all are buffered.  The duplicate packet list holds dpl_len (MIB itsGnDPLLength, default 8) sequence numbers per
    source, so packet j has left it iff n-1-j >= dpl_len; with stale=True the clock of S is behind by more than
    itsGnLifetimeLocTE, S's location table entry (and with it the list) never survives until the next packet.
    concurrent: [0] the copy of packet j is overheard (one hop further: rhl lower) || [1] the timer of packet j expires ||
    [2] third: another reception (fresh packet of S / second copy of j / copy of another contending packet) ||
    [3] again: the timer object of packet j fires once more.  Afterwards every timer still armed expires."""
    def make():
        router, ll = fresh_router("CBF", mib_kw=dict(itsGnDPLLength=dpl_len))
        src = (0, 5, 0x0A0B0C0D2222)
        now = stack.VCLOCK.its_ms()
        router.gn_data_indicate(stack.beacon_bytes((0, 5, 0x0A0B0C0D3333), now % 2 ** 32, 413800010, 21100010))
        base = now - (router.mib.itsGnLifetimeLocTE * 1000 + 5000 if stale else 0)
        ego = router.ego_position_vector

        def pkt(i, hops):
            return stack.gbc_bytes(src, (sn0 + i) % 65536, (base + i * gap_ms) % 2 ** 32, ego.latitude + 50, ego.longitude + 50,
                                   (ego.latitude, ego.longitude, 500, 500, 0), b"\x07\xd2\x00\x00cbf%d" % i, hst=shape,
                                   rhl=hops, mhl=10)
        burst = [pkt(i, rhl + 1) for i in range(n)]
        for p in burst:
            router.gn_data_indicate(p)
        kj = wire_key(burst[j])
        timers = [t for t in stack.FakeTimer.pending() if timer_key(t) == kj]
        set_up_ok = len(stack.FakeTimer.pending()) == n and len(timers) == 1 and not ll.sent
        fns = [lambda: router.gn_data_indicate(pkt(j, rhl)),
               lambda: [t.function(*t.args) for t in timers]]
        if third == "fresh":
            fns.append(lambda: router.gn_data_indicate(pkt(n, rhl + 1)))
        elif third == "dup_same":
            fns.append(lambda: router.gn_data_indicate(pkt(j, rhl)))
        elif third == "dup_other":
            fns.append(lambda: router.gn_data_indicate(pkt((j + 1) % n, rhl)))
        if again:
            fns.append(lambda: [t.function(*t.args) for t in timers])

        def check(sched, log):
            bad = []
            if not set_up_ok:
                bad.append(("cbf_setup", "the burst was not put into contention (scenario does not exercise the clause)",
                            [len(stack.FakeTimer.pending()), len(ll.sent)]))
            fire_rest()
            bad += cbf_oracle(ll.events)
            if router._cbf_buffer:
                bad.append(("cbf_left_buffered", "packets are still in the buffer after every contention timer has expired",
                            len(router._cbf_buffer)))
            return bad
        return fns, check
    return make


def cbf_dup_kind(c):
    """how the overheard copy meets the router (from the configuration, by the rules of annex A.2 / clause 8.1.3)"""
    if c.get("stale"):
        return "entry_expired"
    return "dpl_rolled" if c["n"] - 1 - c["j"] >= c["dpl_len"] else "dpl_hit"


def cbf_dup_configs(rng, n_random):
    """boundary grid over (list length, burst length, which packet is overheard again) - the copy is exactly at / one before /
    one after the point where it leaves the duplicate packet list - and seeded random configurations"""
    out = []
    for L in (1, 2, 3, 8):
        for n in (1, L, L + 1, L + 2):
            for j in sorted({0, n - 1, n - 1 - L, n - L} & set(range(n))):
                out.append(dict(dpl_len=L, n=n, j=j, stale=False))
    out += [dict(dpl_len=8, n=n, j=0, stale=True) for n in (1, 2)]
    for i, c in enumerate(out):
        c.update(third=CBF_THIRD[i % 4] if (c["n"] > 1 or i % 4 != 3) else "fresh", again=i % 3 != 0, gap_ms=1 + i % 7,
                 sn0=(7, 65535 - i % 5, 1000 + i)[i % 3], rhl=2 + i % 2, shape=i % 3)
    for _ in range(n_random):
        L = rng.choice((1, 2, 4, 8, 8, 8, 16))
        n = rng.randint(1, L + 3) if rng.random() < 0.5 else rng.randint(L + 1, L + 4)
        near = sorted({0, n - 1 - L, n - L} & set(range(n)))          # around the point where the copy leaves the list
        c = dict(dpl_len=L, n=n, j=rng.choice(near) if rng.random() < 0.5 else rng.randrange(n), stale=rng.random() < 0.15, third=rng.choice(CBF_THIRD),
                 again=rng.random() < 0.6, gap_ms=rng.randint(1, 8), sn0=rng.choice((rng.randrange(65536), 65536 - rng.randint(1, n))),
                 rhl=rng.randint(2, 4), shape=rng.randrange(3))
        if c["third"] == "dup_other" and n == 1:
            c["third"] = "dup_same"
        out.append(c)
    return out


def run_cbf_dup_serial(ctx, n_random, orders_per_config):
    """every configuration with the actors run one after the other (each such order IS an interleaving of the property's
    quantifier: no preemption); the orders: as listed, reversed, and seeded random permutations"""
    for c in cbf_dup_configs(ctx.rng, n_random):
        k = 2 + (c["third"] != "none") + bool(c["again"])
        orders = [list(range(k)), list(range(k))[::-1]]
        while len(orders) < orders_per_config:
            o = list(range(k))
            ctx.rng.shuffle(o)
            if o not in orders:
                orders.append(o)
            elif k <= 2:
                break
        for order in orders:
            fns, check = world_cbf_dup(**c)()
            inp = {"scenario": "cbf_dup_serial", "config": c, "order": order}
            for a in order:
                try:
                    fns[a]()
                except Exception as e:          # noqa: BLE001 - "no thread fails"
                    ctx.property_failure("thread_failed", inp, f"actor {a} raised", None, f"{type(e).__name__}: {e}")
            for cls, detail, obs in check(order, []):
                ctx.property_failure(cls, inp, detail, None, obs)
            ctx.count(1, "serial_cbf_dup_" + cbf_dup_kind(c))
            ctx.nontriv(("cbf_dup_serial", json.dumps(c, sort_keys=True), tuple(order)))


def world_ego():
    def make():
        router, ll = fresh_router("SIMPLE")
        from flexstack.geonet.service_access_point import (GNDataRequest, PacketTransportType, HeaderType, TopoBroadcastHST,
                                                           CommonNH, TrafficClass)
        tpvs = [{"lat": 41.38 + i * 0.01, "lon": 2.11 - i * 0.02, "speed": float(i), "track": 10.0 * i,
                 "time": "2024-01-0%dT10:00:0%d.000Z" % (i + 1, i)} for i in range(3)]
        valid = {router.ego_position_vector.encode()}
        from flexstack.geonet.position_vector import LongPositionVector
        cur = router.ego_position_vector
        for t in tpvs:
            cur = cur.refresh_with_tpv_data(t)
            valid.add(cur.encode())
        req = GNDataRequest(upper_protocol_entity=CommonNH.BTP_B,
                            packet_transport_type=PacketTransportType(HeaderType.TSB, TopoBroadcastHST.SINGLE_HOP),
                            traffic_class=TrafficClass(), data=b"\x07\xd1\x00\x00x", length=5)
        fns = [lambda: [router.refresh_ego_position_vector(t) for t in tpvs],
               lambda: [router.gn_data_request(req) for _ in range(2)],
               lambda: [router.gn_data_request_beacon() for _ in range(2)]]

        def check(sched, log):
            bad = []
            for pkt in ll.sent:
                pv = pkt[12:36]
                if pv not in valid:
                    bad.append(("ego_pv_torn", "an emitted packet carries a position vector that was never the ego position",
                                pv.hex()))
            if len(ll.sent) != 4:
                bad.append(("ego_lost_send", "not every request produced a packet", len(ll.sent)))
            return bad
        return fns, check
    return make


def world_ls(n_req, with_retry, with_beacon=False):
    """unicast requests to an unknown destination race with the LS reply and the retransmit timer; with_beacon: a third
    station's beacon is received meanwhile (every reception refreshes the location table, which must keep the placeholder
    of the destination while the lookup is pending)"""
    def make():
        router, ll = fresh_router("SIMPLE", ls_max=1)
        from flexstack.geonet.service_access_point import (GNDataRequest, PacketTransportType, HeaderType, CommonNH, TrafficClass)
        dest = (0, 5, 0x0A0B0C0D7777)
        tst = stack.VCLOCK.its_ms() % 2 ** 32
        me = (0, 5, 0x0A0B0C0D0E01)
        # one request is already buffered and the lookup is running (sequential set-up)
        first = GNDataRequest(upper_protocol_entity=CommonNH.BTP_B, packet_transport_type=PacketTransportType(HeaderType.GEOUNICAST),
                              traffic_class=TrafficClass(), data=b"\x07\xd1\x00\x00first", length=9,
                              destination=stack.gn_addr(dest[2], dest[1]))
        router.gn_data_request(first)
        timers = list(stack.FakeTimer.pending())
        ll.sent.clear()
        reqs = [GNDataRequest(upper_protocol_entity=CommonNH.BTP_B, packet_transport_type=PacketTransportType(HeaderType.GEOUNICAST),
                              traffic_class=TrafficClass(), data=b"\x07\xd1\x00\x00req%d" % i, length=8,
                              destination=stack.gn_addr(dest[2], dest[1])) for i in range(n_req)]
        reply = stack.ls_reply_bytes(dest, 5, tst, 413800300, 21100300, (me, tst, 413800000, 21100000), rhl=5, mhl=10)
        fns = [(lambda r=r: router.gn_data_request(r)) for r in reqs]
        fns.append(lambda: router.gn_data_indicate(reply))
        if with_retry:
            fns.append(lambda: [t.function(*t.args) for t in timers] * 2)       # retransmit, then give up
        if with_beacon:
            other = (0, 5, 0x0A0B0C0D8888)
            bc = stack.beacon_bytes(other, tst, 413800900, 21100900)
            fns.insert(0, lambda: router.gn_data_indicate(bc))

        def check(sched, log):
            bad = []
            payloads = [b"\x07\xd1\x00\x00first"] + [r.data for r in reqs]
            for pl in payloads:
                n = sum(1 for p in ll.sent if (p[5] >> 4) == 2 and p.endswith(pl))
                still = sum(1 for v in router._ls_packet_buffers.values() for q in v if q.data == pl)
                if n > 1:
                    bad.append(("ls_sent_twice", "a buffered unicast request was transmitted more than once", pl.hex()))
                if n + still > 1:
                    bad.append(("ls_sent_and_buffered", "a unicast request was transmitted and is still buffered", pl.hex()))
                if n + still == 0 and not with_retry:
                    bad.append(("ls_lost", "a unicast request was neither sent nor kept although no retry gave up", pl.hex()))
            return bad
        return fns, check
    return make


def world_mixed():
    """origination (GBC, SHB), reception (fresh GBC) and ego refresh at the same time"""
    def make():
        router, ll = fresh_router("CBF")
        from flexstack.geonet.service_access_point import (GNDataRequest, PacketTransportType, HeaderType, GeoBroadcastHST, Area,
                                                           CommonNH, TrafficClass)
        tst = stack.VCLOCK.its_ms() % 2 ** 32
        router.gn_data_indicate(stack.beacon_bytes((0, 5, 0x0A0B0C0D3333), tst, 413800010, 21100010))
        ll.sent.clear()
        ego = router.ego_position_vector
        req = GNDataRequest(upper_protocol_entity=CommonNH.BTP_B,
                            packet_transport_type=PacketTransportType(HeaderType.GEOBROADCAST, GeoBroadcastHST.GEOBROADCAST_CIRCLE),
                            traffic_class=TrafficClass(), data=b"\x07\xd2\x00\x00o", length=5, max_hop_limit=3,
                            area=Area(latitude=ego.latitude, longitude=ego.longitude, a=100, b=100, angle=0))
        rx = gbc_inside(router, (0, 5, 0x0A0B0C0D2222), 9, tst)
        fns = [lambda: [router.gn_data_request(req) for _ in range(2)],
               lambda: router.gn_data_request(req),
               lambda: router.gn_data_indicate(rx),
               lambda: router.refresh_ego_position_vector({"lat": 41.4, "lon": 2.2, "speed": 1.0, "track": 5.0,
                                                           "time": "2024-01-01T10:00:00.000Z"})]

        def check(sched, log):
            bad = []
            sns = [int.from_bytes(p[12:14], "big") for p in ll.sent if (p[5] >> 4) == 4 and int.from_bytes(p[18:24], "big") == 0x0A0B0C0D0E01]
            if len(sns) != 3 or len(set(sns)) != 3:
                bad.append(("sn_duplicate", "originated multi-hop packets do not carry pairwise distinct sequence numbers", sns))
            return bad
        return fns, check
    return make


def run(ctx):
    ctx.rule = ("interleavings of the real Router at source-line granularity (settrace scheduler, cooperative locks): "
                "scenario sn (2-3 threads x 1-3 get_sequence_number, from a fresh counter and from a counter about to wrap at 2^16 - 1), cbf (duplicate overheard || timer expiry || fresh packet || "
                "stale timer), cbf_dup (a copy of a packet that is still contending is overheard after a burst of 1..L+3 packets of its "
                "source, L = itsGnDPLLength in 1..16, so that the copy is still in / has just left / has long left the duplicate "
                "packet list, or the source's entry has expired; || its timer expiry || a further reception || stale timer: boundary "
                "grid + seeded random configurations with the actors in 3 (thorough 5) serial orders, and two of the configurations "
                "under the line-level scheduler), ego (refresh x3 || SHB x2 || beacon x2), ls (1-3 unicast requests || LS reply [|| retransmit + "
                "give-up]), mixed (2 originators || reception || ego refresh); systematically all schedules with at most 2 "
                "preemptions (bounded number of runs per scenario), then seeded random schedules; a schedule is non-trivial and "
                "distinct by its thread-id sequence")
    rs.stack.patch_time()
    stack.VCLOCK.set_ms(1_700_000_000_000)
    quick = ctx.tier == "quick"
    try:
        plan = [("sn_2x2", world_sn(2, 2), 2, 150 if quick else 3000, 40 if quick else 600),
                ("sn_3x1", world_sn(3, 1), 2, 120 if quick else 3000, 30 if quick else 600),
                ("sn_wrap_2x2", world_sn(2, 2, 65532), 2, 100 if quick else 3000, 30 if quick else 600),
                ("sn_wrap_3x1", world_sn(3, 1, 65533), 2, 80 if quick else 3000, 20 if quick else 600),
                ("cbf", world_cbf(), 2, 250 if quick else 6000, 80 if quick else 1500),
                ("cbf_dup_ring", world_cbf_dup(8, 9, 0, third="fresh", again=True), 2, 60 if quick else 2500, 20 if quick else 600),
                ("cbf_dup_expired", world_cbf_dup(8, 1, 0, stale=True, third="dup_same", again=True), 2, 40 if quick else 2500,
                 15 if quick else 600),
                ("ego", world_ego(), 2, 120 if quick else 3000, 40 if quick else 800),
                ("ls_2", world_ls(2, False), 2, 200 if quick else 5000, 60 if quick else 1200),
                ("ls_2_retry", world_ls(2, True), 2, 200 if quick else 5000, 60 if quick else 1200),
                ("ls_2_beacon", world_ls(2, False, True), 2, 150 if quick else 4000, 50 if quick else 1000),
                ("mixed", world_mixed(), 1 if quick else 2, 150 if quick else 5000, 50 if quick else 1200)]
        if not quick:
            plan += [("sn_3x3", world_sn(3, 3), 2, 4000, 800), ("ls_3_retry", world_ls(3, True), 2, 5000, 1200)]
        run_cbf_dup_serial(ctx, 120 if quick else 3000, 3 if quick else 5)
        for name, mk, bound, max_runs, rnd in plan:
            run_scenario(ctx, name, mk, bound, max_runs, rnd)
        if not getattr(ctx, "proof_ok", True) and not ctx.failures:
            # an obligation on the regenerated lock summary no longer checks (or the translator refused the source): search
            # the scenarios much deeper for a schedule on which the real router misbehaves
            for name, mk, bound, max_runs, rnd in plan:
                if ctx.failures:
                    break
                run_scenario(ctx, name + "_deep", mk, 2, 1500, 400)
    finally:
        restore_locks()
    ctx.exhaustive = False


def replay(ctx, data):
    f = data.get("failure") or (data.get("broken") or [{}])[-1].get("first")
    print(json.dumps(f, default=str)[:3000])
    ctx.model = None
    ctx.rng.seed(data.get("seed", 0))
    run(ctx)
    bad = ctx.failures or ctx.mismatches or ctx.known_hits
    print("REPRODUCED" if bad else "NOT REPRODUCED")
    return 1 if bad else 0
