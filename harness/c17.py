"""C17 - DEN service repeats an event's DENM on schedule with a stable, unique identity."""
from __future__ import annotations

import json
import threading as _real_threading
import time as _real_time

from . import common
from .stack import VCLOCK, patch_time, ITS_EPOCH_MS, LEAP_MS
from .c17_sched import VSched, VLock

PROP = "C17"
COQ_TARGETS = ["Properties/C17", "Extract/ExC17"]
MODEL_ML = "c17_model.ml"
MODEL_NAME = "c17"
TRUSTED_BASE = [
    "Coq 8.16.1 kernel (coqc); vm_compute only in the two Examples; no native_compute",
    "extraction (ExtrOcamlBasic only; Z/positive stay Coq datatypes) + ocaml/driver_body.ml + OCaml 4.13.1",
    "hand-written model coq/theories/Model/Den.v, tied to the code by differential execution (this harness)",
    "Python harness harness/c17.py, harness/c17_sched.py (virtual-time runner for Thread/sleep), harness/stack.py",
    "asn1tools UPER codec (third party): used through the repository's DENMCoder and cross-checked against an "
    "independent bit-level reader of the fixed DENM prefix written from the ASN.1 in this harness",
]
ASSUMPTIONS = [
    "virtual time: a hand-over to BTP takes no time and time.sleep(i/1000) lasts exactly i ms; threads are run one "
    "at a time by a deterministic scheduler (FIFO among equal wake-up times); thread switches inside a repetition / "
    "a collision risk request are produced at source-line granularity of the DEN service and application files "
    "(one planned suspension per activation, line drawn by the generator; never while a lock of the service is "
    "held); switches inside a line, inside the coder or the clock, and true parallelism are not produced",
    "the model is tied to DENMTransmissionManagement / EmergencyVehicleApproachingService / DENMReceptionManagement "
    "by execution on the same request sequences, not by proof",
    "TimeService.timestamp_its computes in floating point; the reference time of the implementation is accepted "
    "when it equals the exact integer ITS time of the virtual clock or is 1 ms below it (the oracle's "
    "non-decreasing check is exact)",
    "degrees -> 1/10 micro-degree (int(lat * 1e7)) is outside the model (C11): the harness passes the truncated "
    "product to the model",
    "the radius of the destination circle is the constant 100 m of transmit_denm; the property only asks for a "
    "circle centred on the event position",
]
EXPLANATION = ("theorems for all intervals i > 0 and all durations T over Z (count = ceil(T/i), offsets 0, i, 2i, ..., "
               "nothing for T = 0), for all request sequences of a station (one action identifier per event, pairwise "
               "distinct within the 65 536 cycle and the cycle is tight, reference time = clock reading hence "
               "non-decreasing, destination circle and eventPosition = the position of the request and independent of "
               "later requests; any allocation order of the sequence numbers among concurrent requests; any "
               "interleaving of the construction steps of the DENMs under construction at one instant) and for all "
               "signed positions on reception (wire image -> LDM record); correspondence "
               "with the real service under a virtual-time thread runner, BTP stub, the repository's coder and a real LDM")

LAT_MIN, LAT_MAX = -900000000, 900000000
LON_MIN, LON_MAX = -1800000000, 1800000000
SEQ_MOD = 65536
BASE_MS = 1_700_000_000_000

KF_CRW_INT = "crw_int_altitude_confidence_encode_error"

ALT_CONF = ["alt-000-01", "alt-000-02", "alt-000-05", "alt-000-10", "alt-000-20", "alt-000-50", "alt-001-00",
            "alt-002-00", "alt-005-00", "alt-010-00", "alt-020-00", "alt-050-00", "alt-100-00", "alt-200-00",
            "outOfRange", "unavailable"]
AWARENESS = ["lessThan50m", "lessThan100m", "lessThan200m", "lessThan500m", "lessThan1000m", "lessThan5km",
             "lessThan10km", "over10km"]
DIRECTION = ["allTrafficDirections", "sameAsReferenceDirection-upstreamOfReferencePosition",
             "sameAsReferenceDirection-downstreamOfReferencePosition", "oppositeToReferenceDirection"]
TERMINATION = ["isCancellation", "isNegation"]


# ---------------------------------------------------------------------------
# independent reader of the fixed prefix of a UPER DENM (from the ASN.1:
# ItsPduHeader 8+8+32; DenmPayload 3 presence bits; ManagementContainer
# extension bit + 5 presence bits; ActionId 32+16; two TimestampIts of 42 bits;
# Termination 1 bit when present; Latitude 31, Longitude 32 bits, ellipse
# 12+12+12, AltitudeValue 20, AltitudeConfidence 4)

class Bits:
    def __init__(self, data: bytes):
        self.v = int.from_bytes(data, "big")
        self.n = len(data) * 8
        self.pos = 0

    def take(self, w: int) -> int:
        if self.pos + w > self.n:
            raise ValueError("short DENM")
        r = (self.v >> (self.n - self.pos - w)) & ((1 << w) - 1)
        self.pos += w
        return r


def read_prefix(data: bytes) -> dict:
    b = Bits(data)
    out = {"protocolVersion": b.take(8), "messageId": b.take(8), "stationId": b.take(32)}
    out["situation"], out["location"], out["alacarte"] = b.take(1), b.take(1), b.take(1)
    out["ext"] = b.take(1)
    pres = [b.take(1) for _ in range(5)]
    out["presence"] = pres
    out["originatingStationId"] = b.take(32)
    out["sequenceNumber"] = b.take(16)
    out["detectionTime"] = b.take(42)
    out["referenceTime"] = b.take(42)
    out["termination"] = b.take(1) if pres[0] else None
    out["ulat"], out["ulon"] = b.take(31), b.take(32)
    out["latitude"] = out["ulat"] - 900000000
    out["longitude"] = out["ulon"] - 1800000000
    b.take(36)
    out["ualt"] = b.take(20)
    out["altitudeValue"] = out["ualt"] - 100000
    out["altitudeConfidence"] = b.take(4)
    return out


# ---------------------------------------------------------------------------
# environment: the DEN modules with Thread / sleep routed to the current scheduler

class _Env:
    sched: VSched | None = None
    inline_tag = None
    ready = False
    traced = ()
    last_activations = []
    pending_interleave = []   # (scenario, DENMs of one instant, model request): sent in one batch
    steps = None      # calibration: traced lines of one activation {"ev0": .., "ev": .., "crw": ..}


class _TimeShim:
    def __getattr__(self, name):
        return getattr(_real_time, name)

    @staticmethod
    def sleep(seconds):
        _Env.sched.sleep(seconds)


class _ThreadingShim:
    def __getattr__(self, name):
        return getattr(_real_threading, name)

    @property
    def Thread(self):
        return _Env.sched.thread_factory()

    # locks of the code under test: the real primitive + the bookkeeping that keeps a task from being
    # suspended (cut) inside a critical section
    @staticmethod
    def Lock():
        return VLock(lambda: _Env.sched, _real_threading.Lock())

    @staticmethod
    def RLock():
        return VLock(lambda: _Env.sched, _real_threading.RLock())


def setup_env():
    if _Env.ready:
        return
    common.use_repo_sources()
    patch_time()
    import flexstack.facilities.decentralized_environmental_notification_service.denm_transmission_management as dtm
    dtm.time = _TimeShim()
    dtm.threading = _ThreadingShim()
    # source files in which a running request / repetition may be suspended between two lines (cuts): the
    # DEN service and the road-hazard-signalling application (the anchored files of the property)
    import os
    import flexstack.applications.road_hazard_signalling_service.service_access_point as rhs_sap
    _Env.traced = (os.path.dirname(os.path.abspath(dtm.__file__)) + os.sep,
                   os.path.dirname(os.path.abspath(rhs_sap.__file__)) + os.sep)
    # compiling the DENM ASN.1 takes seconds: every service instance of this process shares one
    # (stateless) coder object of the repository's own class
    import flexstack.facilities.decentralized_environmental_notification_service.den_service as dsv
    shared = dsv.DENMCoder()
    dsv.DENMCoder = lambda: shared
    import flexstack.facilities.local_dynamic_map.ldm_maintenance_reactive as lmr
    import types
    # the reactive LDM collects garbage by the wall clock; freeze it (C12 owns that behaviour)
    lmr.time = types.SimpleNamespace(monotonic=lambda: 0.0)
    import logging
    logging.getLogger("denm_service").setLevel(logging.CRITICAL)
    logging.getLogger("local_dynamic_map").setLevel(logging.CRITICAL)
    _Env.ready = True


class BtpStub:
    def __init__(self, station_index):
        self.station_index = station_index
        self.captured = []     # (utc ms, tag, BTPDataRequest)
        self.callbacks = {}
        self.attempts = {}     # tag -> number of hand-over attempts so far
        self.fail_at = {}      # tag -> set of attempt indices that raise
        self.raised = []       # (utc ms, tag, attempt index)

    def btp_data_request(self, request):
        cur = _Env.sched.current if _Env.sched is not None else None
        tag = cur.tag if cur is not None else _Env.inline_tag
        # scripted lower-layer failure: the k-th hand-over attempt of an event raises (audit round)
        k = self.attempts.get(tag, 0)
        self.attempts[tag] = k + 1
        if k in self.fail_at.get(tag, ()):
            self.raised.append((VCLOCK.ms, tag, k))
            raise OSError("link layer temporarily unavailable (scripted)")
        self.captured.append((VCLOCK.ms, tag, request))

    def register_indication_callback_btp(self, port, callback):
        self.callbacks[port] = callback


def its_exact(utc_ms: int) -> int:
    return utc_ms - ITS_EPOCH_MS + LEAP_MS


def ceil_div(a: int, b: int) -> int:
    return -((-a) // b)


# ---------------------------------------------------------------------------
# scenarios
#
# scenario = {"stations": [{"id": int, "seq0": int}], "requests": [req, ...]} with requests in
# time order; req = {"st": station index, "kind": "ev"|"crw", "t": ms offset from BASE_MS, ...}
#   ev : "lat"/"lon" decimal degrees or None (key missing in the TPV), "alt" metres or None, "i", "T"
#   crw: "lat"/"lon" in 1/10 micro-degree, "alt" (0.01 m), "conf": enumeration name (str) or int

def to_units(deg: float) -> int:
    return int(deg * 10000000)


def run_scenario(ctx, sc_in, label="scenario"):
    """execute the scenario on the real service, apply the property oracle to what was handed
    to BTP, compare with the model"""
    setup_env()
    sc = expand(sc_in)
    from flexstack.facilities.decentralized_environmental_notification_service.den_service import (
        DecentralizedEnvironmentalNotificationService)
    from flexstack.facilities.ca_basic_service.cam_transmission_management import VehicleData
    from flexstack.applications.road_hazard_signalling_service.emergency_vehicle_approaching_service import (
        EmergencyVehicleApproachingService)
    from flexstack.applications.road_hazard_signalling_service.service_access_point import DENRequest
    from flexstack.facilities.local_dynamic_map.ldm_classes import (
        ReferencePosition, PositionConfidenceEllipse, Altitude, TimestampIts)
    from flexstack.geonet.service_access_point import HeaderType, GeoBroadcastHST
    from flexstack.btp.service_access_point import CommonNH

    sched = VSched()
    sched.traced = _Env.traced
    sched.count_steps = bool(sc.get("count_steps"))
    _Env.sched = sched
    VCLOCK.set_ms(BASE_MS)
    stations = []
    for idx, st in enumerate(sc["stations"]):
        btp = BtpStub(idx)
        vd = VehicleData(station_id=st["id"], station_type=st.get("type", 5))
        den = DecentralizedEnvironmentalNotificationService(btp, vd, None)
        den.denm_transmission_management.sequence_number = st["seq0"]
        app = EmergencyVehicleApproachingService(den, duration=10000)
        stations.append({"btp": btp, "den": den, "app": app, "events": [], "cfg": st})
    coder = stations[0]["den"].denm_coder

    crashed = None
    for n, rq in enumerate(sc["requests"]):
        S = stations[rq["st"]]
        t = BASE_MS + rq["t"]
        try:
            # repetitions due before t are over; those due at t itself have run unless the request is marked
            # "early" (it is made before them); whatever a cut has suspended at this very instant stays
            # suspended while the request is made
            sched.run_until(t, hold_seq=0, strict=bool(rq.get("early")))
        except Exception as e:   # a task died
            crashed = (n, repr(e))
            break
        mark = sched.mark()
        plan = {int(k): int(c) for (k, c) in rq.get("cut", [])}
        ev = {"req": rq, "index": len(S["events"]), "t0": t, "error": None}
        tag = (rq["st"], ev["index"])
        S["events"].append(ev)
        if rq["kind"] == "ev":
            tpv = {}
            if rq.get("lat") is not None:
                tpv["lat"] = rq["lat"]
            if rq.get("lon") is not None:
                tpv["lon"] = rq["lon"]
            if rq.get("alt") is not None:
                tpv["altHAE"] = rq["alt"]
            if rq.get("new_app"):
                # the application is started anew (constructor arguments instead of attribute writes): a second
                # application object on the same DEN service; the station's numbering of events must go on
                S["app"] = EmergencyVehicleApproachingService(S["den"], duration=rq["T"])
                if rq["i"] != 1000:                  # 1000 ms is the constructor's own repetition interval
                    S["app"].denm_interval = rq["i"]
            else:
                S["app"].denm_interval = rq["i"]
                S["app"].denm_duration = rq["T"]
            if rq.get("fail_at"):
                S["btp"].fail_at[tag] = set(rq["fail_at"])
            sched.next_tag = tag
            sched.next_plan = plan      # cuts of the repetition thread this trigger starts
            _Env.inline_tag = tag
            try:
                S["app"].trigger_denm_sending(tpv)
                sched.next_plan = None
                # the new thread runs up to its first sleep (or cut); then the tasks that were suspended
                # before this request go on; one that is cut now waits for the next request of this instant
                sched.run_until(t, hold_seq=mark)
            except Exception as e:
                ev["error"] = type(e).__name__
            sched.next_plan = None
            ev["app_pos"] = (S["app"].event_position["latitude"], S["app"].event_position["longitude"])
        else:
            rp = ReferencePosition(latitude=rq["lat"], longitude=rq["lon"],
                                   position_confidence_ellipse=PositionConfidenceEllipse(4095, 4095, 3601),
                                   altitude=Altitude(rq["alt"], rq["conf"]))

            def crw_call(S=S, rp=rp, t=t, ev=ev):
                try:
                    req = DENRequest.with_collision_risk_warning(TimestampIts(its_exact(t)), rp)
                    S["den"].denm_transmission_management.send_collision_risk_warning_denm(req)
                except Exception as e:
                    ev["error"] = type(e).__name__

            _Env.inline_tag = tag
            if plan or sched.count_steps:
                # the caller's thread of this request is a task of its own: it can be suspended between two
                # lines while the repetitions due at this instant / the next request of this instant run
                sched.spawn(crw_call, tag, plan)
            else:
                crw_call()
            try:
                sched.run_until(t, hold_seq=mark)
            except Exception as e:
                ev["error"] = ev["error"] or type(e).__name__
            ev["app_pos"] = (rq["lat"], rq["lon"])
        _Env.inline_tag = None
    last = max([BASE_MS + r["t"] for r in sc["requests"]] + [BASE_MS])
    finished = True
    if crashed is None:
        try:
            finished = sched.run_all(last + 60_000 + 10_000 + 1000)
        except Exception as e:
            crashed = (len(sc["requests"]), repr(e))
    leftover = sched.abandon()
    _Env.sched = None
    _Env.last_activations = list(sched.activations)
    ctx.count(len(sc["requests"]), "requests_" + label)
    for c in sched.cuts:
        # where the planned suspensions fell (function of the code under test), for the input distribution
        ctx.count(1, "cut_in_" + (c["where"][0] if c["where"] else "none_activation_shorter"))
        if c["where"]:
            ctx.nontriv(("cut",) + tuple(c["where"]))

    if crashed is not None:
        ctx.property_failure("thread_died", {"scenario": sc_in}, f"a transmission thread raised: {crashed[1]}", "no exception", crashed)
        return
    if not finished or leftover:
        ctx.property_failure("not_terminated", {"scenario": sc_in}, "a repetition thread is still running 10 s after the longest "
                             "admissible duration has elapsed", "all threads finished", leftover)

    # ---- observation -------------------------------------------------------
    for si, S in enumerate(stations):
        for ev in S["events"]:
            ev["txs"] = []
        for (t, tag, r) in S["btp"].captured:
            d = coder.decode(r.data)
            m = d["denm"]["management"]
            pre = read_prefix(r.data)
            ptt = r.gn_packet_transport_type
            shape = 0 if (ptt.header_type == HeaderType.GEOBROADCAST and
                          ptt.header_subtype == GeoBroadcastHST.GEOBROADCAST_CIRCLE) else 1
            tx = {"time": t, "port": r.destination_port, "btp_b": r.btp_type == CommonNH.BTP_B, "shape": shape,
                  "its_aid": getattr(r, "its_aid", None), "sec": getattr(getattr(r, "security_profile", None), "name", None),
                  "area": (r.gn_area.latitude, r.gn_area.longitude, r.gn_area.a, r.gn_area.b, r.gn_area.angle),
                  "hdr": d["header"]["stationId"], "orig": m["actionId"]["originatingStationId"],
                  "seq": m["actionId"]["sequenceNumber"], "ref": m["referenceTime"],
                  "lat": m["eventPosition"]["latitude"], "lon": m["eventPosition"]["longitude"],
                  "pos": json.dumps(m["eventPosition"], sort_keys=True), "len_ok": r.length == len(r.data),
                  "pre": (pre["stationId"], pre["originatingStationId"], pre["sequenceNumber"],
                          pre["referenceTime"], pre["latitude"], pre["longitude"])}
            if tag is None or tag[0] != si or tag[1] >= len(S["events"]):
                ctx.property_failure("stray_denm", {"scenario": sc_in}, "a DENM was handed over outside any request", None, tx)
                continue
            S["events"][tag[1]]["txs"].append(tx)
            S.setdefault("order", []).append((tag[1], tx))

    oracle(ctx, sc, stations, sc_in)
    correspondence(ctx, sc, stations, sc_in)


def fail(ctx, cls, sc, st, ev, detail, expected, observed):
    inp = {"scenario": sc, "station": st, "event": ev}
    ctx.property_failure(cls, inp, detail, expected, observed)


def oracle(ctx, sc_full, stations, sc):
    """the property text applied to what the implementation handed to BTP (sc: the scenario as
    it is written into a replay)"""
    for si, S in enumerate(stations):
        sid = S["cfg"]["id"]
        seen = {}    # action id -> last event index that used it
        for ev in S["events"]:
            rq, txs, k = ev["req"], ev["txs"], ev["index"]
            if rq["kind"] == "ev":
                want_pos = None
                if rq.get("lat") is not None and rq.get("lon") is not None:
                    want_pos = (to_units(rq["lat"]), to_units(rq["lon"]))
                n = ceil_div(rq["T"], rq["i"]) if rq["T"] > 0 else 0
                # a repetition the lower layer refused cannot be handed over; all the others must be, on schedule
                failed = {k_ for (_, tg, k_) in S["btp"].raised if tg == (si, k)}
                want_times = [ev["t0"] + j * rq["i"] for j in range(n) if j not in failed]
                ev["failed"] = failed
                if failed:
                    ctx.count(len(failed), "handover_refused")
                if ev["error"]:
                    fail(ctx, "request_raised", sc, si, k, "the trigger raised " + ev["error"], None, ev["error"])
                ctx.nontriv(("ev", rq["i"], rq["T"], want_pos))
            else:
                want_pos = (rq["lat"], rq["lon"])
                want_times = [ev["t0"]]
                if not isinstance(rq["conf"], str):
                    if len(txs) != 1:
                        fail(ctx, KF_CRW_INT, sc, si, k, "collision risk request built from a ReferencePosition with "
                             "an int altitude confidence hands over no DENM (" + str(ev["error"]) + ")", 1, len(txs))
                        continue
                elif ev["error"]:
                    fail(ctx, "request_raised", sc, si, k, "the request raised " + ev["error"], None, ev["error"])
                ctx.nontriv(("crw", want_pos))
            got_times = [x["time"] for x in txs]
            if len(txs) != len(want_times):
                fail(ctx, "denm_count", sc, si, k, "number of DENMs handed over differs from ceil(T / i)"
                     if rq["kind"] == "ev" else "a collision risk warning must hand over exactly one DENM",
                     len(want_times), len(txs))
            elif got_times != want_times:
                fail(ctx, "denm_times", sc, si, k, "DENMs not handed over at once and then every interval",
                     [t - ev["t0"] for t in want_times], [t - ev["t0"] for t in got_times])
            ids = {(x["orig"], x["seq"]) for x in txs}
            if len(ids) > 1:
                fail(ctx, "action_id_within_event", sc, si, k, "DENMs of one event carry different action identifiers",
                     1, sorted(ids))
            for x in txs:
                if x["hdr"] != sid or x["orig"] != sid:
                    fail(ctx, "station_identity", sc, si, k, "station identity of the DENM differs from the "
                         "originating station", sid, [x["hdr"], x["orig"]])
                if x["pre"] != (x["hdr"], x["orig"], x["seq"], x["ref"], x["lat"], x["lon"]):
                    fail(ctx, "wire_fields", sc, si, k, "bit-level reading of the encoded DENM disagrees with the "
                         "repository's decoder", list(x["pre"]), [x["hdr"], x["orig"], x["seq"], x["ref"], x["lat"], x["lon"]])
                if x["port"] != 2002 or not x["btp_b"] or x["shape"] != 0 or not x["len_ok"]:
                    fail(ctx, "gbc_request", sc, si, k, "not a BTP-B geo-broadcast to a circle on port 2002",
                         [2002, True, 0], [x["port"], x["btp_b"], x["shape"]])
                if x["its_aid"] != 37 or x["sec"] != "DECENTRALIZED_ENVIRONMENTAL_NOTIFICATION_MESSAGE":
                    # handed over AS A DENM: ITS-AID 37 (TS 102 965) and the DENM security profile
                    fail(ctx, "gbc_request", sc, si, k, "the request does not identify the payload as a DENM "
                         "(ITS-AID 37, DENM security profile)", [37, "DECENTRALIZED_ENVIRONMENTAL_NOTIFICATION_MESSAGE"],
                         [x["its_aid"], x["sec"]])
                if x["area"][0:2] != (x["lat"], x["lon"]) or x["area"][2] <= 0:
                    fail(ctx, "gbc_area", sc, si, k, "destination circle is not centred on the event position of the DENM",
                         [x["lat"], x["lon"]], list(x["area"]))
                if want_pos is not None and (x["lat"], x["lon"]) != want_pos:
                    fail(ctx, "event_position_moved", sc, si, k, "eventPosition of the DENM is not the position of its "
                         "request", list(want_pos), [x["lat"], x["lon"]])
            if len({x["pos"] for x in txs}) > 1:
                fail(ctx, "event_position_moved", sc, si, k, "the DENMs of one event carry different event positions",
                     txs[0]["pos"], sorted({x["pos"] for x in txs})[:3])
            refs = [x["ref"] for x in txs]
            if any(a > b for a, b in zip(refs, refs[1:])):
                fail(ctx, "reference_time_order", sc, si, k, "reference times of an event decrease", sorted(refs), refs)
            for aid in ids:
                j = seen.get(aid)
                if j is not None and j != k and k - j < SEQ_MOD:
                    fail(ctx, "action_id_reuse", sc, si, k, f"event {k} carries the action identifier of event {j} "
                         "of the same station", "distinct action identifiers", list(aid))
                seen[aid] = k
        order = S.get("order", [])
        refs = [x["ref"] for (_, x) in order]
        if any(a > b for a, b in zip(refs, refs[1:])):
            fail(ctx, "reference_time_order", sc, si, None, "reference times of a station decrease along its hand-overs",
                 sorted(refs)[:10], refs[:10])
    # two stations never share an action identifier (different station ids)
    owners = {}
    for si, S in enumerate(stations):
        for (_, x) in S.get("order", []):
            o = owners.setdefault((x["orig"], x["seq"]), S["cfg"]["id"])
            if o != S["cfg"]["id"]:
                fail(ctx, "action_id_reuse", sc, si, None, "two stations use the same action identifier", None,
                     [x["orig"], x["seq"]])


def model_args(sc, si):
    st = sc["stations"][si]
    reqs = [r for r in sc["requests"] if r["st"] == si]
    a = [st["id"], st["seq0"], 900000001, 1800000001, len(reqs)]
    for r in reqs:
        if r["kind"] == "ev":
            hl, hn = r.get("lat") is not None, r.get("lon") is not None
            a += [0, BASE_MS + r["t"], int(hl), to_units(r["lat"]) if hl else 0, int(hn),
                  to_units(r["lon"]) if hn else 0, r["i"], r["T"], 1]
        else:
            a += [1, BASE_MS + r["t"], 1, r["lat"], 1, r["lon"], 0, 0, int(isinstance(r["conf"], str))]
    return a


def parse_model(out):
    fin = out[:3]
    p, evs = 3, []
    while p < len(out):
        kind, seq, lat, lon, n = out[p:p + 5]
        p += 5
        txs = []
        for _ in range(n):
            txs.append(out[p:p + 14])
            p += 14
        evs.append({"kind": kind, "seq": seq, "pos": (lat, lon), "txs": txs})
    return fin, evs


def reorder_groups(reqs):
    """index ranges [a, b) of the station's requests made at one instant of which at least one is suspended
    (cut) in its first activation: these may reach next_sequence_number in any order; all other requests
    get their numbers in request order"""
    out, a = [], 0
    while a < len(reqs):
        b = a + 1
        while b < len(reqs) and reqs[b]["t"] == reqs[a]["t"]:
            b += 1
        if b - a > 1 and any(int(k) == 0 for r in reqs[a:b] for (k, _) in r.get("cut", [])):
            out.append((a, b))
        a = b
    return out


def allocation_ranks(sc, si, S):
    """the allocation order handed to the model (cmd 6), or None when the requests of the station get
    their numbers in request order (cmd 2).  Inside a group of same-instant requests with a cut the order is
    read off the numbers the implementation used - accepted only as a permutation inside the group, so that
    every number outside the station's next free ones still shows as a disagreement."""
    reqs = [r for r in sc["requests"] if r["st"] == si]
    groups = reorder_groups(reqs)
    if not groups or len(reqs) >= SEQ_MOD:
        return None
    seq0 = sc["stations"][si]["seq0"]
    ranks = list(range(len(reqs)))
    for (a, b) in groups:
        free = list(range(a, b))
        todo = []
        for k in range(a, b):
            txs = S["events"][k]["txs"]
            r = (txs[0]["seq"] - seq0) % SEQ_MOD if txs else None
            if r is not None and r in free:
                ranks[k] = r
                free.remove(r)
            else:
                todo.append(k)
        for k in todo:
            ranks[k] = free.pop(0)
    return ranks


def correspondence(ctx, sc_full, stations, sc):
    if not (ctx.model and ctx.model.available):
        return
    ranks = [allocation_ranks(sc_full, si, S) for si, S in enumerate(stations)]
    predicted = {}      # (station, event) -> (sequence number, position) of the model
    with_ranks = [si for si in range(len(stations)) if ranks[si] is not None]
    res = ctx.model.batch([(2, model_args(sc_full, si)) for si in range(len(stations))] +
                          [(6, model_args(sc_full, si) + ranks[si]) for si in with_ranks])
    alloc = dict(zip(with_ranks, res[len(stations):]))
    for si, (S, out) in enumerate(zip(stations, res)):
        fin, mevs = parse_model(out)
        inp = {"scenario": sc, "station": si}
        if si in alloc:
            # same-instant requests whose threads were switched before their numbers were taken: the model
            # with the allocation order made explicit (Den.run_alloc); the final state is that of Den.final
            _, mevs = parse_model([0, 0, 0] + alloc[si])
            ctx.count(1, "model_run_alloc")
        mgr = S["den"].denm_transmission_management
        impl_fin = [mgr.sequence_number, S["app"].event_position["latitude"], S["app"].event_position["longitude"]]
        if fin != impl_fin:
            ctx.mismatch("final (sequence counter, service position) = Den.final", inp, fin, impl_fin)
        if len(mevs) != len(S["events"]):
            ctx.mismatch("number of events", inp, len(mevs), len(S["events"]))
            continue
        for ev, me in zip(S["events"], mevs):
            rq = ev["req"]
            predicted[(si, ev["index"])] = (me["seq"], me["pos"])
            if rq["kind"] == "crw" and not isinstance(rq["conf"], str) and len(ev["txs"]) == 1:
                continue   # the recorded finding was repaired: the property oracle has judged this event
            if tuple(ev["app_pos"]) != tuple(me["pos"]):
                ctx.mismatch("event position = Den.ev_lat/ev_lon", dict(inp, event=ev["index"]), list(me["pos"]),
                             list(ev["app_pos"]))
            itx = []
            mtxs = [mx for j, mx in enumerate(me["txs"]) if j not in ev.get("failed", ())]
            ok = len(ev["txs"]) == len(mtxs)
            for x, mx in zip(ev["txs"], mtxs):
                row = [x["time"], x["port"], x["shape"], *x["area"], x["hdr"], x["orig"], x["seq"], x["ref"],
                       x["lat"], x["lon"]]
                itx.append(row)
                # reference time: float arithmetic of timestamp_its may land 1 ms below the exact value
                if row[:11] != mx[:11] or row[12:] != mx[12:] or not (mx[11] - 1 <= row[11] <= mx[11]):
                    ok = False
            if not ok:
                ctx.mismatch("hand-overs of one event = Den.ev_txs", dict(inp, event=ev["index"]), mtxs[:6], itx[:6])
            if ev["txs"] and ev["txs"][0]["seq"] != me["seq"]:
                ctx.mismatch("sequence number of the event = Den.ev_seq", dict(inp, event=ev["index"]), me["seq"],
                             ev["txs"][0]["seq"])
    if any(r.get("cut") for r in sc_full["requests"]):
        interleaved_constructions(ctx, sc_full, stations, sc, predicted)


def interleaved_constructions(ctx, sc_full, stations, sc, predicted):
    """the DENMs whose construction coincided in one instant (all stations of the process): the model builds
    them (station, the number and position Den.run / run_alloc gives the event, the instant) with its four
    steps per message interleaved in an arbitrary order (Den.interleave) and must hand over what the
    implementation handed over with its threads suspended between lines"""
    by_t = {}
    for si, S in enumerate(stations):
        for ev in S["events"]:
            for x in ev["txs"]:
                by_t.setdefault(x["time"], []).append((si, ev["index"], x))
    for t, group in sorted(by_t.items()):
        if len(group) < 2:
            continue
        group = group[:6]
        order = [k for k in range(len(group)) for _ in range(4)]
        ctx.rng.shuffle(order)
        args = [len(group)]
        for (si, k, x) in group:
            seq, pos = predicted.get((si, k), (x["seq"], (x["lat"], x["lon"])))
            args += [stations[si]["cfg"]["id"], seq, t, pos[0], pos[1]]
        _Env.pending_interleave.append((sc, group, (7, args + order)))


def flush_interleaved(ctx):
    """one model call for the constructions collected by interleaved_constructions"""
    reqs, _Env.pending_interleave = _Env.pending_interleave, []
    if not reqs or not (ctx.model and ctx.model.available):
        return
    res = ctx.model.batch(rq for (_, _, rq) in reqs)
    for (sc, group, _), out in zip(reqs, res):
        for n, (si, k, x) in enumerate(group):
            row = out[15 * n:15 * n + 15]
            impl = [4, x["time"], x["port"], x["shape"], *x["area"], x["hdr"], x["orig"], x["seq"], x["ref"],
                    x["lat"], x["lon"]]
            if row[:12] != impl[:12] or row[13:] != impl[13:] or not (row[12] - 1 <= impl[12] <= row[12]):
                ctx.mismatch("DENMs built at one instant, steps interleaved = Den.interleave",
                             {"scenario": sc, "station": si, "event": k}, row, impl)
        ctx.count(len(group), "model_interleave")


# ---------------------------------------------------------------------------
# schedule sweep: one station, one event per (i, T), through the full service

def schedule_cases(ctx, pairs, label):
    """(i, T) pairs: non-overlapping emergency-vehicle events of one station + model cmd 1"""
    pairs = list(pairs)
    CH = 60
    for c in range(0, len(pairs), CH):
        chunk = pairs[c:c + CH]
        t, reqs = 0, []
        for (i, T) in chunk:
            lat = ctx.rng.randrange(LAT_MIN, LAT_MAX + 1) / 1e7
            lon = ctx.rng.randrange(LON_MIN, LON_MAX + 1) / 1e7
            reqs.append({"st": 0, "kind": "ev", "t": t, "lat": lat, "lon": lon, "alt": 12.5, "i": i, "T": T})
            if i == 1000 or ctx.rng.random() < 0.1:
                reqs[-1]["new_app"] = True      # duration through the constructor, interval 1000 = its default
            t += T + i + 1
        sc = {"stations": [{"id": ctx.rng.randrange(0, 2 ** 32), "seq0": ctx.rng.randrange(0, SEQ_MOD)}],
              "requests": reqs}
        run_shrunk(ctx, sc, label)
    if ctx.model and ctx.model.available:
        res = ctx.model.batch((1, [i, T]) for (i, T) in pairs)
        cd = ctx.model.batch((5, [T, i]) for (i, T) in pairs)
        for (i, T), offs, c in zip(pairs, res, cd):
            want = [k * i for k in range(ceil_div(T, i))] if T > 0 else []
            if offs != want or c != [ceil_div(T, i)]:
                ctx.mismatch("Den.schedule = offsets 0, i, 2i, ... (ceil(T/i) of them)", {"i": i, "T": T}, offs, want)
        ctx.count(len(pairs), "model_schedule")


def boundary_pairs():
    ivals = [100, 101, 150, 250, 333, 999, 1000, 1001, 2500, 7000, 9999, 10000]
    out = []
    for i in ivals:
        Ts = {0, 1, i - 1, i, i + 1, 2 * i - 1, 2 * i, 2 * i + 1, 59999, 60000}
        for m in (3, 7, 10):
            Ts.update((m * i - 1, m * i, m * i + 1))
        top = (60000 // i) * i
        Ts.update((top - 1, top, top + 1))
        out += [(i, T) for T in sorted(Ts) if 0 <= T <= 60000]
    return out


# ---------------------------------------------------------------------------
# random overlapping scenarios

SPECIAL_POS = [(90.0, 180.0), (-90.0, -180.0), (90.0, -180.0), (-90.0, 180.0), (0.0, 0.0), (-0.0000001, -0.0000001),
               (0.0000001, 0.0000001), (89.9999999, 179.9999999), (-89.9999999, -179.9999999), (41.5, 2.25),
               (-33.9, 18.4), (-41.3, -72.9), (64.1, -21.9), (0.0, 180.0), (0.0, -180.0), (-90.0, 0.0), (90.0, 0.0)]


def rand_pos(rng):
    if rng.random() < 0.3:
        return rng.choice(SPECIAL_POS)
    return (rng.randrange(LAT_MIN, LAT_MAX + 1) / 1e7, rng.randrange(LON_MIN, LON_MAX + 1) / 1e7)


def rand_interval(rng):
    r = rng.random()
    if r < 0.25:
        return rng.choice([100, 1000, 10000, 500, 250])
    if r < 0.6:
        return rng.randrange(100, 1001)
    return rng.randrange(100, 10001)


def rand_duration(rng, i):
    r = rng.random()
    if r < 0.08:
        return 0
    if r < 0.45:
        m = rng.randrange(1, max(2, min(12, 60000 // i + 1)))
        return min(60000, max(0, m * i + rng.choice([-1, 0, 0, 1])))
    if r < 0.9:
        return rng.randrange(0, min(60000, 15 * i) + 1)
    return rng.randrange(0, 60001)


def random_scenario(rng, n_req, n_st=None, int_conf=False):
    n_st = n_st or rng.choice([1, 1, 2, 3])
    ids = rng.sample(range(0, 2 ** 32), n_st) if rng.random() < 0.8 else rng.sample([0, 1, 2 ** 32 - 1, 77], n_st)
    stations = [{"id": ids[k], "seq0": rng.choice([0, 65530, 65535, rng.randrange(0, SEQ_MOD)])} for k in range(n_st)]
    t, reqs = 0, []
    for _ in range(n_req):
        st = rng.randrange(n_st)
        if rng.random() < 0.7:
            i = rand_interval(rng)
            T = rand_duration(rng, i)
            lat, lon = rand_pos(rng)
            r = {"st": st, "kind": "ev", "t": t, "lat": lat, "lon": lon, "alt": rng.choice([None, 0.0, 163.5, -50.25, 9000.0, -9000.0]),
                 "i": i, "T": T}
            p = rng.random()
            if p < 0.06:
                r["lat"] = None
            elif p < 0.12:
                r["lon"] = None
            elif p < 0.27:
                r["new_app"] = True      # the application object is created anew for this event (complete TPV)
                if rng.random() < 0.5:
                    r["i"] = 1000        # the constructor's own interval
                    r["T"] = rand_duration(rng, 1000)
            n_rep = ceil_div(r["T"], r["i"]) if r["T"] > 0 else 0
            if n_rep and rng.random() < 0.15:
                # the lower layer refuses some hand-overs of this event (the first, the last, any)
                ks = {rng.choice([0, n_rep - 1, rng.randrange(n_rep)]) for _ in range(rng.choice([1, 1, 2, 3]))}
                r["fail_at"] = sorted(ks)
        else:
            lat, lon = rand_pos(rng)
            conf = rng.choice(ALT_CONF)
            if int_conf and rng.random() < 0.3:
                conf = rng.randrange(0, 16)
            r = {"st": st, "kind": "crw", "t": t, "lat": to_units(lat), "lon": to_units(lon),
                 "alt": rng.choice([800001, 0, -100000, 800000, 16350]), "conf": conf}
        reqs.append(r)
        # next request: same instant, inside the running event, or after it
        g = rng.random()
        if g < 0.15:
            dt = 0
        elif g < 0.75:
            dt = rng.randrange(1, 3000)
        else:
            dt = rng.randrange(1, 30000)
        t += dt
    return {"stations": stations, "requests": reqs}


def calibrate(ctx):
    """traced source lines of one activation of a repetition thread (first / later repetition) and of a
    collision risk request: the range from which the generator draws the line at which a task is suspended"""
    sc = {"stations": [{"id": 1, "seq0": 0}], "count_steps": True,
          "requests": [{"st": 0, "kind": "ev", "t": 0, "lat": 1.0, "lon": 1.0, "alt": 0.0, "i": 100, "T": 200},
                       {"st": 0, "kind": "crw", "t": 1000, "lat": 1, "lon": 1, "alt": 800001, "conf": "unavailable"}]}
    got = {}
    try:
        run_scenario(ctx, sc, "calibration")
        for (tag, k, n) in _Env.last_activations:
            got[(tag, k)] = n
    except Exception:
        pass
    _Env.steps = {"ev0": max(8, got.get(((0, 0), 0), 120)), "ev": max(8, got.get(((0, 0), 1), 120)),
                  "crw": max(8, got.get(((0, 1), 0), 100))}
    return _Env.steps


def draw_line(rng, steps, kind):
    """the source line (counted from the start of the activation) at which a task is suspended: uniform over
    the activation; for a first activation one time in three among its first lines (the call of
    next_sequence_number lies there)"""
    if kind in ("ev0", "crw") and rng.random() < 0.33:
        return rng.randrange(1, 13 if kind == "ev0" else 41)
    return rng.randrange(1, steps[kind] + 1)


def set_cut(r, k, n):
    cuts = {int(a): int(b) for (a, b) in r.get("cut", [])}
    cuts.setdefault(k, n)
    r["cut"] = [[a, cuts[a]] for a in sorted(cuts)]


def interleaved_scenario(rng, steps):
    """events of one process whose DENMs are under construction at the same instant, with the thread of one of
    them suspended at a source line drawn uniformly from the lines of that activation: requests placed on the
    repetition instants of running events and on the instant of the previous request, running events with
    common repetition instants (equal / multiple intervals), collision risk requests suspended in the
    caller's thread (made before or after the repetitions of their instant)"""
    n_st = rng.choice([1, 1, 1, 2])
    ids = rng.sample(range(0, 2 ** 32), n_st) if rng.random() < 0.8 else rng.sample([0, 1, 2 ** 32 - 1, 77], n_st)
    stations = [{"id": ids[k], "seq0": rng.choice([0, 65534, 65535, rng.randrange(0, SEQ_MOD)])} for k in range(n_st)]
    t, reqs, running = 0, [], []        # running: (request index, t0, interval, repetitions)
    for q in range(rng.randrange(2, 7)):
        st = rng.randrange(n_st)
        cands = [(a, k) for a in running for k in range(a[3]) if a[1] + k * a[2] >= t]
        g = rng.random()
        partner = None
        if q and cands and g < 0.6:
            partner = rng.choice(cands)
            t = partner[0][1] + partner[1] * partner[0][2]
        elif q and g >= 0.8:
            t += rng.randrange(1, 1500)
        if rng.random() < 0.6:
            if running and rng.random() < 0.5:
                i = min(10000, max(100, rng.choice(running)[2] * rng.choice([1, 1, 2])))
            else:
                i = rng.choice([100, 200, 250, 500, 1000, rng.randrange(100, 1001)])
            n_rep = rng.randrange(1, 6)
            T = max(1, n_rep * i + rng.choice([-1, 0, 0, 0]))
            lat, lon = rand_pos(rng)
            r = {"st": st, "kind": "ev", "t": t, "lat": lat, "lon": lon, "alt": rng.choice([None, 0.0, 163.5, -50.25]),
                 "i": i, "T": T}
            if rng.random() < 0.05:
                r[rng.choice(["lat", "lon"])] = None
            if rng.random() < 0.35:
                set_cut(r, 0, draw_line(rng, steps, "ev0"))
            running.append((len(reqs), t, i, ceil_div(T, i)))
        else:
            lat, lon = rand_pos(rng)
            r = {"st": st, "kind": "crw", "t": t, "lat": to_units(lat), "lon": to_units(lon),
                 "alt": rng.choice([800001, 0, -100000, 16350]), "conf": rng.choice(ALT_CONF)}
            if rng.random() < 0.4:
                set_cut(r, 0, draw_line(rng, steps, "crw"))
                if rng.random() < 0.5:
                    r["early"] = True
        reqs.append(r)
        if partner is not None:
            a, k = partner
            set_cut(reqs[a[0]], k, draw_line(rng, steps, "ev0" if k == 0 else "ev"))
    # running events with a common repetition instant: one of them is suspended there
    for a in running:
        for k in range(1, a[3]):
            ta = a[1] + k * a[2]
            if any(b is not a and b[1] <= ta < b[1] + b[3] * b[2] and (ta - b[1]) % b[2] == 0 for b in running) \
                    and rng.random() < 0.5:
                set_cut(reqs[a[0]], k, draw_line(rng, steps, "ev"))
    return {"stations": stations, "requests": reqs}


def wrap_scenario(rng, n):
    """many short events of one station across the 16-bit wrap of the sequence number"""
    seq0 = (SEQ_MOD - n // 2) % SEQ_MOD
    reqs, t = [], 0
    for k in range(n):
        if k % 5 == 4:
            lat, lon = rand_pos(rng)
            reqs.append({"st": 0, "kind": "crw", "t": t, "lat": to_units(lat), "lon": to_units(lon), "alt": 800001,
                         "conf": "unavailable"})
        else:
            lat, lon = rand_pos(rng)
            reqs.append({"st": 0, "kind": "ev", "t": t, "lat": lat, "lon": lon, "alt": None, "i": 100,
                         "T": rng.choice([100, 150, 200, 0])})
        t += rng.choice([0, 50, 100, 250])
    return {"stations": [{"id": rng.randrange(0, 2 ** 32), "seq0": seq0}], "requests": reqs}


def full_cycle_scenario(rng):
    """65 540 one-DENM events of one station: every sequence number is used once before any reuse
    (kept in compact form; expanded by run_scenario)"""
    return {"stations": [{"id": 4242, "seq0": rng.randrange(0, SEQ_MOD)}],
            "generate": {"kind": "crw_series", "n": SEQ_MOD + 4}}


def expand(sc):
    g = sc.get("generate")
    if not g:
        return sc
    if g["kind"] != "crw_series":
        raise ValueError("unknown scenario generator")
    reqs = []
    for k in range(g["n"]):
        reqs.append({"st": 0, "kind": "crw", "t": k, "lat": (k * 7919) % 1800000001 - 900000000,
                     "lon": (k * 104729) % 3600000001 - 1800000000, "alt": 800001, "conf": "unavailable"})
    return {"stations": sc["stations"], "requests": reqs}


# ---------------------------------------------------------------------------
# reception

class LdmStub:
    """IF.LDM.3 of an LDM facility, capturing the requests"""

    def __init__(self):
        self.if_ldm_3 = self
        self.registered = []
        self.added = []

    def register_data_provider(self, req):
        self.registered.append(req)

    def add_provider_data(self, req):
        self.added.append(req)


def rand_mgmt(rng, lat, lon, alt):
    m = {"actionId": {"originatingStationId": rng.choice([0, 1, 2 ** 32 - 1, rng.randrange(0, 2 ** 32)]),
                      "sequenceNumber": rng.choice([0, 65535, rng.randrange(0, SEQ_MOD)])},
         "detectionTime": rng.choice([0, 4398046511103, rng.randrange(0, 2 ** 42)]),
         "referenceTime": rng.choice([0, 4398046511103, rng.randrange(0, 2 ** 42)]),
         "eventPosition": {"latitude": lat, "longitude": lon,
                           "positionConfidenceEllipse": {"semiMajorConfidence": rng.choice([0, 1, 4094, 4095]),
                                                         "semiMinorConfidence": rng.choice([0, 1, 4094, 4095]),
                                                         "semiMajorOrientation": rng.choice([0, 900, 3600, 3601])},
                           "altitude": {"altitudeValue": alt, "altitudeConfidence": rng.choice(ALT_CONF)}},
         "stationType": rng.choice([0, 5, 10, 15, 255])}
    term = rng.choice([None, None, "isCancellation", "isNegation"])
    if term:
        m["termination"] = term
    if rng.random() < 0.6:
        m["awarenessDistance"] = rng.choice(AWARENESS)
    if rng.random() < 0.6:
        m["trafficDirection"] = rng.choice(DIRECTION)
    if rng.random() < 0.7:
        m["validityDuration"] = rng.choice([0, 1, 599, 600, 601, 86400, rng.randrange(0, 86401)])
    if rng.random() < 0.6:
        m["transmissionInterval"] = rng.choice([1, 100, 10000, rng.randrange(1, 10001)])
    return m, term


def rx_positions(rng, n):
    edge_lat = [LAT_MIN, LAT_MIN + 1, -1, 0, 1, LAT_MAX - 1, LAT_MAX, 900000001]
    edge_lon = [-1800000000, -1799999999, -1, 0, 1, 1799999999, 1800000000, 1800000001]
    out = [(a, b, alt) for a in edge_lat for b in edge_lon for alt in (-100000, 0, 800001)]
    while len(out) < n:
        out.append((rng.randrange(LAT_MIN, 900000002), rng.randrange(-1800000000, 1800000002),
                    rng.randrange(-100000, 800002)))
    return out[:max(n, 192)]


def reception_cases(ctx, n, real_every=1, cases=None):
    setup_env()
    from flexstack.facilities.decentralized_environmental_notification_service.den_service import (
        DecentralizedEnvironmentalNotificationService)
    from flexstack.facilities.ca_basic_service.cam_transmission_management import VehicleData
    from flexstack.facilities.local_dynamic_map.factory import LDMFactory
    from flexstack.facilities.local_dynamic_map.ldm_classes import Location
    from flexstack.btp.service_access_point import BTPDataIndication
    import dataclasses
    VCLOCK.set_ms(BASE_MS)
    stub, btp1 = LdmStub(), BtpStub(0)
    den1 = DecentralizedEnvironmentalNotificationService(btp1, VehicleData(station_id=9, station_type=5), stub)
    ldm = LDMFactory().create_ldm(Location.location_builder_circle(latitude=0, longitude=0, altitude=0, radius=1000),
                                  "Reactive", "Reactive", "Dictionary")
    btp2 = BtpStub(1)
    den2 = DecentralizedEnvironmentalNotificationService(btp2, VehicleData(station_id=10, station_type=5), ldm)
    coder = den1.denm_coder
    if 2002 not in btp1.callbacks or 2002 not in btp2.callbacks:
        ctx.property_failure("rx_not_registered", None, "the reception management did not register on port 2002")
        return
    if cases is None:
        cases = []
        for (lat, lon, alt) in rx_positions(ctx.rng, n):
            m, term = rand_mgmt(ctx.rng, lat, lon, alt)
            cases.append({"management": m, "with_situation": term is None or ctx.rng.random() < 0.3})
    reqs3, reqs4, obs = [], [], []
    for idx, case in enumerate(cases):
        m = case["management"]
        lat, lon = m["eventPosition"]["latitude"], m["eventPosition"]["longitude"]
        alt = m["eventPosition"]["altitude"]["altitudeValue"]
        denm = {"header": {"protocolVersion": 2, "messageId": 1, "stationId": m["actionId"]["originatingStationId"]},
                "denm": {"management": m}}
        if case["with_situation"]:
            denm["denm"]["situation"] = {"informationQuality": 7, "eventType": {"ccAndScc": ("collisionRisk97", 4)}}
            denm["denm"]["location"] = {"detectionZonesToEventPosition": [[{"pathPosition": {
                "deltaLatitude": 131072, "deltaLongitude": 131072, "deltaAltitude": 12800}}]]}
        data = coder.encode(denm)
        pre = read_prefix(data)
        ind = dataclasses.replace(BTPDataIndication(), destination_port=2002, length=len(data), data=data)
        inp = {"op": "receive", "case": case}
        ctx.count(1, "rx_stub_ldm")
        before = len(stub.added)
        err = None
        try:
            btp1.callbacks[2002](ind)
        except Exception as e:
            err = type(e).__name__
        want = [lat, lon, alt]
        got = None
        if err is None and len(stub.added) == before + 1:
            rq = stub.added[-1]
            rp = rq.location.reference_position
            circ = rq.location.reference_area.geometric_area.circle
            as_dict = dict(rq)["location"]["referencePosition"]
            got = [rp.latitude, rp.longitude, rp.altitude.altitude_value, circ.radius if circ is not None else -1]
            if [as_dict["latitude"], as_dict["longitude"], as_dict["altitude"]["altitudeValue"]] != got[:3]:
                ctx.property_failure("rx_position", inp, "dict form of the LDM request disagrees with its location",
                                     got[:3], as_dict)
            if rq.data_object["denm"]["management"]["eventPosition"] != m["eventPosition"] or \
                    rq.data_object["denm"]["management"]["actionId"] != m["actionId"]:
                ctx.property_failure("rx_object", inp, "stored data object is not the received DENM",
                                     m["eventPosition"], rq.data_object["denm"]["management"]["eventPosition"])
        if got is None or got[:3] != want:
            ctx.property_failure("rx_position", inp, "received DENM is not stored in the LDM at its event position",
                                 want, got if got is not None else err)
        else:
            ctx.nontriv(("rx", lat, lon, alt, tuple(sorted(k for k in m))))
        if idx % real_every == 0:
            ctx.count(1, "rx_real_ldm")
            n0 = len(ldm.ldm_maintenance.get_all_data_containers())
            err2 = None
            try:
                btp2.callbacks[2002](ind)
            except Exception as e:
                err2 = type(e).__name__
            recs = ldm.ldm_maintenance.get_all_data_containers()
            got2 = None
            if err2 is None and len(recs) == n0 + 1:
                rec = recs[-1]
                rp = rec["location"]["referencePosition"]
                got2 = [rp["latitude"], rp["longitude"], rp["altitude"]["altitudeValue"]]
                obj = rec["dataObject"]["denm"]["management"]
                if obj["eventPosition"] != m["eventPosition"] or obj["actionId"] != m["actionId"]:
                    ctx.property_failure("rx_object", inp, "record of the real LDM does not hold the received DENM",
                                         m["eventPosition"], obj["eventPosition"])
            if got2 != want:
                ctx.property_failure("rx_position", inp, "received DENM is not stored in the real LDM at its event "
                                     "position", want, got2 if got2 is not None else err2)
        reqs3.append((3, [lat, lon, alt]))
        reqs4.append((4, [pre["ulat"], pre["ulon"], pre["ualt"]]))
        obs.append((inp, [pre["ulat"], pre["ulon"], pre["ualt"]], got))
    if ctx.model and ctx.model.available:
        r3, r4 = ctx.model.batch(reqs3), ctx.model.batch(reqs4)
        for (inp, wire, got), a, b in zip(obs, r3, r4):
            if a != wire:
                ctx.mismatch("coordinates on the wire = Den.wire_enc", inp, a, wire)
            if got is not None and b != got:
                ctx.mismatch("LDM record of a received DENM = Den.rx_wire", inp, b, got)
    if obs:
        ctx.sample({"received": obs[len(obs) // 2][0]["case"]["management"]["eventPosition"],
                    "stored(lat,lon,alt,radius)": obs[len(obs) // 2][2]})


# ---------------------------------------------------------------------------
# shrinking of a failing scenario

class _Probe:
    """stands in for the context while a candidate scenario is evaluated"""
    tier = "quick"
    model = None

    def __init__(self, known):
        self.classes = []
        self.known = known

    def property_failure(self, cls, inp, detail, expected=None, observed=None):
        self.classes.append(cls)

    def mismatch(self, *a, **k):
        pass

    def count(self, *a, **k):
        pass

    def nontriv(self, *a, **k):
        pass

    def sample(self, *a, **k):
        pass


def still_fails(sc, cls, known):
    p = _Probe(known)
    try:
        run_scenario(p, sc, "shrink")
    except Exception:
        return False
    return cls in p.classes


def shrink(sc, cls, known, budget=80):
    best = sc
    changed = True
    while changed and budget > 0:
        changed = False
        for k in range(len(best["requests"]) - 1, -1, -1):
            if len(best["requests"]) <= 1 or budget <= 0:
                break
            cand_reqs = best["requests"][:k] + best["requests"][k + 1:]
            used = sorted({r["st"] for r in cand_reqs})
            remap = {old: new for new, old in enumerate(used)}
            cand = {"stations": [best["stations"][o] for o in used],
                    "requests": [dict(r, st=remap[r["st"]]) for r in cand_reqs]}
            budget -= 1
            if still_fails(cand, cls, known):
                best, changed = cand, True
    # suspensions that are not needed for the failure
    for k in range(len(best["requests"])):
        r = best["requests"][k]
        for c in list(r.get("cut", [])):
            if budget <= 0:
                break
            r2 = dict(best["requests"][k])
            r2["cut"] = [x for x in r2["cut"] if x != c]
            if not r2["cut"]:
                del r2["cut"]
                r2.pop("early", None)
            cand = {"stations": best["stations"], "requests": best["requests"][:k] + [r2] + best["requests"][k + 1:]}
            budget -= 1
            if still_fails(cand, cls, known):
                best = cand
    # smaller durations keep replays readable
    for k, r in enumerate(best["requests"]):
        if r["kind"] == "ev" and budget > 0:
            for T in (r["i"] * 2, r["i"] * 3):
                if T < r["T"]:
                    cand = {"stations": best["stations"],
                            "requests": best["requests"][:k] + [dict(r, T=T)] + best["requests"][k + 1:]}
                    budget -= 1
                    if still_fails(cand, cls, known):
                        best = cand
                        break
    return best


def run_shrunk(ctx, sc, label):
    """run a scenario; when it fails, report the failure on a reduced scenario"""
    n0 = len(ctx.failures)
    run_scenario(ctx, sc, label)
    if len(ctx.failures) > n0 and 2 < len(sc.get("requests", [])) <= 1000 and n0 < 3:
        cls = ctx.failures[n0]["class"]
        small = shrink(sc, cls, ctx.known)
        if len(small["requests"]) < len(sc["requests"]):
            kept = ctx.failures[n0:]
            del ctx.failures[n0:]
            run_scenario(ctx, small, label + "_shrunk")
            if len(ctx.failures) == n0:      # not reproduced on the real context: keep the original
                ctx.failures.extend(kept)


def corpus_inputs():
    import glob
    import os
    out = []
    for f in sorted(glob.glob(os.path.join(common.VERIF, "corpus", "C17", "*.json"))):
        out.append(json.load(open(f)))
    return out


def run(ctx):
    ctx.rule = ("request sequences (emergency-vehicle triggers with interval 100..10000 ms and duration 0..60 s incl. "
                "exact multiples and +-1 ms, collision risk warnings; 1-3 stations; requests at the same instant, "
                "inside running events, and apart; positions over the signed range incl. poles and antimeridian; "
                "sequence counter preset near and across its 16-bit wrap) run through the real DEN service on a "
                "virtual-time thread runner, every BTP request captured and its DENM decoded; events whose DENMs are "
                "under construction at the same instant with one thread suspended between two source lines of the DEN "
                "service (line drawn uniformly over the activation; kinds cut_in_<function>) while the other "
                "requests / repetitions of that instant run; received DENMs with "
                "varied management containers fed through the real reception management into an IF.LDM.3 stub and a "
                "real LDM. Non-trivial = a request that is admissible (distinct by interval, duration, position) / a "
                "received DENM that was stored (distinct by position and set of optional members)")
    for k in ctx.known:
        w = k["witness"]
        run_scenario(ctx, w["scenario"], "known_witness")
    for c in corpus_inputs():
        if "scenario" in c:
            run_scenario(ctx, c["scenario"], "corpus")
        elif "cases" in c:
            reception_cases(ctx, 0, cases=c["cases"])
    schedule_cases(ctx, boundary_pairs(), "boundary")
    quick = ctx.tier == "quick"
    rnd_pairs = []
    for _ in range(150 if quick else 4000):
        i = rand_interval(ctx.rng)
        rnd_pairs.append((i, rand_duration(ctx.rng, i)))
    schedule_cases(ctx, rnd_pairs, "random_pairs")
    for n in range(60 if quick else 2000):
        sc = random_scenario(ctx.rng, ctx.rng.randrange(2, 14), int_conf=(n % 7 == 0))
        run_shrunk(ctx, sc, "overlap")
        if n < 3:
            ctx.sample({"scenario": sc})
    for _ in range(2 if quick else 20):
        run_shrunk(ctx, wrap_scenario(ctx.rng, 120 if quick else 600), "wrap")
    if not quick:
        run_scenario(ctx, full_cycle_scenario(ctx.rng), "full_cycle")
    reception_cases(ctx, 400 if quick else 12000, real_every=1 if quick else 3)
    steps = calibrate(ctx)
    for n in range(60 if quick else 1500):
        sc = interleaved_scenario(ctx.rng, steps)
        run_shrunk(ctx, sc, "interleaved")
        if n < 2:
            ctx.sample({"scenario": sc})
    flush_interleaved(ctx)
    ctx.exhaustive = False


def replay(ctx, data):
    common.use_repo_sources()
    f = data.get("failure") or (data.get("broken") or [{}])[-1].get("first")
    print(json.dumps(f, default=str)[:3000])
    inp = f["input"]
    ctx.model = common.Model(MODEL_NAME)
    if "scenario" in inp:
        run_scenario(ctx, inp["scenario"], "replay")
        flush_interleaved(ctx)
    elif inp.get("op") == "receive":
        reception_cases(ctx, 0, cases=[inp["case"]])
    elif "i" in inp and "T" in inp:
        schedule_cases(ctx, [(inp["i"], inp["T"])], "replay")
    bad = ctx.failures or ctx.mismatches or ctx.known_hits
    print("REPRODUCED" if bad else "NOT REPRODUCED")
    for r in (ctx.failures + ctx.mismatches + list(ctx.known_hits.values()))[:3]:
        print(json.dumps({k: v for k, v in r.items() if k != "input"}, default=str)[:2000])
    return 1 if bad else 0
