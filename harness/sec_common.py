"""Shared helpers of the security checks C09, C03, C05.

* an independent PKI: keys, signatures and hashes are made with the `ecdsa` and
  `hashlib` packages applied directly to the OER bytes produced by an asn1tools
  coder compiled here from the ASN.1 text (never through flexstack.security);
* the abstraction of certificates / secured messages into the integer records
  of coq/theories/Model/Sec.v (wire grammar of Sec.rd_cert, rd_msg, rd_op);
* the independent oracle table sig_ok(key, bytes, signature);
* drivers for the real CertificateLibrary / SignService / VerifyService.
"""
from __future__ import annotations

import copy
import hashlib
from fractions import Fraction

import asn1tools
import ecdsa

from .stack import VCLOCK, patch_time

CURVE = ecdsa.NIST256p
ORDER = CURVE.order
TICKS = 1 << 22            # clock ticks per second (Sec.one_second)
YEAR_US = 31_556_952_000_000
UNIT_US = {"microseconds": 1, "milliseconds": 1_000, "seconds": 1_000_000, "minutes": 60_000_000,
           "hours": 3_600_000_000, "sixtyHours": 216_000_000_000, "years": YEAR_US}
ITS_EPOCH_S = 1072915200

REPORT = {0: "SUCCESS", 1: "FALSE_SIGNATURE", 2: "INVALID_CERTIFICATE", 4: "INCONSISTENT_CHAIN",
          5: "INVALID_TIMESTAMP", 9: "SIGNER_CERTIFICATE_NOT_FOUND", 10: "UNSUPPORTED_SIGNER_IDENTIFIER_TYPE",
          11: "INCOMPATIBLE_PROTOCOL"}

_CODER = None


def coder():
    """our own OER coder for IEEE 1609.2 / TS 103 097 (asn1tools is the trusted codec)"""
    global _CODER
    if _CODER is None:
        from flexstack.security.security_asn1 import SECURITY_ASN1_DESCRIPTIONS
        _CODER = asn1tools.compile_string(SECURITY_ASN1_DESCRIPTIONS, codec="oer")
    return _CODER


def enc_cert(d: dict) -> bytes:
    return coder().encode("EtsiTs103097Certificate", d)


def enc_tbs_cert(tbs: dict) -> bytes:
    return coder().encode("ToBeSignedCertificate", tbs)


def enc_tbs_data(tbs: dict) -> bytes:
    return coder().encode("ToBeSignedData", tbs)


def enc_data(d: dict) -> bytes:
    return coder().encode("EtsiTs103097Data", d)


def dec_data(b: bytes) -> dict:
    return coder().decode("EtsiTs103097Data", b)


def hashed_id8(d: dict) -> bytes:
    return hashlib.sha256(enc_cert(d)).digest()[-8:]


# ---------------------------------------------------------------------------
# keys and signatures (ecdsa package, deterministic from the run's PRNG)

class Pki:
    def __init__(self, rng):
        self.rng = rng
        self.keys = []

    def new_key(self) -> int:
        sk = ecdsa.SigningKey.from_secret_exponent(self.rng.randrange(1, ORDER), curve=CURVE)
        self.keys.append(sk)
        return len(self.keys) - 1

    def pub(self, k: int, form: str = "uncompressed"):
        p = self.keys[k].verifying_key.pubkey.point
        x, y = p.x().to_bytes(32, "big"), p.y().to_bytes(32, "big")
        if form == "uncompressed":
            return ("ecdsaNistP256", ("uncompressedP256", {"x": x, "y": y}))
        if form == "compressed":
            return ("ecdsaNistP256", ("compressed-y-%d" % (p.y() & 1), x))
        if form == "offcurve":
            y2 = ((p.y() + 1) % CURVE.curve.p()).to_bytes(32, "big")
            return ("ecdsaNistP256", ("uncompressedP256", {"x": x, "y": y2}))
        if form == "brainpool":
            return ("ecdsaBrainpoolP256r1", ("uncompressedP256", {"x": x, "y": y}))
        raise ValueError(form)

    def sign(self, k: int, data: bytes, mode: str = "ok"):
        sig = self.keys[k].sign_deterministic(data, hashfunc=hashlib.sha256)
        r, s = ecdsa.util.sigdecode_string(sig, ORDER)
        if mode == "flip_s":
            s ^= 1 << self.rng.randrange(0, 250)
        elif mode == "flip_r":
            r ^= 1 << self.rng.randrange(0, 250)
        elif mode == "zero":
            r, s = 0, 0
        rb, sb = r.to_bytes(32, "big"), s.to_bytes(32, "big")
        if mode == "compressed_r":
            return ("ecdsaNistP256Signature", {"rSig": ("compressed-y-0", rb), "sSig": sb})
        return ("ecdsaNistP256Signature", {"rSig": ("x-only", rb), "sSig": sb})

    def import_into(self, backend, k: int) -> int:
        """make key k usable by a real PythonECDSABackend (returns the backend's key id)"""
        ident = len(backend.keys)
        backend.keys[ident] = self.keys[k]
        return ident


def ecdsa_ok(xy, data: bytes, rs) -> bool:
    """ECDSA-P256/SHA-256 verification with the ecdsa package; any failure is False"""
    try:
        x, y = xy
        point = ecdsa.ellipticcurve.Point(CURVE.curve, x, y, ORDER)
        vk = ecdsa.VerifyingKey.from_public_point(point, curve=CURVE)
        sig = ecdsa.util.sigencode_string(rs[0], rs[1], ORDER)
        return bool(vk.verify_digest(sig, hashlib.sha256(data).digest()))
    except Exception:  # noqa: BLE001  bad point, bad signature, out of range
        return False


# ---------------------------------------------------------------------------
# certificate dictionaries

def issue_entry(sub, chain, rng_range=0):
    return {"subjectPermissions": ("all", None) if sub == "all" else ("explicit", [{"psid": p} for p in sub]),
            "minChainLength": chain, "chainLengthRange": rng_range, "eeType": (b"\x00", 1)}


def make_tbs(name, app, issue, start_s, duration, key_pub, enc_key=False) -> dict:
    """name None -> id none; app None -> no appPermissions; issue None -> no certIssuePermissions,
    else list of (sub, chain) with sub 'all' or a PSID list."""
    d = {"id": ("name", name) if name is not None else ("none", None), "cracaId": b"\x00\x00\x00", "crlSeries": 0,
         "validityPeriod": {"start": start_s, "duration": duration}}
    if app is not None:
        d["appPermissions"] = [{"psid": p} for p in app]
    if issue is not None:
        d["certIssuePermissions"] = [issue_entry(s, n) for (s, n) in issue]
    d["verifyKeyIndicator"] = ("verificationKey", key_pub)
    return d


def make_cert(pki: Pki, tbs: dict, issuer_field, sign_key: int, sig_mode: str = "ok", ctype: str = "explicit",
              version: int = 3) -> dict:
    return {"version": version, "type": ctype, "issuer": issuer_field, "toBeSigned": tbs,
            "signature": pki.sign(sign_key, enc_tbs_cert(tbs), sig_mode)}


def validity_us(cert: dict):
    v = cert["toBeSigned"]["validityPeriod"]
    unit, n = v["duration"]
    start = v["start"] * 1_000_000
    return start, start + n * UNIT_US[unit]


def app_psids(cert: dict):
    a = cert["toBeSigned"].get("appPermissions")
    return None if a is None else [e["psid"] for e in a]


def issue_entries(cert: dict):
    """None or list of ('all'|[psids], minChainLength)"""
    ip = cert["toBeSigned"].get("certIssuePermissions")
    if ip is None:
        return None
    out = []
    for e in ip:
        sp = e["subjectPermissions"]
        out.append(("all" if sp[0] == "all" else [x["psid"] for x in sp[1]] if sp[0] == "explicit" else [],
                    e.get("minChainLength", 1)))
    return out


def key_xy(cert: dict):
    """(x, y) of an uncompressed NIST P-256 verification key, else None"""
    vki = cert["toBeSigned"].get("verifyKeyIndicator")
    try:
        if vki[0] == "verificationKey" and vki[1][0] == "ecdsaNistP256" and vki[1][1][0] == "uncompressedP256":
            return (int.from_bytes(vki[1][1][1]["x"], "big"), int.from_bytes(vki[1][1][1]["y"], "big"))
    except Exception:  # noqa: BLE001
        pass
    return None


def sig_rs(signature):
    try:
        if signature[0] == "ecdsaNistP256Signature" and signature[1]["rSig"][0] == "x-only":
            return (int.from_bytes(signature[1]["rSig"][1], "big"), int.from_bytes(signature[1]["sSig"], "big"))
    except Exception:  # noqa: BLE001
        pass
    return None


# ---------------------------------------------------------------------------
# independent reading of the property: chains, permissions (used by the oracles)

def perms_contained(sub: dict, iss: dict) -> bool:
    """permissions of `sub` (application + issuing) contained in the issuing permissions of `iss`"""
    ie = issue_entries(iss) or []
    if any(s == "all" for s, _ in ie):
        return True
    allowed = set(p for s, _ in ie for p in s)
    se = issue_entries(sub) or []
    if any(s == "all" for s, _ in se):
        return False
    need = set(p for s, _ in se for p in s) | set(app_psids(sub) or [])
    return need <= allowed


def link_ok(sub: dict, iss: dict, cache=None) -> tuple:
    """(ok, reason): sub names iss as issuer, permissions contained, signature verifies under iss' key"""
    if sub["issuer"][0] != "sha256AndDigest" or sub["issuer"][1] != hashed_id8(iss):
        return False, "issuer_digest"
    if not perms_contained(sub, iss):
        return False, "perm_escalation"
    xy, rs = key_xy(iss), sig_rs(sub.get("signature"))
    if xy is None or rs is None:
        return False, "bad_signature"
    data = enc_tbs_cert(sub["toBeSigned"])
    k = (xy, data, rs)
    if cache is not None and k in cache:
        ok = cache[k]
    else:
        ok = ecdsa_ok(xy, data, rs)
        if cache is not None:
            cache[k] = ok
    return (ok, "" if ok else "bad_signature")


# ---------------------------------------------------------------------------
# abstraction into the records of Model/Sec.v

class Reg:
    """assigns the integer identifiers of the model and computes the oracle table"""

    def __init__(self):
        self.cert_ix = {}      # OER bytes -> table index (1-based)
        self.certs = []        # dicts
        self.flat = []         # flattened records
        self.abs = []          # readable abstract records
        self.keys = {}         # (x, y) -> id
        self.key_raw = {}
        self.tbs = {}          # bytes -> id
        self.tbs_raw = {}
        self.sigs = {}         # (r, s) -> id
        self.sig_raw = {}
        self.payloads = {}     # bytes -> id
        self.payload_raw = {}
        self.vcache = {}
        self.exotic = False    # something the abstraction cannot represent faithfully was seen
        self.exotic_certs = set()

    @staticmethod
    def _id(table, raw, v):
        if v not in table:
            table[v] = len(table) + 1
            raw[table[v]] = v
        return table[v]

    def key_id(self, cert: dict) -> int:
        xy = key_xy(cert)
        if xy is None:
            return 0
        x, y = xy
        p = CURVE.curve.p()
        if not (x < p and y < p and CURVE.curve.contains_point(x, y)):
            return 0
        return self._id(self.keys, self.key_raw, xy)

    def sig_id(self, signature) -> int:
        rs = sig_rs(signature)
        return 0 if rs is None else self._id(self.sigs, self.sig_raw, rs)

    def tbs_id(self, data: bytes) -> int:
        return self._id(self.tbs, self.tbs_raw, bytes(data))

    def payload_id(self, data: bytes) -> int:
        return self._id(self.payloads, self.payload_raw, bytes(data))

    def cert(self, d: dict) -> int:
        enc = enc_cert(d)
        if enc in self.cert_ix:
            if self.cert_ix[enc] in self.exotic_certs:
                self.exotic = True
            return self.cert_ix[enc]
        ix = len(self.certs) + 1
        self.cert_ix[enc] = ix
        self.certs.append(copy.deepcopy(d))
        tbs = d["toBeSigned"]
        vki = tbs.get("verifyKeyIndicator")
        iss = d["issuer"]
        if iss[0] == "self":
            ik, idg = (0, 0) if iss[1] == "sha256" else (1, 0)
        elif iss[0] == "sha256AndDigest":
            ik, idg = 2, int.from_bytes(iss[1], "big")
        else:
            ik, idg = 3, int.from_bytes(iss[1], "big")
        app = app_psids(d)
        ie = issue_entries(d)
        try:
            start, end = validity_us(d)
        except Exception:  # noqa: BLE001
            start, end = 1, 0
            self.exotic = True
            self.exotic_certs.add(ix)
        if "signature" not in d:
            self.exotic = True
            self.exotic_certs.add(ix)
        ctype = d.get("type")
        type_ok = d.get("version") == 3 and (
            (ctype == "explicit" and vki is not None and vki[0] == "verificationKey") or
            (ctype == "implicit" and vki is not None and vki[0] == "reconstructionValue"))
        sig = d.get("signature")
        alg_ok = bool(sig is not None and sig[0] == "ecdsaNistP256Signature" and vki is not None
                      and vki[0] == "verificationKey" and vki[1][0] == "ecdsaNistP256")
        rec = {"cid": ix, "dig": int.from_bytes(hashlib.sha256(enc).digest()[-8:], "big"), "issuer": (ik, idg),
               "idnone": tbs["id"][0] == "none", "app": app, "issue": ie, "start": start, "end": end,
               "key": self.key_id(d), "sig": self.sig_id(sig), "tbs": self.tbs_id(enc_tbs_cert(tbs)),
               "type_ok": bool(type_ok), "alg_ok": alg_ok}
        self.abs.append(rec)
        f = [rec["cid"], rec["dig"], ik, idg, int(rec["idnone"])]
        f += [1, len(app)] + list(app) if app is not None else [0, 0]
        if ie is None:
            f += [0, 0]
        else:
            f += [1, len(ie)]
            for s, n in ie:
                f += [0, n, 0] if s == "all" else [1, n, len(s)] + list(s)
        f += [start, end, rec["key"], rec["sig"], rec["tbs"], int(rec["type_ok"]), int(rec["alg_ok"])]
        self.flat.append(f)
        return ix

    def opt(self, d) -> int:
        return 0 if d is None else self.cert(d)

    # -- messages --------------------------------------------------------
    def msg(self, raw: bytes) -> dict:
        """abstract record of a secured message given as bytes"""
        bad = {"ok": False, "signer": ("other",), "psid": 0, "gen": None, "genloc": False, "learn": False,
               "crl": False, "expiry": False, "enckey": False, "inline": None, "reqcert": 0, "payload": 0,
               "tbs": 0, "sig": 0, "payload_bytes": None}
        try:
            d = dec_data(raw)
        except Exception:  # noqa: BLE001
            return bad
        return self.msg_dict(d, bad)

    def msg_dict(self, d: dict, bad=None) -> dict:
        if bad is None:
            bad = {"ok": False, "signer": ("other",), "psid": 0, "gen": None, "genloc": False, "learn": False,
                   "crl": False, "expiry": False, "enckey": False, "inline": None, "reqcert": 0, "payload": 0,
                   "tbs": 0, "sig": 0, "payload_bytes": None}
        try:
            if d["content"][0] != "signedData":
                return bad
            sd = d["content"][1]
            tbs = sd["tbsData"]
            data = enc_tbs_data(tbs)
            hi = tbs["headerInfo"]
            sg = sd["signer"]
            if sg[0] == "digest":
                signer = ("digest", int.from_bytes(sg[1], "big"))
            elif sg[0] == "certificate":
                signer = ("certs", [self.cert(c) for c in sg[1]])
            else:
                signer = ("other",)
            pl = tbs["payload"].get("data")
            pbytes = None
            if pl is not None and pl["content"][0] == "unsecuredData":
                pbytes = bytes(pl["content"][1])
            elif pl is not None:
                self.exotic = True
            if sd.get("hashId") != "sha256" or "extDataHash" in tbs["payload"]:
                pass  # the verifier ignores both
            inline = None
            if "inlineP2pcdRequest" in hi:
                inline = [int.from_bytes(h, "big") for h in hi["inlineP2pcdRequest"]]
            rc = self.cert(hi["requestedCertificate"]) if "requestedCertificate" in hi else 0
            return {"ok": True, "signer": signer, "psid": hi["psid"], "gen": hi.get("generationTime"),
                    "genloc": "generationLocation" in hi, "learn": "p2pcdLearningRequest" in hi,
                    "crl": "missingCrlIdentifier" in hi, "expiry": "expiryTime" in hi,
                    "enckey": "encryptionKey" in hi, "inline": inline, "reqcert": rc,
                    "payload": 0 if pbytes is None else self.payload_id(pbytes), "tbs": self.tbs_id(data),
                    "sig": self.sig_id(sd["signature"]), "payload_bytes": pbytes}
        except Exception:  # noqa: BLE001
            self.exotic = True
            return bad

    @staticmethod
    def flat_msg(m: dict) -> list:
        f = [int(m["ok"])]
        sg = m["signer"]
        if sg[0] == "digest":
            f += [0, sg[1]]
        elif sg[0] == "certs":
            f += [1, len(sg[1])] + list(sg[1])
        else:
            f += [2]
        f += [m["psid"], int(m["gen"] is not None), m["gen"] or 0, int(m["genloc"]), int(m["learn"]), int(m["crl"]),
              int(m["expiry"]), int(m["enckey"])]
        f += [0, 0] if m["inline"] is None else [1, len(m["inline"])] + list(m["inline"])
        f += [m["reqcert"], m["payload"], m["tbs"], m["sig"]]
        return f

    # -- oracle table ----------------------------------------------------
    def _fact(self, k, t, s):
        if not (k and t and s):
            return False
        key = (k, t, s)
        if key not in self.vcache:
            self.vcache[key] = ecdsa_ok(self.key_raw[k], self.tbs_raw[t], self.sig_raw[s])
        return self.vcache[key]

    def facts(self, msgs=()) -> list:
        """(key, bytes, signature) triples that verify, over every combination the
        model can ask for: a certificate against itself and against every certificate
        whose digest it names as issuer; a message against every certificate it names."""
        by_dig = {}
        for a in self.abs:
            by_dig.setdefault(a["dig"], []).append(a)
        out = set()
        for a in self.abs:
            cands = [a]
            if a["issuer"][0] == 2:
                cands += by_dig.get(a["issuer"][1], [])
            for i in cands:
                if self._fact(i["key"], a["tbs"], a["sig"]):
                    out.add((i["key"], a["tbs"], a["sig"]))
        for m in msgs:
            if not m["ok"]:
                continue
            if m["signer"][0] == "digest":
                cands = by_dig.get(m["signer"][1], [])
            elif m["signer"][0] == "certs":
                cands = [self.abs[i - 1] for i in m["signer"][1]]
                cands += [b for c in list(cands) for b in by_dig.get(c["dig"], [])]
            else:
                cands = []
            for c in cands:
                if self._fact(c["key"], m["tbs"], m["sig"]):
                    out.add((c["key"], m["tbs"], m["sig"]))
        return sorted(out)

    def header(self, msgs=(), mode=0) -> list:
        """[mode; nsig; sigs; ncert; certs] prefix of a model request"""
        fs = self.facts(msgs) if mode == 0 else []
        a = [mode, len(fs)]
        for t in fs:
            a += list(t)
        a.append(len(self.flat))
        for f in self.flat:
            a += f
        return a


# ---------------------------------------------------------------------------
# reading the model's reply

class Rd:
    def __init__(self, data):
        self.d = data
        self.i = 0

    def z(self):
        v = self.d[self.i]
        self.i += 1
        return v

    def lst(self):
        n = self.z()
        return [self.z() for _ in range(n)]

    def done(self):
        return self.i >= len(self.d)


def rd_res(r: Rd):
    k = r.z()
    if k == 0:
        return ["unit"]
    if k == 1:
        return ["crash"]
    if k == 2:
        return ["chain", None] if r.z() == 0 else ["chain", [r.z(), r.z()]]
    if k == 3:
        return ["verify", r.z(), r.z(), r.z()]
    if k == 4:
        signed = r.z()
        iss = [r.z(), r.z()]
        ap = r.z()
        app = r.lst()
        ip = r.z()
        n = r.z()
        ents = []
        for _ in range(n):
            kind, ch = r.z(), r.z()
            ps = r.lst()
            ents.append(["all" if kind == 0 else ps, ch])
        return ["cert", signed, iss, app if ap else None, ents if ip else None]
    if k == 5:
        sk = r.z()
        if sk == 0:
            signer = ["digest", r.z()]
        elif sk == 1:
            signer = ["certs", r.lst()]
        else:
            signer = ["other"]
        psid, gp, g, gl, le, cr, ex, ek = (r.z() for _ in range(8))
        ip = r.z()
        inl = r.lst()
        rc, pl = r.z(), r.z()
        return ["msg", signer, psid, g if gp else None, gl, le, cr, ex, ek, inl if ip else None, rc, pl]
    if k == 6:
        return ["deliver", r.z()]
    if k == 7:
        return ["drop"]
    raise ValueError(f"bad result tag {k}")


def rd_station(r: Rd):
    out = {}
    for name in ("roots", "aas", "ats", "owns"):
        n = r.z()
        out[name] = [[r.z(), r.z(), r.z()] for _ in range(n)]
    out["unknown"] = r.lst()
    out["requested"] = r.lst()
    out["last_full"] = r.z()
    out["req_own"] = r.z()
    return out


def parse_history(reply):
    """reply of cmd 1 -> list of (result, station dump)"""
    if len(reply) == 1 and reply[0] < 0:
        raise RuntimeError(f"model could not parse the request ({reply[0]})")
    r = Rd(reply)
    out = []
    while not r.done():
        n = r.z()
        end = r.i + n
        res = rd_res(r)
        stn = rd_station(r)
        assert r.i == end, "model reply framing"
        out.append((res, stn))
    return out


def parse_net(reply, nstations):
    if len(reply) == 1 and reply[0] < 0:
        raise RuntimeError(f"model could not parse the request ({reply[0]})")
    r = Rd(reply)
    out = []
    while not r.done():
        n = r.z()
        end = r.i + n
        r.z()
        res = rd_res(r)
        k = r.z()
        rs = []
        for _ in range(k):
            r.z()
            rs.append(rd_res(r))
        sts = []
        for _ in range(nstations):
            r.z()
            sts.append(rd_station(r))
        assert r.i == end, "model reply framing"
        out.append((res, rs, sts))
    return out


# ---------------------------------------------------------------------------
# the real stack

def ticks_of(t: float) -> int:
    f = Fraction(t) * TICKS
    if f.denominator != 1:
        raise ValueError(f"clock value {t!r} is not a multiple of 2^-22 s")
    return int(f)


def now_ticks() -> int:
    return ticks_of(VCLOCK.time())


class Station:
    """real CertificateLibrary + SignService + VerifyService on one backend"""

    def __init__(self, reg: Reg, pki: Pki, with_sign_service=True):
        from flexstack.security.certificate_library import CertificateLibrary
        from flexstack.security.ecdsa_backend import PythonECDSABackend
        from flexstack.security.sign_service import SignService
        from flexstack.security.verify_service import VerifyService
        patch_time()
        self.reg, self.pki = reg, pki
        self.backend = PythonECDSABackend()
        self.lib = CertificateLibrary(self.backend, [], [], [])
        self.sign = SignService(self.backend, self.lib)
        self.verify = VerifyService(self.backend, self.lib, self.sign if with_sign_service else None)
        self.objs = {}

    def obj(self, d, issuer=None, own_key=None):
        """real Certificate object for dict d with the issuer object attached"""
        from flexstack.security.certificate import Certificate, OwnCertificate
        if d is None:
            return None
        io = self.obj(issuer) if issuer is not None else None
        if own_key is not None:
            return OwnCertificate(certificate=copy.deepcopy(d), issuer=io, key_id=self.pki.import_into(self.backend, own_key))
        return Certificate(certificate=copy.deepcopy(d), issuer=io)

    def dump(self) -> dict:
        out = {}
        for name, dct in (("roots", self.lib.known_root_certificates), ("aas", self.lib.known_authorization_authorities),
                          ("ats", self.lib.known_authorization_tickets), ("owns", self.lib.own_certificates)):
            rows = []
            for k, v in dct.items():
                rows.append([int.from_bytes(k, "big"), self.reg.cert(v.certificate),
                             -1 if v.issuer is None else self.reg.cert(v.issuer.certificate)])
            out[name] = rows
        out["unknown"] = [int.from_bytes(h, "big") for h in self.sign.unknown_ats]
        out["requested"] = [int.from_bytes(h, "big") for h in self.sign.requested_ats]
        out["last_full"] = ticks_of(float(self.sign.cam_handler.last_signer_full_certificate_time))
        out["req_own"] = int(bool(self.sign.cam_handler.requested_own_certificate))
        return out

    def verify_bytes(self, raw: bytes):
        """-> ['verify', code, certid, payload id] or ['crash', type]"""
        from flexstack.security.sn_sap import SNVERIFYRequest
        try:
            c = self.verify.verify(SNVERIFYRequest(sec_header_length=0, sec_header=b"", message_length=len(raw), message=raw))
        except Exception as e:  # noqa: BLE001
            return ["crash", type(e).__name__], None
        pid = 0
        if c.report.value == 0:
            pid = self.reg.payload_id(c.plain_message) if isinstance(c.plain_message, (bytes, bytearray)) else -1
        return ["verify", c.report.value, int.from_bytes(c.certificate_id, "big") if c.certificate_id else 0, pid], c


def gen_time_us(ms=None) -> int:
    """generationTime (Time64, microseconds since the ITS epoch incl. 5 leap seconds) of virtual time ms"""
    ms = VCLOCK.ms if ms is None else ms
    return (ms - ITS_EPOCH_S * 1000 + 5000) * 1000


def signed_message(pki: Pki, key: int, signer, psid: int, gen, payload: bytes, extra_header=None,
                   sig_mode="ok", tamper=None) -> dict:
    """EtsiTs103097Data (dict) signed here with key `key`. signer: ('digest', bytes) or ('certificate', [dicts])."""
    hi = {"psid": psid}
    if gen is not None:
        hi["generationTime"] = gen
    hi.update(extra_header or {})
    tbs = {"payload": {"data": {"protocolVersion": 3, "content": ("unsecuredData", payload)}}, "headerInfo": hi}
    sig = pki.sign(key, enc_tbs_data(tbs), sig_mode)
    if tamper is not None:
        tbs = copy.deepcopy(tbs)
        tamper(tbs)
    return {"protocolVersion": 3, "content": ("signedData", {"hashId": "sha256", "tbsData": tbs,
                                                             "signer": signer, "signature": sig})}
