"""C20 - packet lifetime and hop budget on the wire honour the request."""
from __future__ import annotations

from . import common
from .stack import make_router, CaptureLL, gn_addr, beacon_bytes

PROP = "C20"
COQ_TARGETS = ["Properties/C20", "Extract/ExC20"]
MODEL_ML = "c20_model.ml"
MODEL_NAME = "c20"
GENS = ["gen_src_geonet"]
TRUSTED_BASE = [
    "Coq 8.16.1 kernel (coqc), vm_compute for the finite sweeps over 256 codes / 64x4 pairs; no native_compute",
    "extraction (ExtrOcamlBasic only; Z/positive stay Coq datatypes) + ocaml/driver_body.ml + OCaml 4.13.1",
    "hand-written model coq/theories/Model/Lifetime.v, tied to the code by differential execution (this harness)",
    "translator tools/pyz.py + tools/gen_src_geonet.py (Python ast -> Gallina, fail-closed): LT.set_value_in_millis, "
    "LT.get_value_in_millis, LT.encode_to_int, BasicHeader.encode_to_int / decode_from_int / set_rhl are regenerated from the "
    "source on every run (Gen/SrcGeonet.v) and proved equal to the model for all arguments (C20_source_* theorems); the "
    "translator's reading of Python semantics (unbounded ints, floor division, enum members by value) is trusted",
    "Python harness harness/c20.py, harness/stack.py",
]
ASSUMPTIONS = [
    "LT.set_value_in_millis / get_value_in_millis / encode_to_int and BasicHeader.encode_to_int are tied to the model by "
    "proof over their regenerated translation; the float path, BasicHeader.initialize_* and the Router's hop-limit choices "
    "are tied by execution on the same inputs, not by proof",
    "the float path int(seconds*1000) of initialize_with_mib_request_and_rhl is compared against the integer model "
    "for every millisecond value of the sweep (it never loses a millisecond at a representable lifetime)",
]
EXPLANATION = ("theorems over all Z for the lifetime encoding (never exceeds, largest representable below 10^6 ms, "
               "non-zero from 50 ms, decode = encode, indicated lifetime) and hop limits; correspondence with the "
               "implementation over every millisecond value of the sweep range and all hop limits")

UNITS = (50, 1000, 10000, 100000)


def spec_best(v: int) -> int:
    """largest representable lifetime not exceeding v (independent oracle)."""
    return max(min(63, v // u) * u for u in UNITS) if v >= 0 else 0


def classify(v: int) -> str:
    return "lt_request_ge_1e6_ms" if v >= 1_000_000 else "lt_request_below_1e6_ms"


def check_lt_values(ctx, values, via_float: bool):
    from flexstack.geonet.basic_header import LT, BasicHeader
    from flexstack.geonet.mib import MIB
    values = list(values)
    mib = MIB()
    impl = []
    for v in values:
        if via_float:
            bh = BasicHeader.initialize_with_mib_request_and_rhl(mib, v / 1000, 1)
            lt = bh.lt
        else:
            lt = LT().set_value_in_millis(v)
        impl.append((lt.multiplier, lt.base.value, lt.get_value_in_millis(), lt.encode_to_int()))
    ctx.count(len(values), "lt_float_path" if via_float else "lt_int_path")
    # property oracle on the implementation
    for v, (m, b, val, code) in zip(values, impl):
        inp = {"op": "lt_request", "ms": v, "via_float": via_float}
        if not (0 <= m <= 63 and 0 <= b <= 3) or code != (m << 2 | b):
            ctx.property_failure(classify(v), inp, "lifetime fields outside their bit width", None, [m, b, code])
            continue
        if val > v:
            ctx.property_failure(classify(v), inp, "wire lifetime exceeds the requested lifetime", spec_best(v), val)
        elif val != spec_best(v):
            ctx.property_failure(classify(v), inp, "wire lifetime is not the largest representable value not "
                                 "exceeding the request", spec_best(v), val)
        elif v >= 50 and val == 0:
            ctx.property_failure(classify(v), inp, "zero lifetime for a request of at least 50 ms", spec_best(v), val)
        if val > 0:
            ctx.nontriv(("lt", v))
    # correspondence
    if ctx.model.available:
        # contiguous ranges go through the range command of the driver
        res = ctx.model.batch((1, [v]) for v in values)
        for v, (m, b, val, code), r in zip(values, impl, res):
            if [m, b] != r and not (v >= 1_000_000 and val == spec_best(v)):
                ctx.mismatch("LT.set_value_in_millis = Lifetime.lt_encode", {"ms": v, "via_float": via_float}, r, [m, b])
    ctx.sample({"lt_request_ms": values[len(values) // 2], "impl(m,b,value,code)": impl[len(values) // 2]})


def check_lt_range(ctx, lo, hi, via_float):
    """exhaustive contiguous sweep lo..hi-1 using the model's range command."""
    from flexstack.geonet.basic_header import LT, BasicHeader
    from flexstack.geonet.mib import MIB
    mib = MIB()
    CH = 200_000
    for start in range(lo, hi, CH):
        n = min(CH, hi - start)
        codes = ctx.model.call(6, [start, n]) if ctx.model.available else None
        for i in range(n):
            v = start + i
            if via_float:
                lt = BasicHeader.initialize_with_mib_request_and_rhl(mib, v / 1000, 1).lt
            else:
                lt = LT().set_value_in_millis(v)
            code = lt.encode_to_int()
            val = lt.get_value_in_millis()
            best = spec_best(v)
            if val != best or code != (lt.multiplier << 2 | lt.base.value):
                inp = {"op": "lt_request", "ms": v, "via_float": via_float}
                ctx.property_failure(classify(v), inp, "wire lifetime is not the largest representable value not "
                                     "exceeding the request" if val <= v else "wire lifetime exceeds the request",
                                     best, val)
            if codes is not None and codes[i] != code and not (v >= 1_000_000 and val == best):
                ctx.mismatch("LT.set_value_in_millis = Lifetime.lt_encode", {"ms": v, "via_float": via_float},
                             codes[i], code)
            if val > 0:
                ctx.nontriv(("lt", v))
        ctx.count(n, "lt_float_path_sweep" if via_float else "lt_int_path_sweep")


def check_codes(ctx):
    from flexstack.geonet.basic_header import BasicHeader
    res = ctx.model.batch((2, [c]) for c in range(256)) if ctx.model.available else [None] * 256
    for c in range(256):
        for rhl in (0, 1, 255):
            bh = BasicHeader.decode_from_bytes(bytes([0x11, 0, c, rhl]))
            got = [bh.lt.multiplier, bh.lt.base.value, bh.lt.get_value_in_millis(), bh.lt.get_value_in_seconds()]
            ctx.count(1, "lt_code_decode")
            m, b = c >> 2, c & 3
            want_val = m * UNITS[b]
            inp = {"op": "decode_code", "code": c, "rhl": rhl}
            if got[0] != m or got[1] != b or got[2] != want_val:
                ctx.property_failure("lt_decode", inp, "decoded lifetime differs from what the sender encoded",
                                     [m, b, want_val], got)
            if got[3] * 1000 > want_val:
                ctx.property_failure("lt_indicated", inp, "reported remaining lifetime exceeds the wire value",
                                     want_val, got[3] * 1000)
            if bh.encode_to_bytes() != bytes([0x11, 0, c, rhl]) or bh.rhl != rhl:
                ctx.property_failure("lt_decode", inp, "basic header does not re-encode to the received octets",
                                     [0x11, 0, c, rhl], list(bh.encode_to_bytes()))
            if res[c] is not None and res[c] != got:
                ctx.mismatch("BasicHeader.decode = Lifetime.lt_of_code", inp, res[c], got)
            ctx.nontriv(("code", c, rhl))


KINDS = ("beacon", "shb", "gbc", "gac", "guc")


class PassThroughSigner:
    """stands in for the SignService when only the Basic Header of a secured packet is examined: the 'secured message' is
    the to-be-signed message itself, so the Common Header stays at its usual offset behind the Basic Header"""

    def _confirm(self, request):
        from flexstack.security.sn_sap import SNSIGNConfirm
        return SNSIGNConfirm(sec_message_length=len(request.tbs_message), sec_message=request.tbs_message)
    sign_request = sign_cam = sign_denm = _confirm


def check_hops(ctx, defaults, hop_values, lifetimes, secured=False):
    """real Router with a capturing link layer; every emitted packet's RHL / MHL / LT octets.
    secured: itsGnSecurity ENABLED with a pass-through signer - the packet leaves through the secured branch of the router
    (Basic Header rebuilt with NH = secured packet); lifetime and hop limit must be the same as without security"""
    from flexstack.geonet.service_access_point import (GNDataRequest, PacketTransportType, HeaderType,
                                                       TopoBroadcastHST, GeoBroadcastHST, GeoAnycastHST,
                                                       Area, CommonNH, TrafficClass)
    reqs, expect_inputs = [], []
    for dflt in defaults:
        ll = CaptureLL()
        if secured:
            from flexstack.geonet.mib import GnSecurity
            from flexstack.security.security_profiles import SecurityProfile
            router = make_router(ll, local_mid=0x0A0B0C0D0E01, default_hop_limit=dflt, ego=(413800000, 21100000),
                                 mib_kw={"itsGnSecurity": GnSecurity.ENABLED}, sign_service=PassThroughSigner())
        else:
            router = make_router(ll, local_mid=0x0A0B0C0D0E01, default_hop_limit=dflt, ego=(413800000, 21100000))
        peer = gn_addr(0x0A0B0C0D0E02)
        if not secured:
            router.gn_data_indicate(beacon_bytes(peer, tst=router_now_ms(), lat=413800100, lon=21100100))
        for kind in (("shb", "shb_cam", "shb_vam", "gbc_denm", "gac_denm") if secured else KINDS):
            for h in hop_values:
                for life in lifetimes:
                    ll.sent.clear()
                    if kind == "beacon":
                        if h != hop_values[0] or life is not None:
                            continue
                        router.gn_data_request_beacon()
                    else:
                        extra = {}
                        if secured:
                            extra = {"security_profile": {"shb": SecurityProfile.NO_SECURITY,
                                                          "shb_cam": SecurityProfile.COOPERATIVE_AWARENESS_MESSAGE,
                                                          "shb_vam": SecurityProfile.VRU_AWARENESS_MESSAGE}.get(
                                kind, SecurityProfile.DECENTRALIZED_ENVIRONMENTAL_NOTIFICATION_MESSAGE), "its_aid": 36}
                        if kind.startswith("shb"):
                            ptt = PacketTransportType(HeaderType.TSB, TopoBroadcastHST.SINGLE_HOP)
                        elif kind.startswith("gbc"):
                            ptt = PacketTransportType(HeaderType.GEOBROADCAST, GeoBroadcastHST.GEOBROADCAST_CIRCLE)
                        elif kind.startswith("gac"):
                            ptt = PacketTransportType(HeaderType.GEOANYCAST, GeoAnycastHST.GEOANYCAST_CIRCLE)
                        else:
                            ptt = PacketTransportType(HeaderType.GEOUNICAST)
                        req = GNDataRequest(
                            upper_protocol_entity=CommonNH.BTP_B, packet_transport_type=ptt,
                            traffic_class=TrafficClass(), length=3, data=b"abc",
                            area=Area(latitude=413800000, longitude=21100000, a=100, b=100, angle=0),
                            max_hop_limit=h, max_packet_lifetime=(None if life is None else life / 1000),
                            destination=peer if kind == "guc" else None, **extra)
                        router.gn_data_request(req)
                    ctx.count(1, ("sec_" if secured else "src_") + kind)
                    inp = {"op": "originate", "secured": secured, "kind": kind, "max_hop_limit": h, "mib_default_hop_limit": dflt,
                           "max_packet_lifetime_ms": life}
                    if len(ll.sent) != 1:
                        ctx.property_failure("src_no_packet", inp, f"{len(ll.sent)} packets emitted for one request")
                        continue
                    pkt = ll.sent[0]
                    rhl, mhl, ltc = pkt[3], pkt[10], pkt[2]
                    if secured and pkt[0] & 0x0F != 2:
                        ctx.property_failure("src_not_secured", inp, "packet of a security-enabled station left without the "
                                             "secured next-header", 2, pkt[0] & 0x0F)
                    if kind == "beacon" or kind.startswith("shb"):
                        want = (1, 1)
                    else:
                        x = h if h > 1 else dflt
                        want = (x, x)
                    if (rhl, mhl) != want:
                        ctx.property_failure("src_hops", inp, "hop limits of the originated packet differ from the rule",
                                             list(want), [rhl, mhl])
                    want_ms = 60000 if life is None else life
                    val = (ltc >> 2) * UNITS[ltc & 3]
                    if val != spec_best(want_ms):
                        ctx.property_failure(classify(want_ms), inp, "lifetime octet of the originated packet is not "
                                             "the largest representable value not exceeding the request",
                                             spec_best(want_ms), val)
                    reqs.append((3, [0 if kind == "beacon" else 1 if kind.startswith("shb") else 2, h, dflt]))
                    expect_inputs.append((inp, [rhl, mhl]))
                    ctx.nontriv(("hops", kind, h, dflt, life))
    if ctx.model.available:
        for (inp, got), r in zip(expect_inputs, ctx.model.batch(reqs)):
            if r != got:
                ctx.mismatch("Router source hop limits = Lifetime.src_hops", inp, r, got)
    ctx.sample({"originate": expect_inputs[len(expect_inputs) // 2][0], "rhl_mhl": expect_inputs[len(expect_inputs) // 2][1]})


def router_now_ms():
    from .stack import VCLOCK
    return VCLOCK.its_ms() % 2 ** 32


RX_KINDS = ("shb", "beacon", "tsb", "gbc", "gac", "guc", "lsreq", "lsrep")


def check_rx_hops_all_types(ctx, pairs):
    """RHL > MHL must be discarded for every packet type (no delivery, no location table entry, nothing sent)"""
    from . import stack
    for kind in RX_KINDS:
        for (rhl, mhl) in pairs:
            ll = CaptureLL()
            router = make_router(ll, local_mid=0x0A0B0C0D0E01, ego=(413800000, 21100000))
            got = []
            router.register_indication_callback(got.append)
            src = (0, 5, 0x0A0B0C0D0E04)
            me = (0, 5, 0x0A0B0C0D0E01)
            now = router_now_ms()
            area = (413800000, 21100000, 500, 500, 0)
            if kind == "shb":
                pkt = stack.shb_bytes(src, now, 413800100, 21100100, b"xyz")
            elif kind == "beacon":
                pkt = stack.beacon_bytes(src, now, 413800100, 21100100)
            elif kind == "tsb":
                pkt = stack.tsb_bytes(src, 5, now, 413800100, 21100100, b"xyz")
            elif kind in ("gbc", "gac"):
                pkt = stack.gbc_bytes(src, 5, now, 413800100, 21100100, area, b"xyz", ht=4 if kind == "gbc" else 3)
            elif kind == "guc":
                pkt = stack.guc_bytes(src, 5, now, 413800100, 21100100, (me, now, 413800000, 21100000), b"xyz")
            elif kind == "lsreq":
                pkt = stack.ls_request_bytes(src, 5, now, 413800100, 21100100, me)
            else:
                pkt = stack.ls_reply_bytes(src, 5, now, 413800100, 21100100, (me, now, 413800000, 21100000))
            b = bytearray(pkt)
            b[3], b[10] = rhl, mhl
            try:
                router.gn_data_indicate(bytes(b))
            except Exception:  # noqa: BLE001 - whether this may propagate is C04's question
                pass
            learnt = router.location_table.get_entry(gn_addr(src[2], src[1])) is not None
            ctx.count(1, "rx_rhl_mhl_" + kind)
            inp = {"op": "receive", "kind": kind, "rhl": rhl, "mhl": mhl}
            if rhl > mhl and (got or learnt or ll.sent):
                ctx.property_failure("rx_rhl_gt_mhl", inp, "packet with RHL > MHL was not discarded",
                                     "discard", {"delivered": len(got), "loct": learnt, "sent": len(ll.sent)})
            if rhl <= mhl and not learnt:
                ctx.property_failure("rx_rhl_le_mhl", inp, "valid packet with RHL <= MHL was not processed", "process", None)
            ctx.nontriv(("rxall", kind, rhl, mhl))


def check_rx_hops(ctx, pairs):
    """a receiver discards packets whose remaining hop limit exceeds their maximum."""
    from .stack import shb_bytes
    reqs, obs = [], []
    for (rhl, mhl) in pairs:
        ll = CaptureLL()
        router = make_router(ll, local_mid=0x0A0B0C0D0E01, ego=(413800000, 21100000))
        got = []
        router.register_indication_callback(got.append)
        src = gn_addr(0x0A0B0C0D0E03)
        pkt = bytearray(shb_bytes(src, tst=router_now_ms(), lat=413800100, lon=21100100, payload=b"xyz"))
        pkt[3] = rhl
        pkt[10] = mhl
        err = None
        try:
            router.gn_data_indicate(bytes(pkt))
        except Exception as e:  # C04 decides whether this may propagate; here: was it discarded?
            err = type(e).__name__
        delivered = len(got) > 0
        learnt = router.location_table.get_entry(src) is not None
        ctx.count(1, "rx_rhl_mhl")
        inp = {"op": "receive_shb", "rhl": rhl, "mhl": mhl}
        if rhl > mhl and (delivered or learnt or ll.sent):
            ctx.property_failure("rx_rhl_gt_mhl", inp, "packet with RHL > MHL was not discarded",
                                 "discard", {"delivered": delivered, "loct": learnt, "sent": len(ll.sent)})
        if rhl <= mhl and not delivered:
            ctx.property_failure("rx_rhl_le_mhl", inp, "valid packet with RHL <= MHL was not delivered", "deliver", err)
        reqs.append((4, [rhl, mhl]))
        obs.append((inp, [1 if delivered else 0]))
        ctx.nontriv(("rx", rhl, mhl))
    if ctx.model.available:
        for (inp, got), r in zip(obs, ctx.model.batch(reqs)):
            if r != got:
                ctx.mismatch("Router.process_common_header hop check = Lifetime.rx_hops_ok", inp, r, got)



# ---------------------------------------------------------------------------------------------------------------------
# audit round: inputs the first generators never produced (see design/C20.md "Audit round: gaps closed")

class PassThroughVerifier:
    """stands in for the VerifyService on the receive side: the 'secured message' is the plain message (Common Header |
    extended header | payload), reported as verified - only the Basic Header handling of the secured branch is examined"""

    def verify(self, request):
        from flexstack.security.sn_sap import SNVERIFYConfirm, ReportVerify
        return SNVERIFYConfirm(report=ReportVerify.SUCCESS, certificate_id=b"\x00" * 8, its_aid_length=1,
                               its_aid=b"\x24", permissions=b"", plain_message=request.message)


def float_requests(rng, n):
    """requested lifetimes in SECONDS that are not whole milliseconds (plus ints): around every piece boundary and
    every multiple of a base, and random ones"""
    import math
    xs = [0, 1, 2, 59, 60, 63, 64, 600, 630, 999, 0.0, 5e-324, 1e-9, 0.0004, 0.0005, 0.000999, 0.0499, 0.04999999,
          0.0494, 0.0496, 0.05, 0.050001, 0.0999, 0.0996, 1.0496, 1.0499999, 3.1496, 3.1499, 3.9996, 62.9996, 63.0004,
          63.9996, 629.9996, 630.0004, 639.9996, 599.9996, 999.9994, 999.9996, 999.999]
    for unit in UNITS:
        for m in (1, 2, 3, 31, 62, 63, 64):
            base = m * unit / 1000
            for d in (-6e-4, -4e-4, -1e-7, 1e-7, 4e-4, 6e-4):
                if 0 <= base + d < 1000:
                    xs.append(base + d)
            xs.append(math.nextafter(base, 0.0))
            xs.append(math.nextafter(base, 2000.0))
    for _ in range(n):
        r = rng.random()
        if r < 0.4:
            xs.append(rng.uniform(0, 1000 - 1e-3))
        elif r < 0.7:
            xs.append(rng.choice(UNITS) * rng.randrange(0, 70) / 1000 + rng.uniform(-1e-3, 1e-3))
        else:
            xs.append(rng.randrange(0, 999_999) / 1000 + rng.choice((0.0004, 0.0006, 0.00049999, 0.00050001, 0.000999)))
    return [x for x in xs if 0 <= x < 999.9999]


def check_lt_seconds(ctx, xs):
    """GN-DATA.request lifetimes as the upper layer gives them: seconds, float or int, NOT whole milliseconds.
    The wire lifetime must not exceed the request and must be the largest representable value not exceeding it; the
    product seconds * 1000 is a float computation, so requests within 1e-9 ms of a millisecond step accept either side"""
    from fractions import Fraction
    from flexstack.geonet.basic_header import BasicHeader
    from flexstack.geonet.mib import MIB
    mib = MIB()
    reqs, obs = [], []
    for x in xs:
        exact_ms = Fraction(x) * 1000
        lo = int(exact_ms - Fraction(1, 10 ** 9)) if exact_ms >= Fraction(1, 10 ** 9) else 0
        hi = int(exact_ms + Fraction(1, 10 ** 9))
        lt = BasicHeader.initialize_with_mib_request_and_rhl(mib, x, 1).lt
        val = lt.get_value_in_millis()
        ctx.count(1, "lt_seconds_int" if isinstance(x, int) else "lt_seconds_submilli")
        inp = {"op": "lt_request_seconds", "seconds": (x if isinstance(x, int) else x.hex())}
        ok_vals = {spec_best(lo), spec_best(hi)}
        if val > hi or val > exact_ms + Fraction(1, 10 ** 9):
            ctx.property_failure(classify(hi), inp, "wire lifetime exceeds the requested lifetime (request %r s)" % (x,),
                                 sorted(ok_vals), val)
        elif val not in ok_vals:
            ctx.property_failure(classify(hi), inp, "wire lifetime is not the largest representable value not exceeding "
                                 "the request (request %r s)" % (x,), sorted(ok_vals), val)
        elif hi >= 50 and lo >= 50 and val == 0:
            ctx.property_failure(classify(hi), inp, "zero lifetime for a request of at least 50 ms", sorted(ok_vals), val)
        if lo == hi:
            reqs.append((1, [lo]))
            obs.append((inp, [lt.multiplier, lt.base.value]))
        if val > 0:
            ctx.nontriv(("lts", inp["seconds"]))
    if ctx.model.available and reqs:
        for (inp, got), r in zip(obs, ctx.model.batch(reqs)):
            if r != got:
                ctx.mismatch("BasicHeader.initialize_with_mib_request_and_rhl(seconds) = Lifetime.lt_encode(floor ms)",
                             inp, r, got)


def check_code_variants(ctx):
    """all 256 lifetime codes inside Basic Headers with other version / next-header / reserved / RHL octets: the decoded
    lifetime depends on the lifetime octet alone"""
    from flexstack.geonet.basic_header import BasicHeader
    for c in range(256):
        for first, reserved, rhl in ((0x12, 0, 7), (0x10, 0xFF, 0), (0xF2, 0xA5, 255), (0x01, 0x01, 1), (0x11, 0x80, 64)):
            octets = bytes([first, reserved, c, rhl])
            bh = BasicHeader.decode_from_bytes(octets)
            m, b = c >> 2, c & 3
            got = [bh.lt.multiplier, bh.lt.base.value, bh.lt.get_value_in_millis(), bh.rhl]
            ctx.count(1, "lt_code_decode_variant")
            inp = {"op": "decode_octets", "octets": list(octets)}
            if got[:3] != [m, b, m * UNITS[b]] or got[3] != rhl:
                ctx.property_failure("lt_decode", inp, "decoded lifetime / hop limit differs from what the sender encoded",
                                     [m, b, m * UNITS[b], rhl], got)
            if bh.lt.get_value_in_seconds() * 1000 > m * UNITS[b]:
                ctx.property_failure("lt_indicated", inp, "reported remaining lifetime exceeds the wire value",
                                     m * UNITS[b], bh.lt.get_value_in_seconds() * 1000)
            if bh.encode_to_bytes() != octets:
                ctx.property_failure("lt_decode", inp, "basic header does not re-encode to the received octets",
                                     list(octets), list(bh.encode_to_bytes()))
            ctx.nontriv(("codev", c, first))


PATHS = ("beacon", "shb", "gbc", "gac", "guc", "gbc_naf", "gac_naf", "gbc_rect", "gbc_elip", "gac_rect", "gac_elip",
         "ls_request", "ls_retransmit", "guc_after_ls", "guc_after_ls_2nd", "ls_reply", "shb_after_traffic")


SEC_PATHS = ("shb", "gbc", "gac", "gbc_naf", "gac_naf", "gbc_rect", "gac_elip", "shb_after_traffic")


def check_origination_paths(ctx, hop_defaults, life_defaults, hop_values, lifetimes, paths=PATHS, secured=False):
    """every way a packet ORIGINATES in the router, with MIB default lifetimes other than 60 s: besides the direct
    requests, the non-area (greedy) branch of GBC/GAC (source outside the area), the other area shapes, the Location
    Service request sent for a GeoUnicast request towards an unknown destination, its retransmission, the buffered
    GeoUnicast packets released by the LS reply (first and second buffered request), the LS reply sent by the sought
    station, and a request repeated on a router that has already sent and received traffic.
    lifetimes are in ms (None = none requested).
    secured: itsGnSecurity ENABLED, pass-through signer and verifier (the neighbour is learnt from a secured beacon), CAM
    profile for SHB and DENM profile for GBC/GAC requests"""
    from flexstack.geonet.service_access_point import (GNDataRequest, PacketTransportType, HeaderType,
                                                       TopoBroadcastHST, GeoBroadcastHST, GeoAnycastHST,
                                                       Area, CommonNH, TrafficClass)
    from .stack import FakeTimer, VCLOCK, ls_reply_bytes, ls_request_bytes
    ME, PEER, FAR = 0x0A0B0C0D0E01, 0x0A0B0C0D0E02, 0x0A0B0C0D0E09
    here = Area(latitude=413800000, longitude=21100000, a=100, b=100, angle=0)
    north = Area(latitude=414300000, longitude=21100000, a=100, b=60, angle=30)   # 5.5 km north of the ego position
    cases = []     # (inp, pkt or None, multi?, requested hop limit, requested ms)

    def mk(kind, h, life, dest=None, area=here):
        t = kind.split("_")[0]
        sub = kind.split("_")[1] if "_" in kind else ""
        if t == "shb":
            ptt = PacketTransportType(HeaderType.TSB, TopoBroadcastHST.SINGLE_HOP)
        elif t == "gbc":
            ptt = PacketTransportType(HeaderType.GEOBROADCAST, {"rect": GeoBroadcastHST.GEOBROADCAST_RECT,
                                                                "elip": GeoBroadcastHST.GEOBROADCAST_ELIP}.get(
                sub, GeoBroadcastHST.GEOBROADCAST_CIRCLE))
        elif t == "gac":
            ptt = PacketTransportType(HeaderType.GEOANYCAST, {"rect": GeoAnycastHST.GEOANYCAST_RECT,
                                                              "elip": GeoAnycastHST.GEOANYCAST_ELIP}.get(
                sub, GeoAnycastHST.GEOANYCAST_CIRCLE))
        else:
            ptt = PacketTransportType(HeaderType.GEOUNICAST)
        extra = {}
        if secured:
            from flexstack.security.security_profiles import SecurityProfile
            extra = {"its_aid": 36, "security_profile": SecurityProfile.COOPERATIVE_AWARENESS_MESSAGE if t == "shb"
                     else SecurityProfile.DECENTRALIZED_ENVIRONMENTAL_NOTIFICATION_MESSAGE}
        return GNDataRequest(upper_protocol_entity=CommonNH.BTP_B, packet_transport_type=ptt,
                             traffic_class=TrafficClass(), length=3, data=b"abc", area=area, max_hop_limit=h,
                             max_packet_lifetime=(None if life is None else life / 1000), destination=dest, **extra)

    for dh in hop_defaults:
        for dl in life_defaults:
            for h in hop_values:
                for life in lifetimes:
                    for path in paths:
                        if path in ("beacon", "ls_request", "ls_retransmit", "ls_reply") and \
                                (h != hop_values[0] or life != lifetimes[0]):
                            continue      # these packets do not depend on a request's hop limit / lifetime
                        ll = CaptureLL()
                        if secured:
                            from flexstack.geonet.mib import GnSecurity
                            router = make_router(ll, local_mid=ME, default_hop_limit=dh, ego=(413800000, 21100000),
                                                 mib_kw={"itsGnDefaultPacketLifetime": dl,
                                                         "itsGnSecurity": GnSecurity.ENABLED},
                                                 sign_service=PassThroughSigner(), verify_service=PassThroughVerifier())
                        else:
                            router = make_router(ll, local_mid=ME, default_hop_limit=dh, ego=(413800000, 21100000),
                                                 mib_kw={"itsGnDefaultPacketLifetime": dl})
                        now = router_now_ms()
                        bcn = bytearray(beacon_bytes(gn_addr(PEER), tst=now, lat=413900000, lon=21100000))
                        if secured:
                            bcn[0] = 0x12
                        router.gn_data_indicate(bytes(bcn))
                        inp = {"op": "originate_path", "secured": secured, "path": path, "max_hop_limit": h, "mib_default_hop_limit": dh,
                               "mib_default_lifetime_s": dl, "max_packet_lifetime_ms": life}
                        multi, from_request = True, True
                        if path == "beacon":
                            router.gn_data_request_beacon()
                            multi, from_request = False, False
                        elif path == "shb":
                            router.gn_data_request(mk("shb", h, life))
                            multi = False
                        elif path == "shb_after_traffic":
                            router.gn_data_request(mk("gbc", 9, 2000))
                            router.gn_data_request(mk("shb", 5, 3000))
                            router.gn_data_request_beacon()
                            ll.sent.clear()
                            router.gn_data_request(mk("shb", h, life))
                            multi = False
                        elif path in ("gbc", "gac", "gbc_rect", "gbc_elip", "gac_rect", "gac_elip"):
                            router.gn_data_request(mk(path, h, life))
                        elif path in ("gbc_naf", "gac_naf"):
                            router.gn_data_request(mk(path[:3], h, life, area=north))
                        elif path == "guc":
                            router.gn_data_request(mk("guc", h, life, dest=gn_addr(PEER)))
                        else:
                            if path == "ls_reply":
                                router.gn_data_indicate(ls_request_bytes((0, 5, PEER), 9, now, 413900000, 21100000,
                                                                         (0, 5, ME)))
                                from_request = False
                            else:
                                router.gn_data_request(mk("guc", h, life, dest=gn_addr(FAR)))
                                if path == "ls_request":
                                    from_request = False
                                elif path == "ls_retransmit":
                                    ll.sent.clear()
                                    FakeTimer.run_until(VCLOCK.ms + 1000)
                                    from_request = False
                                else:
                                    if path == "guc_after_ls_2nd":
                                        router.gn_data_request(mk("guc", 77, 7000, dest=gn_addr(FAR)))
                                        router.gn_data_request(mk("guc", h, life, dest=gn_addr(FAR)))
                                    ll.sent.clear()
                                    router.gn_data_indicate(ls_reply_bytes(
                                        (0, 5, FAR), 3, router_now_ms(), 413900500, 21100000,
                                        ((0, 5, ME), now, 413800000, 21100000)))
                                    if path == "guc_after_ls_2nd":
                                        ll.sent = ll.sent[2:] if len(ll.sent) == 3 else []
                        ctx.count(1, ("path_sec_" if secured else "path_") + path)
                        FakeTimer.reset()
                        if len(ll.sent) != 1:
                            ctx.property_failure("src_no_packet", inp, f"{len(ll.sent)} packets emitted where one is due")
                            continue
                        pkt = ll.sent[0]
                        rhl, mhl, ltc = pkt[3], pkt[10], pkt[2]
                        if secured and path != "beacon" and pkt[0] & 0x0F != 2:
                            ctx.property_failure("src_not_secured", inp, "packet of a security-enabled station left without "
                                                 "the secured next-header", 2, pkt[0] & 0x0F)
                        if not multi:
                            want = (1, 1)
                        else:
                            x = h if (from_request and h > 1) else dh
                            want = (x, x)
                        if (rhl, mhl) != want:
                            ctx.property_failure("src_hops", inp, "hop limits of the originated packet differ from the rule",
                                                 list(want), [rhl, mhl])
                        want_ms = dl * 1000 if (life is None or not from_request) else life
                        val = (ltc >> 2) * UNITS[ltc & 3]
                        if val != spec_best(want_ms):
                            ctx.property_failure(classify(want_ms), inp, "lifetime octet of the originated packet is not the "
                                                 "largest representable value not exceeding the request / the MIB default",
                                                 spec_best(want_ms), val)
                        cases.append((inp, [rhl, mhl, ltc >> 2, ltc & 3],
                                      (3, [2 if multi else 1, h if from_request else 0, dh]), (1, [want_ms])))
                        ctx.nontriv(("path", secured, path, h, dh, dl, life))
    if ctx.model.available and cases:
        hops = ctx.model.batch(c[2] for c in cases)
        lts = ctx.model.batch(c[3] for c in cases)
        for (inp, got, _, ltreq), rh, rl in zip(cases, hops, lts):
            if rh != got[:2]:
                ctx.mismatch("Router source hop limits = Lifetime.src_hops", inp, rh, got[:2])
            if rl != got[2:] and ltreq[1][0] < 1_000_000:
                ctx.mismatch("lifetime of the originated packet = Lifetime.req_lt", inp, rl, got[2:])
    if cases:
        ctx.sample({"originate_path": cases[len(cases) // 2][0], "rhl_mhl_m_b": cases[len(cases) // 2][1]})


IND_KINDS = ("shb", "tsb", "gbc", "gac", "guc")


def check_indications(ctx, codes, pairs, secured=False, kinds=IND_KINDS):
    """what the receiver reports to the upper layer: packets of every delivering type with every lifetime code through a
    real Router; GNDataIndication.remaining_packet_lifetime (seconds) must not exceed the lifetime on the wire.
    secured: the frame arrives with NH = secured packet and passes a pass-through verifier (the secured receive branch
    rebuilds the Basic Header); RHL > MHL must be discarded there too"""
    from . import stack
    ME = (0, 5, 0x0A0B0C0D0E01)
    src = (0, 5, 0x0A0B0C0D0E04)
    area = (413800000, 21100000, 500, 500, 0)
    reqs, obs = [], []
    for kind in kinds:
        for c in codes:
            for (rhl, mhl) in pairs:
                ll = CaptureLL()
                if secured:
                    from flexstack.geonet.mib import GnSecurity
                    router = make_router(ll, local_mid=ME[2], ego=(413800000, 21100000),
                                         mib_kw={"itsGnSecurity": GnSecurity.ENABLED}, verify_service=PassThroughVerifier())
                else:
                    router = make_router(ll, local_mid=ME[2], ego=(413800000, 21100000))
                got = []
                router.register_indication_callback(got.append)
                now = router_now_ms()
                if kind == "shb":
                    pkt = stack.shb_bytes(src, now, 413800100, 21100100, b"xyz", lt_code=c)
                elif kind == "tsb":
                    pkt = stack.tsb_bytes(src, 5, now, 413800100, 21100100, b"xyz", lt_code=c)
                elif kind in ("gbc", "gac"):
                    pkt = stack.gbc_bytes(src, 5, now, 413800100, 21100100, area, b"xyz", ht=4 if kind == "gbc" else 3,
                                          lt_code=c)
                else:
                    pkt = stack.guc_bytes(src, 5, now, 413800100, 21100100, (ME, now, 413800000, 21100000), b"xyz",
                                          lt_code=c)
                b = bytearray(pkt)
                b[3], b[10] = rhl, mhl
                if secured:
                    b[0] = 0x12
                try:
                    router.gn_data_indicate(bytes(b))
                except Exception:  # noqa: BLE001 - C04's question
                    pass
                ctx.count(1, ("ind_sec_" if secured else "ind_") + kind)
                wire = (c >> 2) * UNITS[c & 3]
                inp = {"op": "indication", "kind": kind, "code": c, "rhl": rhl, "mhl": mhl, "secured": secured}
                learnt = router.location_table.get_entry(gn_addr(src[2], src[1])) is not None
                if rhl > mhl:
                    if got or learnt or ll.sent:
                        ctx.property_failure("rx_rhl_gt_mhl", inp, "packet with RHL > MHL was not discarded", "discard",
                                             {"delivered": len(got), "loct": learnt, "sent": len(ll.sent)})
                    continue
                if len(got) != 1:
                    ctx.property_failure("rx_rhl_le_mhl", inp, "valid packet with RHL <= MHL was not delivered", "deliver",
                                         len(got))
                    continue
                rpl = got[0].remaining_packet_lifetime
                if rpl is not None and rpl * 1000 > wire:
                    ctx.property_failure("lt_indicated", inp, "remaining lifetime reported to the upper layer exceeds the "
                                         "lifetime on the wire", wire, rpl * 1000)
                reqs.append((2, [c]))
                obs.append((inp, -1 if rpl is None else rpl))
                ctx.nontriv(("ind", kind, c, rhl, mhl, secured))
    if ctx.model.available and reqs:
        for (inp, rpl), r in zip(obs, ctx.model.batch(reqs)):
            if r[3] != rpl:
                ctx.mismatch("GNDataIndication.remaining_packet_lifetime = Lifetime.ind_lifetime_s", inp, r[3], rpl)


def boundary_values():
    vals = set()
    for u in UNITS:
        for m in range(0, 66):
            for d in (-3, -2, -1, 0, 1, 2, 3):
                vals.add(m * u + d)
    for p in (0, 49, 50, 99, 100, 499, 500, 999, 1000, 3150, 3151, 9999, 10000, 63000, 63001, 99999, 100000,
              630000, 630001, 600000, 999999):
        vals.update((p - 1, p, p + 1))
    return sorted(v for v in vals if 0 <= v < 1_000_000)


def run(ctx):
    ctx.rule = ("requested lifetimes (ms) through LT.set_value_in_millis and through the float path of "
                "BasicHeader.initialize_with_mib_request_and_rhl, all 256 lifetime codes x 3 hop values through the "
                "decoder, originated packets of a real Router for every kind x requested hop limit x MIB default, and "
                "received packets over (RHL, MHL) pairs; audit round: requests in seconds that are not whole milliseconds, "
                "Basic Header variants around every code, every origination path of the router (LS request / retransmission / "
                "reply, GUC released by the LS reply, greedy GBC / GAC, area shapes; MIB default lifetimes 1..999 s; secured "
                "branches) and GN-DATA.indications of every delivering type x lifetime code (also through the secured receive "
                "branch); a case is non-trivial when the wire lifetime is non-zero / the "
                "packet was emitted / the code decoded; distinct by input tuple")
    for k in ctx.known:
        w = k["witness"]
        check_lt_values(ctx, [w["ms"]], False)
    bv = boundary_values()
    check_lt_values(ctx, bv, False)
    check_lt_values(ctx, bv, True)
    check_lt_values(ctx, [1_000_000, 1_000_001, 1_050_000, 6_300_000, 6_999_999, 7_000_000, 10_000_000], False)
    check_codes(ctx)
    if ctx.tier == "quick":
        rnd = [ctx.rng.randrange(0, 1_000_000) for _ in range(40_000)]
        check_lt_values(ctx, rnd, False)
        check_lt_values(ctx, rnd[:10_000], True)
        check_hops(ctx, (10, 1, 2, 255), list(range(0, 256, 1)), (None,))
        check_hops(ctx, (10,), (0, 1, 2, 10, 255), (0, 49, 50, 999, 1000, 1050, 15000, 600000, 999999))
        check_hops(ctx, (10, 3), (0, 1, 2, 10, 255), (None, 50, 999, 1000, 3200, 15000, 64000, 600000), secured=True)
        check_rx_hops(ctx, [(r, m) for r in (0, 1, 2, 9, 10, 11, 128, 254, 255) for m in (0, 1, 2, 10, 11, 255)])
        check_rx_hops_all_types(ctx, [(2, 1), (1, 1), (1, 0), (255, 254), (10, 10), (3, 10), (11, 10)])
        # audit round (kept after the first-generation cases: a failure reported from here was missed by them)
        check_code_variants(ctx)
        check_lt_seconds(ctx, float_requests(ctx.rng, 4000))
        check_origination_paths(ctx, (10, 3), (60, 33), (0, 1, 2, 9, 255), (None, 0, 999, 64000))
        check_origination_paths(ctx, (7,), (1, 5, 59, 63, 64, 100, 599, 600, 630, 999), (1,), (None,))
        check_origination_paths(ctx, (ctx.rng.randrange(1, 256),), (ctx.rng.randrange(1, 1000),),
                                (ctx.rng.randrange(2, 256),), (ctx.rng.randrange(0, 700_000),))
        check_origination_paths(ctx, (10,), (60, 45), (1, 6), (None, 1500), paths=SEC_PATHS, secured=True)
        check_indications(ctx, range(256), [(1, 1), (3, 10)])
        check_indications(ctx, (0, 1, 4, 5, 6, 7, 0xF1, 0xF2, 0xFC, 0xFF), [(2, 1), (11, 10), (255, 255), (0, 0)])
        check_indications(ctx, sorted({0, 1, 2, 3, 5, 0x4E, 0xF1, 0xFF} | {ctx.rng.randrange(256) for _ in range(24)}),
                          [(1, 1), (2, 1), (5, 9), (10, 9)], secured=True)
        ctx.exhaustive = False
    else:
        check_lt_range(ctx, 0, 7_000_001, False)
        check_lt_range(ctx, 0, 7_000_001, True)
        check_hops(ctx, (10, 1, 2, 3, 255), list(range(256)), (None, 50, 1000))
        check_hops(ctx, (10, 1, 3, 255), list(range(0, 256, 3)) + [1, 2, 255],
                   (None, 49, 50, 999, 1000, 3150, 3200, 3999, 15000, 64000, 99999, 600000, 999999), secured=True)
        check_rx_hops(ctx, [(r, m) for r in range(0, 256, 5) for m in range(0, 256, 5)] +
                      [(r, r + d) for r in range(256) for d in (-1, 0, 1) if 0 <= r + d < 256])
        check_rx_hops_all_types(ctx, [(r, r + d) for r in (0, 1, 2, 5, 10, 128, 254, 255) for d in (-1, 0, 1) if 0 <= r + d < 256])
        check_code_variants(ctx)
        check_lt_seconds(ctx, float_requests(ctx.rng, 200_000))
        check_origination_paths(ctx, (10, 1, 3, 255), (60, 33, 7), (0, 1, 2, 3, 9, 100, 255),
                                (None, 0, 49, 50, 999, 1000, 3200, 64000, 600000))
        check_origination_paths(ctx, (7,), range(1, 1000), (1,), (None,))
        check_origination_paths(ctx, (10, 4), (60, 45, 700), (0, 1, 2, 6, 255), (None, 0, 999, 1500, 64000), paths=SEC_PATHS,
                                secured=True)
        check_indications(ctx, range(256), [(1, 1), (3, 10), (10, 10), (255, 255), (0, 0), (0, 7), (2, 1), (11, 10)])
        check_indications(ctx, range(256), [(1, 1), (2, 1), (5, 9), (10, 9), (255, 255)], secured=True)
        ctx.exhaustive = True


def replay(ctx, data):
    common.use_repo_sources()
    f = data.get("failure") or (data.get("broken") or [{}])[0].get("first")
    print(json_dumps(f))
    inp = f["input"]
    ctx.model = common.Model(MODEL_NAME)
    if inp.get("op") == "lt_request":
        check_lt_values(ctx, [inp["ms"]], inp.get("via_float", False))
    elif inp.get("op") == "decode_code":
        check_codes(ctx)
    elif inp.get("op") == "originate":
        check_hops(ctx, (inp["mib_default_hop_limit"],), (inp["max_hop_limit"],), (inp["max_packet_lifetime_ms"],),
                   secured=bool(inp.get("secured")))
    elif inp.get("op") == "receive_shb":
        check_rx_hops(ctx, [(inp["rhl"], inp["mhl"])])
    elif inp.get("op") == "receive":
        check_rx_hops_all_types(ctx, [(inp["rhl"], inp["mhl"])])
    elif inp.get("op") == "lt_request_seconds":
        x = inp["seconds"]
        check_lt_seconds(ctx, [x if isinstance(x, int) else float.fromhex(x)])
    elif inp.get("op") == "decode_octets":
        check_code_variants(ctx)
    elif inp.get("op") == "originate_path":
        check_origination_paths(ctx, (inp["mib_default_hop_limit"],), (inp["mib_default_lifetime_s"],),
                                (inp["max_hop_limit"],), (inp["max_packet_lifetime_ms"],), paths=(inp["path"],),
                                secured=bool(inp.get("secured")))
    elif inp.get("op") == "indication":
        check_indications(ctx, (inp["code"],), [(inp["rhl"], inp["mhl"])], secured=bool(inp.get("secured")),
                          kinds=(inp["kind"],))
    bad = ctx.failures or ctx.mismatches or ctx.known_hits
    print("REPRODUCED" if bad else "NOT REPRODUCED")
    for r in (ctx.failures + ctx.mismatches + list(ctx.known_hits.values()))[:3]:
        print(json_dumps(r))
    return 1 if bad else 0


def json_dumps(x):
    import json
    return json.dumps(x, default=str)
